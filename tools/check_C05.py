"""C05 A version is a faithful copy; an abandoned copy leaves nothing behind."""
import random

import world_check as wk
import world_common as wc

MON = ["faithful", "history", "journal", "store_immutable", "fault_reported", "no_error"]


def main(rep):
    rng = random.Random(rep.seed)
    n = 200 if rep.tier == "quick" else 4000
    cases = []
    for i in range(n):
        t, m = wc.gen_copy_case(rng)
        cases.append(("f%d" % i, t, m))
    for i in range(n // 3):
        # history paths: each version is the appended slice, also when the wanted name is taken (several versions
        # inside one timestamp) and across restarts
        t, m = wc.gen_history_case(rng)
        cases.append(("h%d" % i, t, m))
    wk.standard_main(rep, cases=cases, monitors=MON,
                     rule=("three files per history with sizes from {0,1,2,4095,4096,4097,12345,70000}, sendfile chunk limits {none,1000,4095,4096,4097,65536}, "
                           "and between the write and the copy: nothing, rewritten, grown, deleted, replaced by a directory, made unreadable (real EACCES: the "
                           "driver runs unprivileged); monitors: every new version equals its source byte for byte (length + hash), an abandoned copy leaves no "
                           "file and no empty directory, journal labels stored/deleted/forbidden match what appeared; plus append histories of a history path (slices of 0-60 bytes, several versions inside one "
                           "timestamp, restarts): the versions in order concatenate to the file up to the remembered position"))


def replay(rep, path):
    return wk.replay_world(rep, path, MON)
