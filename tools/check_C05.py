"""C05 A version is a faithful copy; an abandoned copy leaves nothing behind."""
import random

import world_check as wk
import world_common as wc

MON = ["faithful", "history", "journal", "store_immutable", "fault_reported", "no_error"]


def putn_bytes(n, b):
    return "".join(chr(ord("a") + (i * 7 + b) % 26) for i in range(n))


def mon_shrunk(steps, meta):
    """the source is truncated by another process while it is being copied: whatever length the version gets, every
    byte of it must have been in the source (a prefix of the content the copy started from), nothing invented"""
    old = meta["old"]
    dumps = [st.dump for st in steps if st.dump is not None]
    if len(dumps) < 2:
        return None
    pre, last = dumps[0], dumps[-1]
    for p, e in last.items():
        if p.startswith("/k/store/") and e[0] == "file" and p not in pre:
            c = wk.content(e)
            if c is None:
                return "version %s is too large to judge (%s bytes)" % (p, e[2])
            if c != old[:len(c)]:
                return ("the source shrank from %d to %d bytes during the copy; the version has %d bytes that are not a prefix of what the source held "
                        "(first difference at byte %d)" % (len(old), meta["n"], len(c), next(i for i in range(len(c)) if i >= len(old) or c[i] != old[i])))
    return None


wk.MONITORS["shrunk"] = mon_shrunk


def shrink_phase(rep, exe_impl, exe_model):
    """implementation only (the model has no concurrent writer): the source is truncated at a sendfile boundary"""
    rng = random.Random(rep.seed + 5)
    cases = []
    A = wc.WATCH + "/inc/a.txt"
    for i in range(24 if rep.tier == "quick" else 300):
        size = rng.choice([2000, 3000, 4000])
        b = rng.randint(0, 25)
        s = wc.Script()
        wc.setup_world(s, wc.base_cfg(deb=0))
        s.putn(A, size, b)
        s.start()
        s.add("chunk 1000")
        s.write(7, A)
        s.dump()
        base = s.text()
        steps, res = wk.count_calls(exe_impl, base.split("\n") + ["timeout"]) if i == 0 else (None, None)
        if i == 0:
            names = res[-1][1] if res else []
            sf = [k for k, c in enumerate(names) if c.startswith("sendfile")]
        if not sf:
            break
        k = rng.choice(sf[1:] or sf)
        n = rng.choice([0, 1, 500, 999, 1000, 1001, 1500])
        s.oracle("shrink", k, n)
        s.timeout()
        s.dump()
        cases.append(("s%d" % i, s.text(), {"old": putn_bytes(size, b), "n": n}))
    if not cases:
        return False, 0, 0
    f, v = wk.run_cases(rep, exe_impl, None, cases, ["shrunk", "fault_reported"], what="shrinking source")
    # "not a regular file when its turn comes": implementation only (the model has no device nodes) - the source has
    # become a symbolic link to /dev/null (the `ln -sf /dev/null history` idiom): it opens, it is no directory, and it
    # is not a regular file: nothing is added to the store
    ncases = []
    for i in range(6 if rep.tier == "quick" else 40):
        s = wc.Script()
        wc.setup_world(s, wc.base_cfg(deb=0))
        srcp = rng.choice([wc.WATCH + "/inc/a.txt", wc.WATCH + "/inc/deep/er/b.c", wc.WATCH + "/hist.log"])
        s.put(srcp, "was a file %d" % i)
        s.start()
        s.write(7, srcp)
        s.rm(srcp)
        s.add("symlink %s %s %d" % (wc.hexs(srcp), wc.hexs("/dev/null"), wc.CLOCK0))
        s.dump()
        s.timeout()
        s.dump()
        ncases.append(("n%d" % i, s.text(), {"history_rels": []}))
    if not f:
        f3, v3 = wk.run_cases(rep, exe_impl, None, ncases, ["faithful", "fault_reported"], what="source not regular")
        f, v = f or f3, v + v3
    # "nothing is added to the store - no empty or partial file and no empty directories" when the copy is given up
    # because a call fails: every call of the copy of a file, of a history file and of a file whose name is taken fails
    # in turn (close of the new version included)
    fcases = wk.enumerate_cases(exe_impl, rep.tier, "fault", rep.seed, only=["drain_one", "drain_history_offset", "drain_collision"])
    if not f:
        f2, v2 = wk.run_cases(rep, exe_impl, exe_model, fcases, ["no_partial", "fault_reported", "completed_exact"], what="abandoned copy")   # (empty directories after a failing mkdir are not C05's business: it speaks of the SOURCE's conditions)
        f, v = f or f2, v + v2
    # another process appends to a history file while its slice is copied (implementation only): see check_C08.grow_phase
    ng = 0
    if not f:
        from check_C08 import grow_phase
        f5, v5, ng = grow_phase(rep, exe_impl, exe_model)
        f, v = f or f5, v + v5
    return f, v, len(cases) + len(fcases) + len(ncases) + ng


def gen_policy_change_case(rng):
    """a path is versioned as append-only history (leaving a remembered position), then the configuration is rewritten
    so that it is an ordinary included path (or the other way round), the file is rewritten as a whole and versioned
    again: under the policy in force an ordinary path is copied whole, whatever an earlier policy left behind"""
    import copy
    s = wc.Script()
    F = wc.WATCH + "/hd/notes.log"
    first_history = rng.random() < 0.75
    cfg_h = wc.base_cfg(deb=0, history=[wc.WATCH + "/hist.log", wc.WATCH + "/hd"])
    cfg_o = wc.base_cfg(deb=0, history=[wc.WATCH + "/hist.log"], included=[wc.WATCH + "/inc", "d", wc.WATCH + "/hd"])
    a, b = (cfg_h, cfg_o) if first_history else (cfg_o, cfg_h)
    wc.setup_world(s, a)
    s.start()
    s.exec(3, wc.X + "/vim")
    n = 0
    text = ""
    # (as a history path it is versioned once - its first slice is the whole file, so every version of this family
    # can be judged as a plain copy)
    for _ in range(1 if first_history else rng.randint(1, 3)):
        n += 1
        text += "entry %d %s\n" % (n, "x" * rng.randint(0, 30))
        s.put(F, text)
        s.write(3, F)
        s.tick(1)
        s.dump()
        s.timeout()
        s.dump()
    s.config(b)
    s.write(4, wc.CFG_PATH)
    s.tick(1)
    if rng.random() < 0.3:
        s.restart()
        s.exec(3, wc.X + "/vim")
    # rewritten as a whole: other bytes, longer or shorter than the remembered position
    text = "".join("rewritten line %d %s\n" % (i, "y" * rng.randint(0, 20)) for i in range(rng.randint(1, 8)))
    s.put(F, text)
    s.write(3, F)
    s.tick(1)
    s.dump()
    s.timeout()
    s.dump()
    # judged as an ordinary path in both directions: a path that BECOMES history has no remembered position yet, so its
    # first slice is the whole file as well
    return s.text(), {"history_rels": ["hist.log"]}


def stuck_cleanup_phase(rep, exe_impl, exe_model):
    """implementation only (directory modes are not part of the model's file system): the source has disappeared /
    become unreadable / become a directory AND the directories created for its version cannot be removed again (their
    parent is not writable): the item is still dropped and reported as deleted / forbidden - the clean-up is nobody's
    business"""
    rng = random.Random(rep.seed + 7)
    cases = []
    for i in range(9 if rep.tier == "quick" else 60):
        s = wc.Script()
        wc.setup_world(s, wc.base_cfg(deb=0))
        s.start()
        s.exec(3, wc.X + "/vim")
        E, B = wc.WATCH + "/inc/e%d.txt" % i, wc.WATCH + "/n"
        SE = wc.R + "/k/store/inc/e%d.txt" % i
        s.put(E, "here today")
        s.write(3, E)
        s.put(B, "bystander")
        s.write(3, B)
        how = ["deleted", "directory", "unreadable"][i % 3]
        if how == "deleted":
            s.rm(E)
        elif how == "directory":
            s.rm(E)
            s.mkdirp(E)
        else:
            s.chmod(E, False)
        s.mkdirp(SE)
        s.add("chmodx %s 555" % wc.hexs(wc.R + "/k/store/inc"))
        s.tick(1)
        s.dump()
        s.timeout()
        s.dump()
        s.add("chmodx %s 755" % wc.hexs(wc.R + "/k/store/inc"))
        if how == "unreadable":
            s.chmod(E, True)
        cases.append(("sc%d" % i, s.text(), {"journal_counts": False}))
    f, v = wk.run_cases(rep, exe_impl, None, cases, ["no_error", "bursts", "store_immutable", "queue_form"], what="clean-up that cannot finish")
    return f, v, len(cases)


def extra_phases(rep, exe_impl, exe_model):
    f, v, n = shrink_phase(rep, exe_impl, exe_model)
    if not f:
        f2, v2, n2 = stuck_cleanup_phase(rep, exe_impl, exe_model)
        f, v, n = f or f2, v + v2, n + n2
    return f, v, n


def main(rep):
    rng = random.Random(rep.seed)
    n = 200 if rep.tier == "quick" else 4000
    cases = []
    for i in range(n):
        t, m = wc.gen_copy_case(rng)
        cases.append(("f%d" % i, t, m))
    for i in range(n // 3):
        # history paths: each version is the appended slice, also when the wanted name is taken (several versions
        # inside one timestamp) and across restarts
        t, m = wc.gen_history_case(rng)
        cases.append(("h%d" % i, t, m))
    for i in range(max(20, n // 10)):
        t, m = gen_policy_change_case(rng)
        cases.append(("p%d" % i, t, m))
    # a member of a project whose source is gone / unreadable / a directory when its turn comes: dropped and reported
    # like any other file, nothing left in the store or in the project's tree of links, the pass goes on
    for i in range(max(9, n // 25)):
        s = wc.Script()
        wc.setup_world(s, wc.base_cfg(deb=0))
        s.start()
        s.exec(3, wc.X + "/vim")
        root = rng.choice([wc.WATCH + "/proj", wc.WATCH + "/pp/p1"])
        M, K = root + "/other/dir/gone%d.c" % i, root + "/keep.c"
        if rng.random() < 0.5:
            s.put(K, "kept")
            s.write(3, K)
            s.tick(1)
            s.timeout()
        s.put(M, "soon gone")
        s.write(3, M)
        s.put(wc.WATCH + "/n", "bystander")
        s.write(3, wc.WATCH + "/n")
        how = i % 3
        if how == 0:
            s.rm(M)
        elif how == 1:
            s.rm(M)
            s.mkdirp(M)
        else:
            s.chmod(M, False)
        s.tick(1)
        s.dump()
        s.timeout()
        s.dump()
        if how == 2:
            s.chmod(M, True)
        cases.append(("pm%d" % i, s.text(), {"journal_counts": False}))
    wk.standard_main(rep, cases=cases, monitors=MON, extra=extra_phases,
                     rule=("three files per history with sizes from {0,1,2,4095,4096,4097,12345,70000}, sendfile chunk limits {none,1000,4095,4096,4097,65536}, "
                           "and between the write and the copy: nothing, rewritten, grown, deleted, replaced by a directory, made unreadable (real EACCES: the "
                           "driver runs unprivileged); monitors: every new version equals its source byte for byte (length + hash), an abandoned copy leaves no "
                           "file and no empty directory, journal labels stored/deleted/forbidden match what appeared; a source truncated by another process at a sendfile boundary (implementation only): the version is a prefix of what the source held; a vanished / unreadable / non-regular source whose freshly created version directories cannot be removed again (implementation only): still dropped and reported, no error; plus append histories of a history path (slices of 0-60 bytes, several versions inside one "
                           "timestamp, restarts): the versions in order concatenate to the file up to the remembered position; plus a path whose policy changes between history and ordinary "
                           "by a reload and which is then rewritten as a whole; plus every single failing call of three passes (a reported failure of the copy must not leave the file it was writing)"))


def replay(rep, path):
    return wk.replay_world(rep, path, MON)
