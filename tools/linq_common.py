"""Generators and the reference FIFO (the property's own wording) for C14/C01."""
import itertools
import re
import random

from vlib import hexs, unhexs

CLOCK0 = 1000000


def is_normal(p):
    return p.startswith("/") and not p.startswith("//") and not p.startswith("/./")


class RefQueue:
    """Reference coalescing FIFO + debounce bookkeeping, written from the
    property text (not from the code)."""

    def __init__(self, deb):
        self.q = []  # (path, flags, time)
        self.deb = deb
        self.now = CLOCK0
        self.last_write = {}

    def push(self, p, m):
        self.q.append((p, m, self.now))
        self.last_write[p] = self.now

    def head(self):
        """returns ('pause', w) or ('ready', p, m); drops stale duplicates"""
        while self.q:
            p, m, t = self.q[0]
            if self.now - t < self.deb:
                return ("pause", self.deb - (self.now - t))
            if any(e[0] == p for e in self.q[1:]):
                self.q.pop(0)
                continue
            return ("ready", p, m)
        return ("pause", -1)

    def pop(self):
        if not self.q:
            return "abort"
        self.q.pop(0)
        return "ok"


def check_trace(script_lines, out_lines, mode="fifo"):
    """Monitor.  mode 'fifo': C14 (equality with the reference FIFO, disk form).
    mode 'debounce': C01 only (no early yield, pause soundness), judged on the
    implementation's own outputs.  Returns None or a message."""
    ref = None
    oi = 0
    seq = 0
    wseq, sseq = {}, {}   # last write / last store sequence number per path

    def nxt():
        nonlocal oi
        if oi >= len(out_lines):
            return None
        oi += 1
        return out_lines[oi - 1]

    def pending():
        return [p for p in wseq if wseq[p] > sseq.get(p, -1)]

    def judge(w, what):
        nonlocal seq
        seq += 1
        if mode == "fifo":
            return judge_fifo(ref, w, what)
        if w[1] == "ready":
            p = w[2]
            lw = ref.last_write.get(p)
            if lw is not None and ref.now - lw < ref.deb:
                return "%s: %s handed to the store %d s after its most recent write, debounce is %d" % (what, p, ref.now - lw, ref.deb)
            sseq[p] = seq
        elif w[1] == "pause":
            wv = int(w[2])
            pend = pending()
            if pend:
                due = min(ref.last_write[p] + ref.deb for p in pend) - ref.now
                if due > 0 and (wv <= 0 or wv > due):
                    return "%s: wait %d requested while the earliest pending item is due in %d" % (what, wv, due)
        else:
            return "%s reported an error" % what
        return None

    for l in script_lines:
        t = l.split()
        if not t:
            continue
        op = t[0]
        if op == "lq_load":
            ref = RefQueue(int(t[1]))
            if nxt() != "load ok":
                return "load failed"
        elif op == "lq_push":
            o = nxt()
            # a link target of PATH_MAX (4096) bytes or more cannot be created: the push must fail and change nothing
            m = int(t[2])
            tlen = (len(t[1]) - 1) // 2 + sum(2 if (m >> i) & 1 else 1 for i in range(m.bit_length()))
            if tlen >= 4096:
                if o != "push err":
                    return "push of a %d-byte link target reported '%s'" % (tlen, o)
                continue
            if o != "push ok":
                return "push of %s reported '%s'" % (t[1], o)
            ref.push(t[1], int(t[2]))
            seq += 1
            wseq[t[1]] = seq
        elif op == "lq_tick":
            ref.now += int(t[1])
        elif op == "lq_redeb":
            ref.deb = int(t[1])
        elif op == "lq_reload":
            pass
        elif op == "lq_pop":
            o = nxt()
            exp = "pop " + ref.pop()
            if mode == "fifo" and o != exp:
                return "pop: observed '%s', reference FIFO says '%s'" % (o, exp)
        elif op == "lq_head":
            o = nxt()
            if o is None:
                return "missing output"
            bad = judge(o.split(), "head")
            if bad:
                return bad
        elif op == "lq_drain":
            while True:
                o = nxt()
                if o is None:
                    return "missing output in drain"
                w = o.split()
                if w[0] == "stored" and len(w) != 3:
                    return "drain reported '%s' (a path and its flags were expected)" % o
                if w[0] == "stored":
                    bad = judge(["head", "ready", w[1], w[2]], "timeout pass")
                    if bad:
                        return bad
                    ref.pop()
                elif w[:2] == ["drain", "pause"]:
                    bad = judge(["head", "pause", w[2]], "timeout pass")
                    if bad:
                        return bad
                    break
                else:
                    return "drain reported '%s'" % o
        elif op == "lq_dump":
            o = nxt()
            if o is None:
                return "missing dump"
            if mode != "fifo":
                continue
            w = o.split()
            ents = w[2:]
            if int(w[1]) != len(ref.q):
                return "directory holds %s links, reference queue has %d entries" % (w[1], len(ref.q))
            raw = [e.rsplit(":", 2)[0] for e in ents]
            if not all(re.fullmatch(r"0|[1-9][0-9]*", x) for x in raw):
                return "directory holds a link whose name is not a decimal number: %s" % raw
            names = [int(x) for x in raw]
            if names and names != list(range(names[0], names[0] + len(names))):
                return "directory is not a gap-free run of numbered links: %s" % names
            for e, (p, m, tm) in zip(ents, ref.q):
                if int(e.rsplit(":", 2)[2]) != tm:
                    return "link %s has mtime %s, enqueue time was %d" % (e.rsplit(":", 2)[0], e.rsplit(":", 2)[2], tm)
    return None


def judge_fifo(ref, w, what):
    exp = ref.head()
    if w[1] == "pause":
        wv = int(w[2])
        if exp != ("pause", wv):
            return "%s: observed wait %d, reference FIFO says %s" % (what, wv, exp)
    elif w[1] == "ready":
        if len(w) < 4 or not w[3].isdigit():
            return "%s: observed '%s' (a path and its flags were expected), reference FIFO says %s" % (what, " ".join(w), exp)
        if exp != ("ready", w[2], int(w[3])):
            return "%s: observed %s flags %s, reference FIFO says %s" % (what, w[2], w[3], exp)
    else:
        return "%s reported an error" % what
    return None


def gen_exhaustive(maxlen, deb0=2, handler_style=False):
    a, b = hexs("/a"), hexs("/.b/c.txt")
    alphabet = ["lq_push %s 0" % a, "lq_push %s 5" % b, "lq_push %s 2" % a, "lq_head", "lq_pop",
                "lq_tick 1", "lq_redeb 0", "lq_redeb 3", "lq_reload 0"]
    if handler_style:   # the daemon only ever looks at the head inside a timeout pass
        alphabet = [x for x in alphabet if x not in ("lq_head", "lq_pop")] + ["lq_drain", "lq_tick 2"]
    n = 0
    for seq in itertools.product(range(len(alphabet)), repeat=maxlen):
        lines = ["lq_load %d 0 4" % deb0]
        for i in seq:
            lines.append(alphabet[i])
            lines.append("lq_dump")
        lines.append("lq_tick 5")
        lines.append("lq_drain")
        yield ("x%d" % n, "\n".join(lines), "exhaustive")
        n += 1


def rand_path(rng):
    k = rng.random()
    if k < 0.03:
        ln = rng.choice([3900, 1023, 1024, 1025])
    elif k < 0.06:
        ln = rng.choice([4030, 4060, 4085])     # with a long flag prefix the link target passes PATH_MAX: the push fails
    else:
        ln = rng.randint(1, 40)
    comps = []
    total = 0
    while total < ln:
        c = "".join(rng.choice("abcXYZ019._- \xe9\xff") for _ in range(rng.randint(1, min(200, ln - total))))
        if not comps and rng.random() < 0.25:
            c = "." + c.lstrip(".")     # hidden top-level directories such as /.snapshots are ordinary paths
        if len(comps) == 0 and c == ".":
            c = ".d"                    # only the component "." itself (and the empty one) is not normal (finding F8)
        comps.append(c)
        total += len(c) + 1
    return "/" + "/".join(comps)


def gen_random(n, seed, handler_style=False):
    rng = random.Random(seed)
    for k in range(n):
        pool = [rand_path(rng) for _ in range(rng.randint(1, 6))]
        if k % 7 == 3:
            # two different paths of equal length whose 64-bit hashes are equal (the multiset that tells a superseded
            # entry from a live one is keyed by hash, length AND the string itself): each is a path of its own
            pre = rng.choice(["", "/home/u", "/x/y"])
            pool = [pre + "/sqpqjslgoipqkm", pre + "/gjkjqgoskrkion"] + pool[:2] if pre == "" else [pre + "/sqpqjslgoipqkm", pre + "/gjkjqgoskrkion"][::-1] + pool[:1]
        deb = rng.choice([0, 1, 2, 5])
        lines = ["lq_load %d %d %d" % (deb, rng.choice([0, 1, 8]), rng.choice([1, 8, 64]))]
        for _ in range(rng.randint(20, 200) if not handler_style else rng.randint(10, 60)):
            r = rng.random()
            if r < 0.4:
                bl = rng.choice([0, 0, 1, 2, 3, 8, 17, 30])
                m = rng.randint(0, (1 << bl) - 1) if bl else 0
                if bl:
                    m |= 1 << (bl - 1)
                lines.append("lq_push %s %d" % (hexs(rng.choice(pool)), m))
            elif r < 0.55:
                lines.append("lq_tick %d" % rng.choice([0, 1, 1, min(deb, 90) - 1 if deb > 1 else 1, min(deb, 90), min(deb, 90) + 1]))
            elif r < 0.7:
                lines.append("lq_head" if not handler_style else "lq_drain")
            elif r < 0.8:
                lines.append("lq_pop" if not handler_style else "lq_drain")
            elif r < 0.87:
                # (also intervals an administrator writes to mean "hold everything": a day, 2^31, the largest integer)
                deb = rng.choice([0, 1, 2, 5, 7, 0, 1, 2, 5, 7, 86400, 2 ** 31, 2 ** 63 - 1])
                lines.append("lq_redeb %d" % deb)
            elif r < 0.93:
                lines.append("lq_reload %d" % rng.choice([0, 3]))
            else:
                lines.append("lq_dump")
        lines.append("lq_dump")
        lines.append("lq_tick 9")
        lines.append("lq_drain")
        yield ("r%d" % k, "\n".join(lines), "random")


def gen_unnormal():
    """paths whose first component is empty or '.', API level only (finding F8)"""
    for i, p in enumerate(["/./x", "//x", "/./", "//"]):
        yield ("u%d" % i, "\n".join(["lq_load 0 0 8", "lq_push %s 0" % hexs(p), "lq_head"]), "unnormal")
