"""C12 Root privileges are dropped before configuration or events are processed."""
import itertools
import json

import main_common as mc
import vlib

WORK = ("load", "poll", "read", "exec", "write", "close", "timeout")


def monitor(meta, out, designated=None):
    """judge the implementation's own trace"""
    stat, cred = meta
    lines = out or []
    if designated is not None:
        # "the non-root owner of the designated path": the path that is examined is the one given with -d (or the
        # working directory when none is given), whatever other options are present or absent
        seen = [vlib.unhexs(l.split()[1]) for l in lines if l.startswith("stat ") and len(l.split()) > 1]
        if any(x != designated for x in seen):
            return "the identity to switch to was taken from '%s', the designated path is '%s'" % ([x for x in seen if x != designated][0], designated)
    # the designated path is the default `.` (or another relative name): it names what it named when the daemon was
    # started - a change of the working directory before it is examined makes another directory's owner the identity
    for i, l in enumerate(lines):
        if l.startswith("chdir ") and vlib.unhexs(l.split()[1]) != "/cwd":
            later = [vlib.unhexs(x.split()[1]) for x in lines[i + 1:] if x.startswith("stat ") and len(x.split()) > 1]
            rel = [x for x in later if not x.startswith("/")]
            if rel:
                return ("the working directory was changed to '%s' before the designated path '%s' was examined: the identity is taken from the owner of another directory"
                        % (vlib.unhexs(l.split()[1]), rel[0]))
    # "no configuration code is run ... while either the user id or the group id is still zero"
    for l in lines:
        if l.startswith("loadconfig "):
            t = l.split()
            if t[1] == "0" or t[2] == "0" or t[3] != "0":
                return "the configuration was loaded (configuration code run) with user id %s, group id %s and %s supplementary groups: before the privileges were dropped" % (t[1], t[2], t[3])
    # "AFTER setting up monitoring the daemon switches ... to the non-root owner of the designated path": the owner that
    # counts is the one the path has once the marks (and the bind mounts they needed) are in place
    st_i = [i for i, l in enumerate(lines) if l.startswith("stat ")]
    mk_i = [i for i, l in enumerate(lines) if l.startswith(("mark ", "mount ", "faninit"))]
    if st_i and mk_i and st_i[0] < mk_i[-1]:
        return "the designated path was examined (%s) before monitoring was set up (%s comes later): its owner may be another one afterwards" % (lines[st_i[0]], lines[mk_i[-1]])
    if not lines or not lines[-1].startswith(("exit", "end")):
        return "main did not finish: %s" % lines[-2:]
    asroot = [l for l in lines if l.startswith("asroot ")]
    if asroot:
        t = asroot[0].split()
        return ("'%s %s' was attempted while user id %s / group id %s: nothing may be created or changed on disk before the privileges are dropped"
                % (t[1], vlib.unhexs(t[2]) if t[2] != "-" else "", t[3], t[4]))
    loads = [i for i, l in enumerate(lines) if l.startswith("load ")]
    firstwork = next((i for i, l in enumerate(lines) if l.split()[0] in WORK), None)
    if loads:
        t = lines[loads[0]].split()
        uid, gid, groups = int(t[3]), int(t[4]), int(t[5])
        if uid == 0 or gid == 0:
            return "the handler was loaded with uid %d gid %d" % (uid, gid)
        if groups != 0:
            return "the handler was loaded with %d supplementary groups still set" % groups
        if firstwork is not None and firstwork < loads[0]:
            return "'%s' happened before the privileges were dropped" % lines[firstwork]
    elif firstwork is not None:
        return "'%s' happened although the handler was never loaded" % lines[firstwork]
    uid0, gid0, ng0, sg, sgid, suid = cred
    started_root = uid0 == 0 and gid0 == 0 and ng0 > 0
    bad = stat[0] != "ok" or stat[1] == 0 or stat[2] == 0 or sg != "ok" or sgid != "ok" or suid != "ok"
    attempted = stat[0] == "ok" and stat[1] != 0 and stat[2] != 0
    if attempted and "fail" in (sg, sgid, suid) and (loads or not lines[-1].startswith("exit 1")):
        # whatever the initial credentials: a switch that is attempted and reports failure stops the daemon
        # (an unusable owner while already unprivileged is not judged: fanotify_init fails first in reality)
        return ("switches %s %s %s: a switch that fails must end the daemon with a failure, but %s"
                % (sg, sgid, suid, "the handler was loaded" if loads else "main ended with '%s'" % lines[-1]))
    if started_root and bad and loads:
        return "the drop should have failed closed (stat %s, switches %s %s %s) but the handler was loaded" % (stat, sg, sgid, suid)
    if started_root and bad and not lines[-1].startswith("exit 1"):
        return "the drop should have failed closed but main ended with '%s'" % lines[-1]
    return None


def main(rep):
    exe_impl, exe_model = vlib.prepare(rep)
    found = False
    cases = []
    n = 0
    stats = [("fail", 0, 0), ("ok", 0, 0), ("ok", 0, 5), ("ok", 5, 0), ("ok", 1000, 100)]
    sws = ["ok", "fail", "noeffect"]
    creds0 = [(0, 0, 3), (0, 0, 0), (1000, 100, 0), (0, 100, 2), (1000, 0, 1)]
    for st, (a, b, c), cr in itertools.product(stats, itertools.product(sws, repeat=3), creds0):
        slots = [mc.slot(exe=1), mc.slot(poll=1, timeout=3)]
        cases.append(("p%d" % n, mc.main_case(stat=st, cred=cr + (a, b, c), slots=slots), (st, cr + (a, b, c))))
        n += 1
    # failing start-up calls must not let anything through either
    for kw in ({"fan": 0}, {"minfo": 0}, {"mount_ok": 0, "mounted": ()}, {"markfail": 0}, {"markfail": 1}, {"load": 0}):
        cases.append(("p%d" % n, mc.main_case(slots=[mc.slot(exe=1)], **kw), (("ok", 1000, 100), (0, 0, 3, "ok", "ok", "ok"))))
        n += 1
    # watch roots that do not exist (or are spelled through a missing directory): whatever main() does about them,
    # it does not create anything as root
    nmissing = 0
    for args in (["-w", "/nx"], ["-e", "/nx/bin"], ["-w", "/nx/deep/er", "-e", "/"], ["-w", "/", "-w", "/nx"], ["-d", "/nx", "-w", "/nx"]):
        for cr in ((0, 0, 3), (0, 100, 2), (1000, 0, 1)):
            cases.append(("p%d" % n, mc.main_case(args=args, slots=[mc.slot(exe=1)], cred=cr + ("ok", "ok", "ok")), (("ok", 1000, 100), cr + ("ok", "ok", "ok"))))
            n += 1
            nmissing += 1
    # the designated path given explicitly, with and without the other options
    designated = {}
    real = {"/a": "/a", "/b": "/b", ".": "/cwd", "/": "/"}
    for args in (["-d", "/own"], ["-d", "/own", "-w", "/a"], ["-d", "/own", "-e", "/b"], ["-w", "/a", "-d", "/own"], ["-w", "/a"], ["-e", "/b"], [],
                 ["-d", "/own", "-w", "/a", "-e", "/b"], ["-c", "/cfg", "-d", "/own"]):
        for st in (("ok", 1000, 100), ("ok", 0, 0), ("fail", 0, 0)):
            cid = "p%d" % n
            cases.append((cid, mc.main_case(args=args, real=real, stat=st, slots=[mc.slot(exe=1)]), (st, (0, 0, 3, "ok", "ok", "ok"))))
            designated[cid] = "/own" if "-d" in args else "."
            n += 1
    # watched directories below, above and beside the working directory (`/cwd` in the scripted world), already mounted
    # or not, with the designated path left at its default `.`: the identity is that of the working directory's owner
    real2 = {"/cwd/sub": "/cwd/sub", "/cwd": "/cwd", "/cwdx": "/cwdx", "/c": "/c", ".": "/cwd", "/": "/", "sub": "/cwd/sub"}
    for args in (["-w", "/cwd/sub"], ["-e", "/cwd/sub"], ["-w", "/cwd"], ["-w", "/cwdx"], ["-w", "/c"], ["-w", "sub"], ["-w", "/cwd/sub", "-e", "/cwd"]):
        for mounted in (("/",), ("/", "/cwd/sub", "/cwd")):
            for st in (("ok", 1000, 100), ("ok", 0, 0)):
                cid = "p%d" % n
                cases.append((cid, mc.main_case(args=args, real=real2, mounted=mounted, stat=st, slots=[mc.slot(exe=1)]), (st, (0, 0, 3, "ok", "ok", "ok"))))
                designated[cid] = "."
                n += 1
    if exe_impl:
        impl, model, problems = vlib.correspond(exe_impl, exe_model, "main", [(c, s) for c, s, _ in cases], sandbox=True)
        validated = 0
        for cid, script, meta in cases:
            bad = monitor(meta, impl.get(cid), designated.get(cid))
            if bad:
                rep.violation("privileges", {"case": cid, "script": script.split("\n"), "implementation": impl.get(cid), "model": model.get(cid), "what": bad})
                found = True
                break
            if exe_model and impl.get(cid) != model.get(cid):
                # a divergence is reported only if no monitor fires on any case (a concrete failing input wins)
                rep.defer_divergence({"case": cid, "script": script.split("\n"), "implementation": impl.get(cid), "model": model.get(cid),
                                                 "what": "implementation and model differ"})
                continue
            validated += 1
        # every allocation made by main() fails in turn (implementation only) in the start-ups whose privilege drop
        # must fail closed: a lost error message must not become a lost error
        nalloc = 0
        if not found:
            bases = []
            for st, sw, cr in ((("ok", 1000, 100), ("fail", "ok", "ok"), (0, 0, 0)), (("ok", 1000, 100), ("fail", "ok", "ok"), (0, 0, 3)),
                               (("ok", 1000, 100), ("ok", "fail", "ok"), (0, 0, 3)), (("ok", 1000, 100), ("ok", "ok", "fail"), (0, 0, 3)),
                               (("ok", 1000, 100), ("noeffect", "noeffect", "noeffect"), (0, 0, 3)), (("fail", 0, 0), ("ok", "ok", "ok"), (0, 0, 3)),
                               (("ok", 1000, 100), ("ok", "ok", "ok"), (0, 0, 3))):
                bases.append((mc.main_case(stat=st, cred=cr + sw, slots=[mc.slot(exe=1)]), (st, cr + sw)))
            counts, _, _ = vlib.correspond(exe_impl, None, "main", [("n%d" % i, b.replace("m_run", "m_allocs\nm_run")) for i, (b, _) in enumerate(bases)], sandbox=True)
            acases = []
            for i, (b, meta) in enumerate(bases):
                na = next((int(l.split()[1]) for l in counts.get("n%d" % i) or [] if l.startswith("allocs ")), 0)
                for k in range(min(na, 80)):
                    acases.append(("f%d_%d" % (i, k), b.replace("m_run", "m_afail %d\nm_run" % k), meta))
            nalloc = len(acases)
            aimpl, _, aproblems = vlib.correspond(exe_impl, None, "main", [(c, t) for c, t, _ in acases], sandbox=True, shards=min(16, max(1, len(acases))))
            for cid, script, meta in acases:
                bad = monitor(meta, [l for l in (aimpl.get(cid) or []) if not l.startswith("allocs ")])
                if bad:
                    rep.violation("privileges", {"case": cid, "script": script.split("\n"), "implementation": aimpl.get(cid),
                                                 "what": "with allocation %s of main() failing: %s" % (cid.split("_")[1], bad)})
                    found = True
                    break
                validated += 1
        rep.cov["allocation_failures_enumerated"] = nalloc
        rep.cov["traces_validated_against_impl"] = validated
        for p in problems:
            rep.notes.append(p)
            if not found:
                rep.violation("driver", {"what": p}, found_input=False)
                found = True
    rep.cov["evaluations"] = len(cases)
    rep.cov["distinct_nontrivial"] = len(cases)
    rep.cov["exhaustive"] = True
    rep.cov["input_distribution"] = {"stat x switches x initial credentials": len(cases) - 6 - nmissing - len(designated), "failing start-up calls": 6, "missing watch roots": nmissing, "explicit / default designated path, roots around the working directory": len(designated)}
    rep.cov["rule"] = ("exhaustive: stat outcome {fails, owner 0:0, 0:5, 5:0, 1000:100} x {ok, fail, succeeds-without-effect}^3 for setgroups/setgid/setuid x "
                       "initial credentials {0:0 with groups, 0:0 without, 1000:100, 0:100, 1000:0} on the real main() with every call scripted, two event slots behind; "
                       "plus failures of fanotify_init, the mount table, mount, fanotify_mark, load_handler, watch roots that do not exist, the designated path given with -d in every combination with the other options (the path examined must be that one), watched directories below / above / beside the working directory with the default designated path (no change of the working directory before it is examined), and every allocation of main() failing in turn in seven start-ups whose drop must fail closed (implementation only); the monitor checks the order, the credentials at load, and that no interposed call that "
                       "modifies the file system (mkdir, open with O_CREAT, link, rename, unlink, ...) is attempted while the user id or the group id is zero")
    rep.cov["samples"] = [cases[7][1].split("\n")]
    vlib.conclude_proofs(rep, found)


def replay(rep, path):
    d = json.load(open(path))
    exe_impl, exe_model = vlib.prepare(rep)
    impl, model, _ = vlib.correspond(exe_impl, exe_model, "main", [("replay", "\n".join(d["script"]))], sandbox=True)
    print("implementation:", impl.get("replay"))
    print("model:         ", model.get("replay"))
    return 1 if impl.get("replay") != model.get("replay") else 0
