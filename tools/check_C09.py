"""C09 Store layout is predictable, keeps the extension, and is confined."""
import itertools
import json
import random

import vlib
import world_check as wk
import world_common as wc
from vlib import hexs, unhexs


def spec_ext(path):
    """everything from the first dot of the file name, not counting a leading dot"""
    base = path.rsplit("/", 1)[-1]
    body = base[1:] if base.startswith(".") else base
    i = body.find(".")
    return "" if i < 0 else body[i:]


def pure_cases(tier, seed):
    rng = random.Random(seed)
    cases = []
    n = 0
    maxlen = 6 if tier == "quick" else 7
    for ln in range(1, maxlen + 1):
        for cs in itertools.product("ab./", repeat=ln):
            name = "".join(cs)
            cases.append(("e%d" % n, "ext " + hexs(name), ("ext", name)))
            n += 1
    for i in range(400 if tier == "quick" else 5000):
        name = "".join(rng.choice("abc..//\xe9 -") for _ in range(rng.randint(1, 40)))
        cases.append(("e%d" % n, "ext " + hexs(name), ("ext", name)))
        n += 1
    for i in range(300 if tier == "quick" else 3000):
        root = "/" + "".join(rng.choice("abc/") for _ in range(rng.randint(1, 8)))
        rel = "".join(rng.choice("ab./") for _ in range(rng.randint(1, 10)))
        num = str(rng.randint(0, 10 ** rng.randint(1, 12)))
        # version strings as strftime patterns produce them: plain, dotted dates, empty, dot-led, with dashes
        ver = rng.choice(["v" + num, "v" + num, "v2026.10.01-" + num, "", "." + num, num + "-1", "v." + num + ".", "a.b"])
        k = rng.choice([0, 0, 1, 2, 9, 10, 11, 99, 100, 1234])
        if i % 4 == 0:
            # deep trees and long store roots: whole store paths around and beyond 255 bytes (NAME_MAX is a bound on
            # one component, not on the path), names with compound extensions
            root = "/" + "/".join("r" * rng.randint(1, 40) for _ in range(rng.randint(1, 4)))
            rel = "/".join("d" * rng.randint(1, 30) for _ in range(rng.randint(1, 9))) + "/" + rng.choice(["backup.tar.gz", "a.b.c.d", "a..b", "x.y", "noext"])
        cases.append(("e%d" % n, "sp %s %s %s %d" % (hexs(root), hexs(rel), hexs(ver), k), ("sp", root, rel, ver, k)))
        n += 1
    return cases


def pure_monitor(meta, out):
    if meta[0] == "ext":
        exp = "ext " + hexs(spec_ext(meta[1]))
    else:
        _, root, rel, ver, k = meta
        exp = "sp " + hexs("%s/%s/%s%s%s" % (root, rel, ver, "-%d" % k if k else "", spec_ext(rel)))
    if not out or out[0] != exp:
        got = unhexs(out[0].split()[1]) if out else None
        return "got %r, the documented layout says %r" % (got, unhexs(exp.split()[1]))
    return None


def mon_layout(steps, meta):
    """every new version sits at store_root/<path relative to the common parent>/<version>[-k]<extension of the file>
    for a file whose write was accepted"""
    import re
    written = set()
    prev = None
    for st in steps:
        if st.op == "write" and len(st.tok) > 2:
            p = vlib.unhexs(st.tok[2])
            base = wc.R + meta.get("wprefix", "/w/")       # the common parent of the write roots of this case
            if p.startswith(base):
                written.add(p[len(base):])
        if st.dump is None:
            continue
        cur = st.dump
        if prev is not None:
            for p, e in cur.items():
                if p.startswith("/k/store/") and e[0] == "file" and p not in prev:
                    rel, name = p[len("/k/store/"):].rsplit("/", 1)
                    if rel not in written:
                        return "new version %s is not under the relative path of any file whose write was accepted (%s)" % (p, sorted(written)[:6])
                    ext = spec_ext(rel)
                    if not re.match(r"^v\d+(-\d+)?" + re.escape(ext) + "$", name):
                        return "new version %s is not named <version>[-k]%s" % (p, ext)
        prev = cur
    return None


wk.MONITORS["layout"] = mon_layout


def mon_own_directory(steps, meta):
    """each of the files written once (meta 'names', below inc/) has, after the pass, exactly one version, in the store
    directory named like the file itself: distinct files never share a store directory"""
    dumps = [st.dump for st in steps if st.dump is not None]
    if not dumps or not meta.get("names"):
        return None
    last = dumps[-1]
    for nm in meta["names"]:
        vers = [p for p, e in last.items() if p.startswith("/k/store/inc/%s/" % nm) and e[0] == "file"]
        if len(vers) != 1:
            others = sorted(p for p, e in last.items() if p.startswith("/k/store/") and e[0] == "file")
            return "the file inc/%s was written once and has %d versions in its own store directory (the store holds %s)" % (nm, len(vers), others)
    return None


wk.MONITORS["own_directory"] = mon_own_directory


def mon_queue_in_force(steps, meta):
    """'creates entries only beneath its configured ... queue ... locations': after the configuration was rewritten with
    another queue_path (and accepted), the entry of the next accepted write appears beneath THAT directory"""
    if not meta.get("queue_after"):
        return None
    dumps = [st.dump for st in steps if st.dump is not None]
    if len(dumps) < 2:
        return None
    prev, last = dumps[-2], dumps[-1]
    new = [p for p, e in last.items() if e[0] == "link" and p not in prev and p.startswith("/k/var/queue")]
    wrong = [p for p in new if not p.startswith(meta["queue_after"] + "/")]
    if wrong or not new:
        return "queue_path is %s since the reload, but the entry of the next write appeared as %s" % (meta["queue_after"], wrong or "nothing")
    return None


wk.MONITORS["queue_in_force"] = mon_queue_in_force


def mon_snapshot_of_directory(steps, meta):
    """the project store holds snapshots of PROJECTS - directories: no entry appears under the project store for a
    watched regular file (a loose file lying directly in a project parent is an ordinary file: its version belongs in
    the file store)"""
    prev = None
    for st in steps:
        if st.dump is None:
            continue
        cur = st.dump
        if prev is not None:
            for p, e in cur.items():
                m = wk.re.match(r"^/k/projects/([^/]+)/[^/]+$", p)
                if m and p not in prev:
                    name = m.group(1)
                    asfile = [q for q, x in cur.items() if q.startswith("/w/") and q.endswith("/" + name) and x[0] == "file"]
                    asdir = [q for q, x in list(cur.items()) + list(prev.items()) if q.startswith("/w/") and q.endswith("/" + name) and x[0] == "dir"]
                    if asfile and not asdir:
                        return "the project store got the entry %s for %s, which is a regular file, not a project (its version belongs at store_root/%s/...)" % (p, asfile[0], asfile[0][len("/w/"):])
        prev = cur
    return None


wk.MONITORS["snapshot_of_directory"] = mon_snapshot_of_directory


def main(rep):
    exe_impl, exe_model = vlib.prepare(rep)
    found = False
    if exe_impl:
        pc = pure_cases(rep.tier, rep.seed)
        impl, model, problems = vlib.correspond(exe_impl, exe_model, "pure", [(c, s) for c, s, _ in pc])
        validated = 0
        nontrivial = set()
        for cid, script, meta in pc:
            bad = pure_monitor(meta, impl.get(cid))
            if bad:
                rep.violation("layout", {"case": cid, "script": [script], "driver": "pure", "implementation": impl.get(cid),
                                         "model": model.get(cid), "what": bad})
                found = True
                break
            if exe_model and impl.get(cid) != model.get(cid):
                # a divergence is reported only if no monitor fires on any case (a concrete failing input wins)
                rep.defer_divergence({"case": cid, "script": [script], "driver": "pure", "implementation": impl.get(cid),
                                                 "model": model.get(cid), "what": "implementation and model differ"})
                continue
            validated += 1
            if "." in meta[1] if meta[0] == "ext" else True:
                nontrivial.add(script)
        rng = random.Random(rep.seed)
        nw = 150 if rep.tier == "quick" else 3000
        wcases = [("w%d" % i, wc.gen_world_case(rng, dump_around=True), {}) for i in range(nw)]
        # projects whose root is not directly under the common parent (children of a project parent), files at depth
        for i in range(nw // 3):
            t, m = wc.gen_project_case(rng)
            wcases.append(("j%d" % i, t, m))
        # names as users write them: blanks, a literal " (deleted)" at the end (what the kernel appends to the names of
        # unlinked files - these are linked), tildes, several dots: each file has its own store directory, named like it
        ncases = []
        import copy
        for i in range(6 if rep.tier == "quick" else 40):
            s = wc.Script()
            cfg = wc.setup_world(s, wc.base_cfg(deb=rng.choice([0, 2])))
            s.start()
            s.exec(3, wc.X + "/vim")
            c2 = copy.deepcopy(cfg)
            c2.queue = wc.R + "/k/var/queue%d" % rng.choice([2, 3])
            s.config(c2)
            s.write(rng.choice([3, 9]), wc.CFG_PATH)
            s.dump()
            f = rng.choice([wc.WATCH + "/inc/a.txt", wc.WATCH + "/n"])
            s.put(f, "after the move %d" % i)
            s.dump()
            s.write(3, f)
            s.dump()
            ncases.append(("q%d" % i, s.text(), {"queue_after": c2.queue[len(wc.R):]}))
        for i in range(12 if rep.tier == "quick" else 120):
            s = wc.Script()
            wc.setup_world(s, wc.base_cfg(deb=0))
            s.start()
            s.exec(3, wc.X + "/vim")
            names = rng.sample(["report.txt", "report.txt (deleted)", "a b.c", "x (deleted).txt", "notes~", "v 1.2.tar.gz", "(deleted)", "r.txt (deleted) ", "tab\tname.md"], rng.randint(2, 5))
            for j, nm in enumerate(names):
                s.put(wc.WATCH + "/inc/" + nm, "content of %s #%d" % (nm, j))
            s.dump()
            for nm in names:
                s.write(3, wc.WATCH + "/inc/" + nm)
            s.tick(1)
            s.dump()
            s.timeout()
            s.dump()
            ncases.append(("n%d" % i, s.text(), {"names": names}))
        if not found:
            f2, v2 = wk.run_cases(rep, exe_impl, exe_model, wcases, ["confined", "layout", "faithful", "snapshot_of_directory"], what="confinement")
            found = found or f2
            validated += v2
        if not found:
            # (the call log separates its fields by blanks, so names with blanks are judged by the dumps, not by the log)
            f2, v2 = wk.run_cases(rep, exe_impl, exe_model, ncases, ["queue_in_force", "layout", "faithful", "own_directory"], what="names")
            wcases = wcases + ncases
            found = found or f2
            validated += v2
            for c in wcases:
                nontrivial.add(c[1])
        # a version pattern without a slash whose EXPANSION has slashes (%D = mm/dd/yy): implementation only (the model
        # knows %s and %%); whatever the daemon does about it, no version may land outside
        # <store root>/<relative path>/<version><extension>
        dcases = []
        for i in range(4 if rep.tier == "quick" else 20):
            s = wc.Script()
            wc.setup_world(s, wc.base_cfg(deb=0, vpat=rng.choice(["%D", "v%D", "%x"])))
            s.start()
            s.exec(3, wc.X + "/vim")
            fpath = rng.choice([wc.WATCH + "/inc/a.txt", wc.WATCH + "/n"])
            s.put(fpath, "dated %d" % i)
            s.dump()
            s.write(3, fpath)
            s.dump()
            s.timeout()
            s.dump()
            dcases.append(("v%d" % i, s.text(), {}))
        if not found:
            f4, v4 = wk.run_cases(rep, exe_impl, None, dcases, ["layout", "fault_reported"], what="layout")
            found = found or f4
            validated += v4
        # "never modifies or removes a watched file" also when a call fails: every call of the passes over a file, a
        # history file, a project and a taken name fails in turn; the call log and the watched tree are judged
        fcases = wk.enumerate_cases(exe_impl, rep.tier, "fault", rep.seed,
                                    only=["drain_one", "drain_history_offset", "drain_project", "drain_collision", "accept_project"] if rep.tier == "quick" else None)
        if not found:
            f3, v3 = wk.run_cases(rep, exe_impl, exe_model, fcases, ["confined"], what="confinement under a failing call")
            found = found or f3
            validated += v3
        # "relative to the common parent of the watch roots": the real main() with one, two and three roots (equal,
        # nested, siblings, unrelated, in every order) must hand the handler the offset of the deepest directory that
        # contains ALL of them
        import itertools
        import main_common as mc
        from check_C18 import deepest_common
        roots = ["/", "/a", "/a/b", "/a/c", "/d", "/a/b/c"]
        mcases = []
        for k in (1, 2, 3):
            for combo in itertools.product(roots, repeat=k):
                args = []
                for r in combo:
                    args += ["-w", r]
                real = {r: r for r in roots}
                real["."] = "/cwd"
                mcases.append(("m%d" % len(mcases), mc.main_case(args=args, real=real, mounted=["/"], slots=[]), list(combo)))
        # roots given through a symbolic link, with `..` or a trailing slash: what counts is the directory each RESOLVES
        # to (a store path is made from the resolved path of the written file)
        spelled = {"/srv/link": "/a/b", "/x/../a/c": "/a/c", "/a/b/": "/a/b", "/lnk/deep": "/d", "/a/./b/c": "/a/b/c", "/home": "/a"}
        for k in (2, 3):
            for combo in itertools.product(sorted(spelled) + ["/a/c", "/d"], repeat=k):
                if not any(c in spelled for c in combo) or (rep.tier == "quick" and (len(mcases) % 3) and k == 3):
                    continue
                args = []
                for r in combo:
                    args += ["-w", r]
                real = {r: r for r in roots}
                real.update(spelled)
                real["."] = "/cwd"
                mcases.append(("m%d" % len(mcases), mc.main_case(args=args, real=real, mounted=["/"], slots=[]), [spelled.get(c, c) for c in combo]))
        if not found:
            impl, model, problems2 = vlib.correspond(exe_impl, exe_model, "main", [(c, t) for c, t, _ in mcases], sandbox=True)
            problems += problems2
            for cid, script, wroots in mcases:
                il = impl.get(cid) or []
                ld = [l for l in il if l.startswith("load ")]
                cpl = min(deepest_common(a, b) for a in wroots for b in wroots)
                if not ld or int(ld[0].split()[2]) != cpl:
                    rep.violation("layout", {"case": cid, "script": script.split("\n"), "driver": "main", "implementation": il,
                                             "what": "watch roots %s: store paths are made relative to offset %s, the common parent of all roots gives %d"
                                                     % (wroots, ld[0].split()[2] if ld else None, cpl)})
                    found = True
                    break
                if exe_model and il != model.get(cid):
                    rep.defer_divergence({"case": cid, "script": script.split("\n"), "driver": "main", "implementation": il, "model": model.get(cid),
                                          "what": "implementation and model differ on main() with roots %s" % wroots})
                    continue
                validated += 1
        rep.cov["evaluations"] = len(pc) + len(wcases) + len(mcases) + len(fcases) + len(dcases)
        rep.cov["distinct_nontrivial"] = len(nontrivial)
        rep.cov["traces_validated_against_impl"] = validated
        rep.cov["input_distribution"] = {"names_exhaustive_and_random": sum(1 for c in pc if c[2][0] == "ext"),
                                         "store_paths": sum(1 for c in pc if c[2][0] == "sp"), "world_histories": len(wcases), "watch_root_tuples": len(mcases), "single_faults": len(fcases)}
        rep.cov["rule"] = ("extension: every name over {a,b,.,/} up to length %d plus random names; store paths with 0..1234 collisions; "
                           "every single failing call of the passes over a file / history file / project / taken name (call log and watched tree judged); common parent: every tuple of 1-3 watch roots over {/, /a, /a/b, /a/c, /d, /a/b/c} through the real main(), also given through symbolic links, `..` and trailing slashes (the resolved directories count); "
                           "file names with blanks, a literal ' (deleted)' suffix, tildes, tabs; confinement: random handler histories (files, history paths, projects, deletions, reloads, restarts) with the call log of every "
                           "operation checked against the configured locations and the watched tree compared before/after each timeout pass; every new version must sit at "
                           "store_root/<relative path>/<version>[-k]<extension> of a file whose write was accepted and equal its source; "
                           "non-trivial = name contains a dot / history with at least one handler operation" % (6 if rep.tier == "quick" else 7))
        rep.cov["samples"] = [pc[37][1], wcases[0][1].split("\n")[-12:]]
        for p in problems:
            rep.notes.append(p)
            if not found:
                rep.violation("driver", {"what": p}, found_input=False)
                found = True
    vlib.conclude_proofs(rep, found)


def replay(rep, path):
    d = json.load(open(path))
    if d.get("driver") == "main":
        exe_impl, exe_model = vlib.prepare(rep)
        impl, model, _ = vlib.correspond(exe_impl, exe_model, "main", [("replay", "\n".join(d["script"]))], sandbox=True)
        print("implementation:", impl.get("replay"), "model:", model.get("replay"))
        return 1 if impl.get("replay") != model.get("replay") else 0
    if d.get("driver") == "pure":
        exe_impl, exe_model = vlib.prepare(rep)
        impl, model, _ = vlib.correspond(exe_impl, exe_model, "pure", [("replay", "\n".join(d["script"]))])
        print("implementation:", impl.get("replay"), "model:", model.get("replay"))
        return 1 if impl.get("replay") != model.get("replay") else 0
    return wk.replay_world(rep, path, ["confined"])
