"""C01 Debounce: nothing is copied before its quiet period has elapsed."""
import random

import check_C14
import world_check as wk
import world_common as wc


def world_phase(rep, exe_impl, exe_model):
    """handler level: the interval is changed by rewriting the configuration file while items are pending"""
    rng = random.Random(rep.seed + 1)
    n = 80 if rep.tier == "quick" else 1500
    cases = []
    for i in range(n):
        t, m = wc.gen_debounce_case(rng)
        cases.append(("d%d" % i, t, m))
    f, v = wk.run_cases(rep, exe_impl, exe_model, cases, ["bursts", "queue_form", "fault_reported", "no_error"])
    rep.cov["evaluations"] = rep.cov.get("evaluations", 0) + len(cases)
    rep.cov["traces_validated_against_impl"] = rep.cov.get("traces_validated_against_impl", 0) + v
    rep.cov["rule"] = rep.cov.get("rule", "") + ("; handler level: histories of writes, clock steps and passes in which the watched configuration file is rewritten "
                                                 "with another debounce_seconds (same queue) while items are pending; every pass is judged with the interval in force")
    return f


def main(rep):
    check_C14.main(rep, pid="C01", handler_style=True, extra=world_phase)


def replay(rep, path):
    import json
    d = json.load(open(path))
    if any(l.startswith("cfg ") for l in d.get("script", [])):
        return wk.replay_world(rep, path, ["bursts"])
    return check_C14.replay(rep, path, pid="C01")
