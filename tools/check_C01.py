"""C01 Debounce: nothing is copied before its quiet period has elapsed."""
import random

import check_C14
import world_check as wk
import world_common as wc


def gen_project_quiet_case(rng):
    """a file of a project is saved, then - inside the quiet period - a file deeper in the same project; a pass runs
    when the first save is old enough but the second is not: no snapshot yet; a later pass takes it"""
    s = wc.Script()
    deb = rng.choice([3, 5, 8])
    wc.setup_world(s, wc.base_cfg(deb=deb))
    s.start()
    s.exec(3, wc.X + "/vim")
    W = wc.WATCH
    root = rng.choice([W + "/proj", W + "/pp/p1", W + "/pp/p2"])
    shallow = rng.choice(["main.c", "README"])
    deep = rng.choice(["lib/util.c", "src/deep/x/y.h", "a/b.c"])
    first, second = rng.sample([shallow, deep], 2)
    s.put(root + "/" + first, "one")
    s.write(3, root + "/" + first)
    gap = rng.randint(1, deb - 1)
    s.tick(gap)
    s.put(root + "/" + second, "two")
    s.write(3, root + "/" + second)
    s.tick(deb - gap)          # the first save is exactly `deb` old, the second is not
    s.dump()
    s.timeout()
    s.dump()
    if rng.random() < 0.5:
        s.tick(gap - 1)        # one second before the project is quiet (or no step at all)
        s.dump()
        s.timeout()
        s.dump()
        s.tick(1)
    else:
        s.tick(gap)
    s.dump()
    s.timeout()
    s.dump()
    return s.text()


def world_phase(rep, exe_impl, exe_model):
    """handler level: the interval is changed by rewriting the configuration file while items are pending"""
    rng = random.Random(rep.seed + 1)
    n = 80 if rep.tier == "quick" else 1500
    cases = []
    for i in range(n):
        t, m = wc.gen_debounce_case(rng)
        cases.append(("d%d" % i, t, m))
    # projects: the quiet period of a project restarts with a write to any of its files, at any depth
    for i in range(12 if rep.tier == "quick" else 200):
        cases.append(("pq%d" % i, gen_project_quiet_case(rng), {}))
    for i in range(40 if rep.tier == "quick" else 800):
        t, m = wc.gen_project_case(rng)
        cases.append(("pj%d" % i, t, m))
    f, v = wk.run_cases(rep, exe_impl, exe_model, cases, ["bursts", "project_quiet", "queue_form", "fault_reported", "no_error"])
    # the wait the daemon SLEEPS: the event loop of the real main() with scripted handler answers - after every
    # notification of whatever kind (an execution, a write, the daemon's own write, neither) and after every wake-up
    # the queue is asked again and the next poll() waits exactly what it answered: with an item pending the sleep is
    # never the stale, longer wait computed before time went by
    if not f:
        import itertools
        import check_C17 as c17
        import main_common as mc
        import vlib
        kinds = ["exec", "write", "selfwrite", "none", "wakeup", "both", "pid0write"]
        lcases = []
        for d in (2, 3):
            for combo in itertools.product(kinds, repeat=d):
                if d == 3 and rep.tier == "quick" and rng.random() < 0.6:
                    continue
                # (also quiet periods of weeks: beyond 2147483 s the wait does not fit poll()'s milliseconds and is capped)
                left = rng.choice([60, 300, 7, 2147500, 3000000, 4294990])
                slots = []
                for i, k in enumerate(combo):
                    kw = dict(c17.KINDS[k])
                    kw["timeout"] = left            # the item becomes due in `left` seconds ...
                    left = max(1, left - rng.randint(1, 20))     # ... and time goes by between notifications
                    kw.setdefault("fd", 1005 + i)
                    slots.append(mc.slot(**kw))
                lcases.append(("lw%d" % len(lcases), mc.main_case(slots=slots), (combo, slots)))
        limpl, lmodel, lproblems = vlib.correspond(exe_impl, exe_model, "main", [(c, t) for c, t, _ in lcases], sandbox=True)
        for cid, script, (combo, slots) in lcases:
            il = limpl.get(cid) or []
            idx = next((i for i, l in enumerate(il) if l.startswith("load ")), None)
            got = il[idx + 1:] if idx is not None else il
            exp = c17.expected(combo, slots)
            if got != exp:
                first = next((i for i, (a, b) in enumerate(zip(got, exp)) if a != b), min(len(got), len(exp)))
                rep.violation("loop-wait", {"case": cid, "slots": list(combo), "script": script.split("\n"), "driver": "main", "implementation": il, "expected_by_property": exp,
                                            "what": "with an item pending (due in %s s as the queue answers after each notification) the event loop did %s where %s is required: the wait slept is not the one the queue asked for after the %s notification"
                                                    % ([sl[10] for sl in slots], got[first:first + 2], exp[first:first + 2], combo[max(0, sum(1 for x in exp[:first] if x.startswith("poll")) - 1)])})
                f = True
                break
            if exe_model and il != lmodel.get(cid):
                rep.defer_divergence({"case": cid, "script": script.split("\n"), "driver": "main", "implementation": il, "model": lmodel.get(cid), "what": "implementation and model differ on the event loop"})
                continue
            v += 1
        cases = cases + lcases
        for p_ in lproblems:
            rep.notes.append(p_)
    rep.cov["evaluations"] = rep.cov.get("evaluations", 0) + len(cases)
    rep.cov["traces_validated_against_impl"] = rep.cov.get("traces_validated_against_impl", 0) + v
    rep.cov["rule"] = rep.cov.get("rule", "") + ("; handler level: histories of writes, clock steps and passes in which the watched configuration file is rewritten "
                                                 "with another debounce_seconds (same queue) while items are pending; every pass is judged with the interval in force; projects: a save in a project followed inside the quiet period by a save deeper in the same project (configured roots and children of a project parent), passes at the first save's due time, one second before the project is quiet and when it is - a snapshot appears only when the latest accepted write below the project's root is old enough (judged from the write events, not from the queue); the real main() loop over 2-3 notifications of every kind with an item pending whose remaining time shrinks: every poll() sleeps what the queue answered after the latest notification")
    return f


def main(rep):
    check_C14.main(rep, pid="C01", handler_style=True, extra=world_phase)


def replay(rep, path):
    import json
    d = json.load(open(path))
    if d.get("driver") == "main":
        import vlib
        exe_impl, exe_model = vlib.prepare(rep)
        impl, model, _ = vlib.correspond(exe_impl, exe_model, "main", [("replay", "\n".join(d["script"]))], sandbox=True)
        print("implementation:", impl.get("replay"))
        print("model:         ", model.get("replay"))
        return 1 if impl.get("replay") != model.get("replay") else 0
    if any(l.startswith("cfg ") for l in d.get("script", [])):
        return wk.replay_world(rep, path, ["bursts", "project_quiet"])
    return check_C14.replay(rep, path, pid="C01")
