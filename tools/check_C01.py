"""C01 Debounce: nothing is copied before its quiet period has elapsed (queue level)."""
import check_C14


def main(rep):
    check_C14.main(rep, pid="C01", handler_style=True)


def replay(rep, path):
    return check_C14.replay(rep, path, pid="C01")
