"""C08 History paths store exactly the appended bytes."""
import random

import vlib
import world_check as wk
import world_common as wc

MON = ["history", "position_not_ahead", "store_immutable", "fault_reported", "no_error"]
HIST = ["drain_history_first", "drain_history_offset", "drain_history_19_25"]


def known(meta, msg):
    """K1: a failure inside the position update (after the version is complete) duplicates the slice"""
    if msg.startswith("history") and meta.get("phase") == "position":
        for k in vlib.known_findings().get("open", []):
            if k["property"] == "C08" and k.get("signature") == "fault-in-position-update":
                return k["id"]
    return None


def counter_phase(rep, exe_impl, exe_model):
    """the remembered position round-trips through counter.c for every size_t value"""
    rng = random.Random(rep.seed + 8)
    vals = [0, 1, 9, 10, 99, 12345678, 99999999, 100000000, 100000001, 123456789012, 10 ** 15, 2 ** 32, 2 ** 63 - 1, 2 ** 63, 2 ** 64 - 1]
    vals += [rng.randint(0, 10 ** rng.randint(1, 19)) for _ in range(60)]
    cases = [("n%d" % i, "ctr %d" % v) for i, v in enumerate(vals)]
    impl, model, problems = vlib.correspond(exe_impl, exe_model, "pure", cases)
    for (cid, script), v in zip(cases, vals):
        got = impl.get(cid)
        if got != ["ctr %d" % v]:
            rep.violation("position", {"case": cid, "script": [script], "driver": "pure", "implementation": got,
                                       "what": "the position %d written with write_counter was read back as %s" % (v, got)})
            return True, 0, len(cases)
        if exe_model and model.get(cid) != got:
            rep.defer_divergence({"case": cid, "script": [script], "driver": "pure", "implementation": got, "model": model.get(cid),
                                  "what": "implementation and model differ"})
    return False, len(cases), len(cases)


def grow_phase(rep, exe_impl, exe_model):
    """implementation only (the model has no concurrent writer): another process appends to the history file while its
    new slice is being copied, after the size was taken; whatever lands in the version, the position remembered
    afterwards is what was copied - the next slice starts exactly there"""
    rng = random.Random(rep.seed + 18)
    H = wc.WATCH + "/hist.log"
    cases = []
    sf = None
    for i in range(16 if rep.tier == "quick" else 200):
        s = wc.Script()
        wc.setup_world(s, wc.base_cfg(deb=0))
        first = "".join(rng.choice("ab\n") for _ in range(rng.choice([0, 6, 20])))
        s.put(H, first)
        s.start()
        if first:
            s.write(7, H)
            s.timeout()
        s.append(H, "b" * rng.choice([1, 10, 37]))
        s.tick(1)
        s.write(7, H)
        s.dump()
        if sf is None:
            steps, res = wk.count_calls(exe_impl, s.text().split("\n") + ["timeout"])
            names = res[-1][1] if res else []
            sf = [k for k, c in enumerate(names) if c.startswith("sendfile")]
            if not sf:
                return False, 0, 0
        s.oracle("grow", sf[0], rng.choice([1, 5, 64]))
        s.timeout()
        s.dump()
        s.append(H, "d" * rng.choice([0, 1, 8]))
        s.tick(1)
        s.write(7, H)
        s.timeout()
        s.dump()
        if rng.random() < 0.5:
            s.restart()
            s.append(H, "e" * 3)
            s.tick(1)
            s.write(7, H)
            s.timeout()
            s.dump()
        cases.append(("g%d" % i, s.text(), {}))
    f, v = wk.run_cases(rep, exe_impl, None, cases, ["history", "position_not_ahead", "fault_reported"], what="growing source")
    return f, v, len(cases)


def extra_phases(rep, exe_impl, exe_model):
    f1, v1, t1 = counter_phase(rep, exe_impl, exe_model)
    if f1:
        return f1, v1, t1
    f2, v2, t2 = grow_phase(rep, exe_impl, exe_model)
    return f2, v1 + v2, t1 + t2


def main(rep):
    rng = random.Random(rep.seed)
    n = 200 if rep.tier == "quick" else 4000
    cases = []
    for i in range(n):
        t, m = wc.gen_history_case(rng)
        cases.append(("h%d" % i, t, m))
    wk.standard_main(rep, cases=cases, monitors=MON, fault=True, only=HIST, known=known, extra=extra_phases,
                     fault_monitors=["history", "position_kept", "position_not_ahead", "store_immutable", "fault_reported", "no_error"],
                     rule=("the position file round-trips every value (boundaries of digit counts up to 2^64-1); append-only histories: appends of {0,1,10,60} bytes, passes, clock steps, restarts; after every pass the versions (ordered by "
                           "version and collision index) must concatenate to the file up to the remembered position; plus every single fault in the copy and "
                           "the position update of the two history scenarios, followed by restart and drain; plus, implementation only, a concurrent append to the history file while its slice is being copied (`oracle grow`)"))


def replay(rep, path):
    return wk.replay_world(rep, path, MON)
