"""C08 History paths store exactly the appended bytes."""
import random

import vlib
import world_check as wk
import world_common as wc

MON = ["history", "position_not_ahead", "store_immutable", "fault_reported", "no_error"]
HIST = ["drain_history_first", "drain_history_offset", "drain_history_19_25"]


def known(meta, msg):
    """K1: a failure inside the position update (after the version is complete) duplicates the slice"""
    if msg.startswith("history") and meta.get("phase") == "position":
        for k in vlib.known_findings().get("open", []):
            if k["property"] == "C08" and k.get("signature") == "fault-in-position-update":
                return k["id"]
    return None


def main(rep):
    rng = random.Random(rep.seed)
    n = 200 if rep.tier == "quick" else 4000
    cases = []
    for i in range(n):
        t, m = wc.gen_history_case(rng)
        cases.append(("h%d" % i, t, m))
    wk.standard_main(rep, cases=cases, monitors=MON, fault=True, only=HIST, known=known,
                     fault_monitors=["history", "position_kept", "position_not_ahead", "store_immutable", "fault_reported", "no_error"],
                     rule=("append-only histories: appends of {0,1,10,60} bytes, passes, clock steps, restarts; after every pass the versions (ordered by "
                           "version and collision index) must concatenate to the file up to the remembered position; plus every single fault in the copy and "
                           "the position update of the two history scenarios, followed by restart and drain"))


def replay(rep, path):
    return wk.replay_world(rep, path, MON)
