#!/bin/sh
# developer helper: run checks against /repo with one fix commit reverted
#   tools/with_revert.sh <commit> <check id>...
set -e
c=$1; shift
d=/tmp/kr_$c
git -C /repo worktree remove --force $d 2>/dev/null || true
git -C /repo worktree add -q --detach $d HEAD
git -C $d revert --no-commit $c >/dev/null
for id in "$@"; do
  echo "== $id with $c reverted"
  KLUNOK_REPO=$d /verif/check $id || true
done
git -C /repo worktree remove --force $d
