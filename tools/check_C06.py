"""C06 Selection policy: the most specific matching rule decides."""
import itertools
import json
import random

import vlib
import world_common as wc
from vlib import hexs, unhexs

KINDS = ["cluded", "included", "excluded", "history", "project_roots", "project_parents"]


# ---- the property in its own words (declarative), used as the monitor ----
def boundaries(path):
    return [k for k in range(1, len(path) + 1) if k == 1 or k == len(path) or path[k] == "/"]


def spec_end(path, off, rules):
    best = None
    for k in boundaries(path):
        if path[:k] in rules or (off < k and path[off:k] in rules):
            best = k
    return best


def spec_dot(path):
    best = None
    for j in range(1, len(path)):
        if path[j - 1] == "/" and path[j] == ".":
            best = j
    return best


def spec_pushed(path, off, sets, editor):
    """deepest of {hidden, cluded, included, excluded, history} decides; ties: that order"""
    cands = [(spec_dot(path), 0, False)]
    for i, (kind, outcome) in enumerate([("cluded", editor), ("included", True), ("excluded", False), ("history", True)]):
        cands.append((spec_end(path, off, sets.get(kind, [])), i + 1, outcome))
    present = [c for c in cands if c[0] is not None]
    if not present:
        return {editor}
    deepest = max(c[0] for c in present)
    # the property does not rank entries of equal depth: any of them may decide
    return {c[2] for c in present if c[0] == deepest}


def sv_line(path, off, sets):
    toks = []
    for k in KINDS:
        l = sets.get(k, [])
        toks.append(",".join(hexs(x) for x in l) if l else "-")
    return "sv %d %s %s" % (off, hexs(path), " ".join(toks))


CA, CB = "sqpqjslgoipqkm", "gjkjqgoskrkion"    # equal length, equal hash, different strings (checked in C15)


def rule_universe(path, off):
    u = set()
    for k in boundaries(path):
        u.add(path[:k])
        if off < k:
            u.add(path[off:k])
    # rules that end inside a component or extend one must never match
    u.add(path + "x")
    if len(path) > 2:
        u.add(path[:-1])
    u.add("/")
    # a rule that names another directory of the same length with the same 64-bit hash (the hash is a polynomial in
    # the bytes: a colliding pair stays one under a common prefix and suffix) must not match either
    for a, b in ((CA, CB), (CB, CA)):
        for r in list(u):
            if ("/" + a) in r or r.startswith(a):
                u.add(r.replace(a, b))
    return sorted(u)


def gen_sieve_cases(tier, seed):
    rng = random.Random(seed)
    comps = ["a", "b", ".c"]
    maxdepth = 3 if tier == "quick" else 4
    paths = []
    for d in range(1, maxdepth + 1):
        for cs in itertools.product(comps, repeat=d):
            paths.append("/" + "/".join(cs))
    cases = []
    n = 0
    for path in paths:
        for off in sorted(set([1, 3, 5, len(path) + 1])):
            U = rule_universe(path, off)
            # every single rule in every single set
            for k in KINDS:
                for r in U:
                    cases.append(("s%d" % n, path, off, {k: [r]}, "single"))
                    n += 1
            # pairs: two sets with one rule each
            pairs = [(k1, r1, k2, r2) for k1, k2 in itertools.combinations(KINDS[:4], 2) for r1 in U for r2 in U]
            if len(path) > 6 or tier == "quick":
                pairs = rng.sample(pairs, min(len(pairs), 60 if tier == "quick" else 400))
            for k1, r1, k2, r2 in pairs:
                cases.append(("s%d" % n, path, off, {k1: [r1], k2: [r2]}, "pair"))
                n += 1
    # random long paths and rule sets
    for i in range(1500 if tier == "quick" else 20000):
        depth = rng.randint(1, 8)
        path = "/" + "/".join(rng.choice(["a", "bb", ".c", "d.e", "..", "\xe9", CA]) for _ in range(depth))
        off = rng.choice([1, 2, 3, 4, 6, len(path), len(path) + 1])
        U = rule_universe(path, off)
        sets = {}
        for k in KINDS:
            sets[k] = [rng.choice(U) for _ in range(rng.choice([0, 0, 1, 2]))]
        cases.append(("s%d" % n, path, off, sets, "random"))
        n += 1
    return cases


def sieve_monitor(path, off, sets, out):
    exp = ["-" if spec_end(path, off, sets.get(k, [])) is None else str(spec_end(path, off, sets.get(k, []))) for k in KINDS]
    d = spec_dot(path)
    expl = "ends " + " ".join(exp) + " dot " + ("-" if d is None else str(d))
    if not out or out[0] != expl:
        return "sieve reported '%s', whole-component matching says '%s'" % (out[0] if out else None, expl)
    return None


# ---- decisions through the real handler ----
def gen_decision_cases(tier, seed):
    rng = random.Random(seed + 7)
    cases = []
    comps = ["a", "b", ".c"]
    n = 0
    for i in range(700 if tier == "quick" else 8000):
        depth = rng.randint(1, 3)
        rel = "/".join(rng.choice(comps + ([CA] if i % 5 == 0 else [])) for _ in range(depth))
        path = wc.WATCH + "/" + rel
        off = wc.CPL
        U = rule_universe(path, off)
        U = [u for u in U if u.startswith(wc.WATCH) or not u.startswith("/")] + [wc.WATCH, "/"]
        sets = {}
        for k in KINDS[:4]:
            sets[k] = sorted(set(rng.choice(U) for _ in range(rng.choice([0, 0, 1, 1, 2]))))
        if i % 6 == 0:
            # a rule set as administrators grow them: the rules that matter among many that do not (other directories)
            k = rng.choice(KINDS[:4])
            sets[k] = sorted(set(sets[k] + [wc.WATCH + "/other/%s%d" % (rng.choice("pqrs"), j) for j in range(rng.randint(4, 14))]))
        for k in KINDS[4:]:
            sets[k] = sorted(set(rng.choice(U) for _ in range(rng.choice([0, 0, 0, 1]))))
        editor = rng.random() < 0.5
        cfg = wc.Cfg(cluded=sets["cluded"], included=sets["included"], excluded=sets["excluded"], history=sets["history"],
                     project_roots=sets["project_roots"], project_parents=sets["project_parents"])
        s = wc.Script(log=False)
        reloaded = rng.random() < 0.3
        if reloaded:
            # the daemon starts with another policy (often with no rules at all) and is given the one under test by
            # rewriting its configuration file: the decision is that of the policy in force
            first = wc.Cfg(**{k: (sorted(set(rng.choice(U) for _ in range(rng.choice([0, 1])))) if rng.random() < 0.4 else [])
                              for k in ("cluded", "included", "excluded", "history", "project_roots", "project_parents")})
            s.config(first)
        else:
            s.config(cfg)
        s.put(wc.X + "/vim", "x")
        s.put(path, "data")
        s.start()
        if editor:
            s.exec(5, wc.X + "/vim")
        if reloaded:
            s.config(cfg)
            s.write(9, wc.CFG_PATH)
        # "depends only on its path, the configured path sets and whether the writer is an editor": in a third of the
        # cases a writer of the OTHER kind writes the same path just before - the decision has no memory
        if rng.random() < 0.33:
            if not editor:
                s.exec(6, wc.X + "/vim")
            s.write(6, path)
        s.dump()
        s.write(5, path)
        s.dump()
        cases.append(("d%d" % n, s.text(), path, off, sets, editor))
        n += 1
    return cases


def decision_monitor(path, off, sets, editor, out):
    """queued iff the policy says so, read from the journal label and the queue directory"""
    exp = spec_pushed(path, off, sets, editor)
    dumps = wc.parse_dump(out or [])
    if not dumps:
        return "no dump"
    d = dumps[-1]
    before = dumps[-2] if len(dumps) > 1 else {}
    queued = any(p.startswith("/k/var/queue/") and p not in before for p in d)
    if queued not in exp:
        return "write by %s to %s was %squeued, the policy says %s" % ("an editor" if editor else "a non-editor", path,
                                                                       "" if queued else "not ", "queued" if True in exp else "not queued")
    return None


def main(rep):
    exe_impl, exe_model = vlib.prepare(rep)
    found = False
    if exe_impl:
        sc = gen_sieve_cases(rep.tier, rep.seed)
        impl, model, problems = vlib.correspond(exe_impl, exe_model, "sieve", [(c, sv_line(p, o, s)) for c, p, o, s, _ in sc])
        dc = gen_decision_cases(rep.tier, rep.seed)
        impl2, model2, problems2 = vlib.correspond(exe_impl, exe_model, "world", [(c[0], c[1]) for c in dc], sandbox=True)
        problems += problems2
        # "relative to the common watch parent": the offset at which relative rules are looked up is the length of the
        # deepest directory containing both roots - also when one root's name continues a component of the other
        # (/W/nazar/src beside /W/nazar2), in both orders
        from check_C18 import deepest_common
        cp_paths = ["/W/nazar/src", "/W/nazar2", "/W/nazar", "/W/naz", "/W/nazar/srcs", "/W", "/", "/Wx/nazar", "/W/nazar2/src", "/a/b/c", "/a/b2", "/a/bc/d"]
        cpc = [("cp%d" % i, "cpp %s %s" % (vlib.hexs(a), vlib.hexs(b)), (a, b)) for i, (a, b) in enumerate((a, b) for a in cp_paths for b in cp_paths)]
        cimpl, cmodel, cproblems = vlib.correspond(exe_impl, exe_model, "pure", [(c, t) for c, t, _ in cpc])
        problems += cproblems
        for cid, script, (a, b) in cpc:
            got = (cimpl.get(cid) or [""])[0]
            want = "cpp %d" % deepest_common(a, b)
            if got != want and not found:
                rep.violation("common-parent", {"case": cid, "script": [script], "driver": "pure", "implementation": cimpl.get(cid),
                                                "what": "watch roots %s and %s: relative rules are looked up at offset %s, the deepest directory containing both gives %s" % (a, b, got[4:], want[4:])})
                found = True
            elif exe_model and cimpl.get(cid) != cmodel.get(cid):
                rep.defer_divergence({"case": cid, "script": [script], "driver": "pure", "implementation": cimpl.get(cid), "model": cmodel.get(cid), "what": "implementation and model differ on the common parent"})
        kinds = {}
        for c in sc:
            kinds[c[4]] = kinds.get(c[4], 0) + 1
        kinds["decision"] = len(dc)
        kinds["common_parent_pairs"] = len(cpc)
        rep.cov["evaluations"] = len(sc) + len(dc) + len(cpc)
        rep.cov["input_distribution"] = kinds
        rep.cov["rule"] = ("sieve(): paths of depth <= %d over components {a, b, .c}, common-parent offsets {1,3,5,len+1}, every single rule "
                           "(absolute/relative prefixes, '/', rules ending inside or beyond a component, rules naming a different directory of equal length and equal 64-bit hash) in every set, sampled pairs, random long paths; "
                           "decisions: random rule assignments to the four path sets, editor and non-editor writers, through the real handle_close_write "
                           "with a Lua configuration, in 3 of 10 cases put in force by rewriting the configuration file of a daemon started with another policy, in a third of the cases preceded by a write of the same path by a writer of the other kind; non-trivial = at least one rule matches; distinct by (path, offset, sets)" % (3 if rep.tier == "quick" else 4))
        nontrivial = set()
        validated = 0
        diverged = []
        for cid, path, off, sets, kind in sc:
            il = impl.get(cid)
            bad = sieve_monitor(path, off, sets, il)
            if bad:
                rep.violation("sieve", {"case": cid, "path": path, "offset": off, "sets": sets, "implementation": il, "model": model.get(cid),
                                        "script": [sv_line(path, off, sets)], "driver": "sieve", "what": bad})
                found = True
                break
            if exe_model and model.get(cid) != il:
                diverged.append((cid, sv_line(path, off, sets), il, model.get(cid)))
            else:
                validated += 1
            if any(spec_end(path, off, sets.get(k, [])) is not None for k in KINDS):
                nontrivial.add((path, off, json.dumps(sets, sort_keys=True)))
        if not found:
            for cid, script, path, off, sets, editor in dc:
                il = impl2.get(cid)
                bad = decision_monitor(path, off, sets, editor, il)
                if bad:
                    rep.violation("policy", {"case": cid, "path": path, "sets": sets, "editor": editor, "script": script.split("\n"),
                                             "driver": "world", "implementation": wc.comparable(il), "what": bad})
                    found = True
                    break
                a, b = wc.comparable(il), wc.comparable(model2.get(cid))
                if exe_model and a != b:
                    diverged.append((cid, script, a, b))
                else:
                    validated += 1
                nontrivial.add((path, off, json.dumps(sets, sort_keys=True), editor))
        rep.cov["distinct_nontrivial"] = len(nontrivial)
        rep.cov["traces_validated_against_impl"] = validated
        rep.cov["samples"] = [sv_line(*sc[5][1:4]), {"path": dc[0][2], "sets": dc[0][4], "editor": dc[0][5]}]
        if diverged and not found:
            cid, script, il, ml = diverged[0]
            rep.violation("correspondence", {"case": cid, "script": script.split("\n") if isinstance(script, str) else script,
                                             "implementation": il, "model": ml,
                                             "what": "implementation and model differ on %d case(s); the policy monitor found no failing input" % len(diverged),
                                             "broken": "correspondence (sieve / world driver)"}, found_input=False)
            found = True
        for p in problems:
            rep.notes.append(p)
            if not found:
                rep.violation("driver", {"what": p}, found_input=False)
                found = True
    vlib.conclude_proofs(rep, found)


def replay(rep, path):
    d = json.load(open(path))
    exe_impl, exe_model = vlib.prepare(rep)
    script = "\n".join(d["script"])
    drv = d.get("driver", "sieve")
    impl, model, _ = vlib.correspond(exe_impl, exe_model, drv, [("replay", script)], sandbox=(drv == "world"))
    print("implementation:", wc.comparable(impl.get("replay")))
    print("model:         ", wc.comparable(model.get("replay")))
    return 1 if wc.comparable(impl.get("replay")) != wc.comparable(model.get("replay")) else 0
