"""Scripts for the main driver (C12, C17, C18)."""
from vlib import hexs, unhexs

SELF = 4242


def main_case(args=(), real=None, mounted=("/",), fan=1, minfo=1, mount_ok=1, markfail=-1, load=1,
              stat=("ok", 1000, 100), cred=(0, 0, 3, "ok", "ok", "ok"), slots=(), mounts_raw=None):
    real = real if real is not None else {".": "/cwd", "/": "/"}
    lines = []
    lines.append("m_args " + " ".join(hexs(a) for a in args))
    lines.append("m_real " + " ".join("%s=%s" % (hexs(a), hexs(b)) for a, b in real.items()))
    lines.append("m_mounted " + " ".join(hexs(m) for m in mounted))
    if mounts_raw is not None:
        # the text of /proc/self/mounts verbatim (instead of the table rendered from `mounted` the kernel's way)
        lines.append(("m_mounts_raw " + hexs(mounts_raw)).rstrip())
    lines.append("m_flags %d %d %d %d %d" % (fan, minfo, mount_ok, markfail, load))
    lines.append("m_stat %s %d %d" % stat)
    lines.append("m_cred %d %d %d %s %s %s" % cred)
    lines.append("m_self %d" % SELF)
    for s in slots:
        lines.append("m_slot " + " ".join(str(x) for x in s))
    lines.append("m_run")
    return "\n".join(lines)


def slot(poll=0, read=0, vers=1, exe=0, wr=0, ovf=0, pid=77, fd=1005, execok=1, writeok=1, timeout=-1):
    return (poll, read, vers, exe, wr, ovf, pid, fd, execok, writeok, timeout)
