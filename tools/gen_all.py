#!/usr/bin/env python3
"""Run the translators: /repo source -> coq/generated/*.v (regenerated on every check)."""
import os
import sys

sys.path.insert(0, os.path.dirname(os.path.abspath(__file__)))

def main():
    ok = True
    for mod in ("gen_consts", "gen_config", "gen_config_static"):
        try:
            m = __import__(mod)
        except ImportError:
            continue
        ok = m.main() and ok
    return 0 if ok else 1

if __name__ == "__main__":
    sys.exit(main())
