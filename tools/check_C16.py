"""C16 Configuration: documented defaults, strict types, all-or-nothing hot reload."""
import copy
import itertools
import json
import random

import vlib
import world_check as wk
import world_common as wc
from vlib import hexs, unhexs

STR_SETTINGS = ["prefix", "prefix_var", "store_root", "queue_path", "journal_path", "offset_store_root", "journal_timestamp_pattern",
                "version_pattern", "project_store_root", "unstable_project_store_root"]
NUM_SETTINGS = ["debounce_seconds", "queue_size_guess", "path_length_guess", "max_pid_guess", "elf_interpreter_count_guess"]
SET_SETTINGS = ["editors", "history_paths", "excluded_paths", "included_paths", "cluded_paths", "project_roots", "project_parents"]
EV_SETTINGS = ["event_open_exec_not_editor", "event_open_exec_editor", "event_close_write_not_by_editor", "event_close_write_by_editor",
               "event_queue_head_deleted", "event_queue_head_forbidden", "event_queue_head_stored"]
EDITORS = ["atom", "code", "codium", "gedit", "howl", "hx", "inkscape", "kak", "kate", "kwrite", "micro", "nano", "nvim", "pluma", "rsession",
           "sublime_text", "vi", "vim", "xed", "gnome-text-editor", "notepadqq-bin", "soffice.bin", "vim.basic", "vim.tiny", ".gedit-wrapped",
           ".gnome-text-editor-wrapped", ".howl-wrapped", ".hx-wrapped", ".inkscape-wrapped", ".kate-wrapped", ".kwrite-wrapped", ".pluma-wrapped",
           ".xed-wrapped"]


# values: ("n",) nil | ("s", str) | ("i", int) | ("f",) | ("b", bool) | ("t", [(key or None, value)])
def lua_lit(v):
    k = v[0]
    if k == "n":
        return "nil"
    if k == "s":
        return "[==[" + v[1] + "]==]"
    if k == "i":
        return str(v[1])
    if k == "f":
        return "1.5"
    if k == "b":
        return "true" if v[1] else "false"
    ents = []
    for key, val in v[1]:
        ents.append("[%s]=%s" % ("1" if key is None else " [==[" + key + "]==] ", lua_lit(val)))
    return "{" + ",".join(ents) + "}"


def tok(v):
    k = v[0]
    if k == "n":
        return "n"
    if k == "s":
        return "s" + hexs(v[1])
    if k == "i":
        return "i%d" % v[1]
    if k == "f":
        return "f"
    if k == "b":
        return "b1" if v[1] else "b0"
    return "t[" + ";".join(("o" if key is None else "k" + hexs(key)) + "=" + tok(val) for key, val in v[1]) + "]"


def render(stmts):
    lua, toks = [], []
    for st in stmts:
        if st[0] == "g":
            lua.append("%s = %s" % (st[1], lua_lit(st[2])))
            toks.append("g:%s:%s" % (hexs(st[1]), tok(st[2])))
        else:
            lua.append("%s[%s] = %s" % (st[1], "1" if st[2] is None else " [==[" + st[2] + "]==] ", lua_lit(st[3])))
            toks.append("k:%s:%s:%s" % (hexs(st[1]), "o" if st[2] is None else hexs(st[2]), tok(st[3])))
    return "\n".join(lua) + "\n", toks


# ---- the documentation, restated (the monitor) ----
def doc_load(stmts):
    g = {"prefix": ("s", "klunok"), "debounce_seconds": ("i", 60), "journal_timestamp_pattern": ("s", "%Y-%m-%d-%H-%M"),
         "editors": ("t", [(e, ("b", True)) for e in EDITORS]), "path_length_guess": ("i", 1024), "max_pid_guess": ("i", 32768),
         "elf_interpreter_count_guess": ("i", 1), "event_queue_head_stored": ("s", "")}
    for n in SET_SETTINGS[1:]:
        g[n] = ("t", [])
    for st in stmts:
        if st[0] == "g":
            if st[2][0] == "n":
                g.pop(st[1], None)
            else:
                g[st[1]] = copy.deepcopy(st[2])
        else:
            t = g.get(st[1])
            if not t or t[0] != "t":
                return None  # indexing a non-table: Lua error
            ents = [(k, v) for k, v in t[1] if k != st[2]]
            if st[3][0] != "n":
                ents.append((st[2], st[3]))
            g[st[1]] = ("t", ents)

    def is_str(n):
        return n in g and g[n][0] == "s"

    def need_str(n, default):
        if n not in g:
            if default is None:
                return False
            g[n] = ("s", default)
            return True
        return is_str(n)

    if not need_str("prefix", None):
        return None
    if not need_str("prefix_var", g["prefix"][1] + "/var"):
        return None
    for n, d in (("store_root", g["prefix"][1] + "/store"), ("queue_path", g["prefix_var"][1] + "/queue"),
                 ("journal_path", g["prefix_var"][1] + "/journal"), ("offset_store_root", g["prefix_var"][1] + "/offsets")):
        if not need_str(n, d):
            return None

    def need_pos(n, default):
        if n not in g:
            if default is None:
                return False
            g[n] = ("i", default)
            return True
        return g[n][0] == "i" and g[n][1] >= 0

    if not need_pos("debounce_seconds", None):
        return None
    if not need_str("journal_timestamp_pattern", None):
        return None
    if not need_str("version_pattern", "v" + g["journal_timestamp_pattern"][1]):
        return None
    for n in SET_SETTINGS:
        if n not in g or g[n][0] != "t" or any(k is None for k, _ in g[n][1]):
            return None
    if not need_str("project_store_root", g["prefix"][1] + "/projects"):
        return None
    if not need_str("unstable_project_store_root", g["prefix_var"][1] + "/projects"):
        return None
    if not need_pos("queue_size_guess", g["debounce_seconds"][1] * 2):
        return None
    for n in NUM_SETTINGS[2:]:
        if not need_pos(n, None):
            return None
    for n in EV_SETTINGS:
        if n in g and g[n][0] != "s":
            return None
    return g


def doc_line(g, universe):
    if g is None:
        return "cfg error"

    def sset(n):
        keys = {k for k, _ in g[n][1]}
        return "".join("1" if u in keys else "0" for u in universe)

    def opt(n):
        return hexs(g[n][1]) if n in g else "-"
    out = "cfg editors=%s project_roots=%s project_parents=%s history=%s excluded=%s included=%s cluded=%s" % (
        sset("editors"), sset("project_roots"), sset("project_parents"), sset("history_paths"), sset("excluded_paths"),
        sset("included_paths"), sset("cluded_paths"))
    out += " store=%s pstore=%s unstable=%s queue=%s journal=%s jpat=%s vpat=%s offsets=%s" % (
        opt("store_root"), opt("project_store_root"), opt("unstable_project_store_root"), opt("queue_path"), opt("journal_path"),
        opt("journal_timestamp_pattern"), opt("version_pattern"), opt("offset_store_root"))
    out += " deb=%d plen=%d maxpid=%d elf=%d qguess=%d" % (g["debounce_seconds"][1], g["path_length_guess"][1], g["max_pid_guess"][1],
                                                           g["elf_interpreter_count_guess"][1], g["queue_size_guess"][1])
    for i, n in enumerate(EV_SETTINGS):
        out += " ev%d=%s" % (i, opt(n))
    return out


def value_choices(name, rng):
    good_s = [("s", "x"), ("s", ""), ("s", "/abs/p\xe9th with space")]
    bad = [("i", 5), ("b", True), ("b", False), ("t", []), ("f",)]      # both booleans: `false` is falsy in Lua
    if name in STR_SETTINGS:
        return good_s + bad + ([("n",)] if name != "prefix" else [("n",)])
    if name in NUM_SETTINGS:
        return [("i", 0), ("i", 7), ("i", 100000), ("i", -1), ("f",), ("s", "7"), ("s", "0x10"), ("b", False), ("b", True), ("t", []), ("n",)]
    if name in EV_SETTINGS:
        return [("s", "lab"), ("s", ""), ("n",), ("i", 3), ("b", True), ("b", False), ("t", [])]
    return [("t", []), ("t", [("a", ("b", True))]), ("t", [("a", ("b", False)), ("/w/x", ("i", 1))]), ("t", [(None, ("b", True))]),
            ("s", "x"), ("i", 1), ("b", False), ("b", True), ("n",)]


def gen_cases(tier, seed):
    rng = random.Random(seed)
    allnames = STR_SETTINGS + NUM_SETTINGS + SET_SETTINGS + EV_SETTINGS
    cases = [("c0", [], "defaults")]
    n = 1
    # every single setting x every value class
    for name in allnames:
        for v in value_choices(name, rng):
            cases.append(("c%d" % n, [("g", name, v)], "single"))
            n += 1
    # key operations on the table-valued settings
    for name in SET_SETTINGS:
        for key, v in (("ed", ("b", True)), ("vim", ("n",)), ("vim", ("b", False)), (None, ("b", True)), ("new key", ("s", "x"))):
            cases.append(("c%d" % n, [("k", name, key, v)], "key"))
            n += 1
    cases.append(("c%d" % n, [("k", "prefix", "a", ("b", True))], "key"))
    n += 1
    # random subsets of 2-3 settings
    for _ in range(600 if tier == "quick" else 8000):
        k = rng.choice([2, 2, 3])
        stmts = []
        for name in rng.sample(allnames, k):
            if name in SET_SETTINGS and rng.random() < 0.5:
                stmts.append(("k", name, rng.choice(["ed", "vim", "zz", None]), rng.choice([("b", True), ("n",), ("b", False)])))
            else:
                stmts.append(("g", name, rng.choice(value_choices(name, rng))))
        cases.append(("c%d" % n, stmts, "subset"))
        n += 1
    return cases


def reload_cases(tier, seed):
    """the configuration file is rewritten at every position of short histories"""
    rng = random.Random(seed + 3)
    cases = []
    for i in range(90 if tier == "quick" else 1500):
        s = wc.Script()
        deb0 = rng.choice([1, 2])
        cfg = wc.setup_world(s, wc.base_cfg(deb=deb0))
        if rng.random() < 0.3:
            # -c given in a spelling that is not canonical: it is the same file, and rewriting it is a reload
            s.cfg_spelling = rng.choice([wc.R + "/w//cfg/klunok.lua", wc.R + "/w/./cfg/klunok.lua", wc.R + "/w/cfg/../cfg/klunok.lua", "/" + wc.CFG_PATH])
        s.start()
        # the editor is a script, or a dynamically linked binary whose loader the daemon learns from the image; in the
        # second case the process executes that loader at some later point (as the kernel reports it), possibly after
        # the configuration was rewritten: it is still an editor, under the old and under the new configuration
        elf_editor = rng.random() < 0.5
        s.exec(3, wc.X + ("/elf/vim" if elf_editor else "/vim"))
        loader_pending = elf_editor
        files = [wc.WATCH + "/inc/a.txt", wc.WATCH + "/n"]
        steps = rng.randint(2, 7)
        at = rng.randint(0, steps)
        s.dump()
        directed = rng.random() < 0.25
        if directed:
            # something is pending and the pass has already looked at it (it is not due yet) when the configuration is
            # rewritten: whatever the pass remembered about the old interval must not outlive it
            f = rng.choice(files)
            s.put(f, "early")
            s.write(3, f)
            s.dump()
            s.timeout()
            s.dump()
            at = 0
        for j in range(steps + 1):
            if j == at:
                new = copy.deepcopy(cfg)
                kind = "deb" if directed else rng.choice(["deb", "queue", "journal", "rules", "invalid", "illtyped", "badjournal", "badjournal", "stamp", "stamp"])
                if directed:
                    new.deb = 0
                elif kind == "stamp":
                    # the journal stays where it is; only the way its lines are stamped changes (alone, or together
                    # with the way versions are named): every later line must carry the new stamp
                    new.jpat = rng.choice([p_ for p_ in ["", "x", "t%s-", "%s"] if p_ != new.jpat])
                    if rng.random() < 0.5:
                        new.vpat = "w%s"
                elif kind == "deb" and not directed:
                    new.deb = rng.choice([0, 5])
                elif kind == "queue":
                    new.queue = wc.R + "/k/var/queue2"
                elif kind == "journal":
                    new.journal = wc.R + "/k/var/journal2"
                elif kind == "rules":
                    new.excluded = new.excluded + [wc.WATCH + "/n"]
                elif kind == "badjournal":
                    # well-typed, but the new journal cannot be opened (its parent is a regular file); the other
                    # settings change too, so that a partly applied configuration shows
                    new.journal = wc.CFG_PATH + "/journal"
                    if rng.random() < 0.7:
                        new.queue = wc.R + "/k/var/queue2"
                    new.deb = rng.choice([0, 5])
                    if rng.random() < 0.5:
                        new.excluded = new.excluded + [wc.WATCH + "/n"]
                failing = kind in ("invalid", "illtyped", "badjournal")
                if kind in ("invalid", "illtyped"):
                    s.config(new, valid=False)
                else:
                    s.config(new, valid=True)
                    if not failing:
                        cfg = new
                # (rewritten by the editor - then the configuration file itself is queued - or by another program)
                s.write(rng.choice([3, 9]), wc.CFG_PATH)
                s.dump()
                if loader_pending and rng.random() < 0.7:
                    s.exec(3, wc.X + "/ld.so")
                    loader_pending = False
                    s.put(wc.WATCH + "/n", "after the loader")
                    s.write(3, wc.WATCH + "/n")
                    s.dump()
                if directed:
                    s.timeout()
                    s.dump()
                if failing and rng.random() < 0.4:
                    # what main() does: the daemon stops; the administrator repairs the file and restarts
                    s.config(cfg, valid=True)
                    s.restart()
                    s.dump()
                # otherwise the same handler goes on being used: nothing of the rejected configuration may show
            else:
                r = rng.random()
                if r < 0.5:
                    f = rng.choice(files)
                    s.put(f, "v%d" % j)
                    s.write(3, f)
                elif r < 0.7:
                    s.tick(1)
                else:
                    s.timeout()
                s.dump()
        s.tick(6)
        s.timeout()
        s.dump()
        meta = {"stamps": True}
        if kind not in ("queue", "badjournal"):
            # the interval in force decides what a pass stores and which wait it asks for (the burst monitor follows
            # accepted rewrites); not judged when the queue itself moves (open finding K3)
            meta["deb"] = deb0
        cases.append(("r%d" % i, s.text(), meta))
    return cases


def _cfg_fields(line):
    d = {}
    for t in line.split()[2:]:
        k, _, v = t.partition("=")
        d[k] = v
    rel = lambda h: vlib.unhexs(h)[len(wc.R):]
    return {"queue": rel(d["queue"]), "journal": rel(d["journal"]), "deb": int(d["deb"])}


def mon_editor_kept(steps, meta):
    """process 3 executed an editor at the start; executing the loader learnt from that editor does not end that; so
    every later write of the plain file /w/n by process 3 that is handled without an error is queued - unless the
    configuration in force excludes /w/n - however often the configuration was rewritten in between"""
    excl = {}
    bound = None
    inforce = None
    editor3 = False
    for st in steps:
        if st.op == "start":
            editor3 = False          # a new process knows no editors yet
        if st.op == "exec" and st.result == "ok" and st.tok[1] == "3" and vlib.unhexs(st.tok[2]).endswith("/vim"):
            editor3 = True
        if st.op == "cfg":
            for t in st.tok[2:]:
                if t.startswith("excluded="):
                    excl[st.tok[1]] = [vlib.unhexs(x) for x in t[9:].split(",") if x.startswith("h")]
        elif st.op == "cfgbind":
            bound = st.tok[1]
        elif st.op == "start" and st.result == "ok":
            inforce = st.tok[1]
        elif st.op == "write" and st.result == "ok" and len(st.tok) > 2:
            p = vlib.unhexs(st.tok[2])
            if p == wc.CFG_PATH:
                if bound in excl:
                    inforce = bound
            elif p == wc.WATCH + "/n" and st.tok[1] == "3" and editor3 and inforce in excl and not any(p == e or p.startswith(e + "/") for e in excl[inforce]):
                if not any(l.split(" ")[1:2] == ["symlinkat"] for l in st.log):
                    return "the write '%s' by the editor process 3 was not queued (the plain file is not excluded by the configuration in force)" % st.line
    return None


wk.MONITORS["editor_kept"] = mon_editor_kept


def mon_reload(steps, meta):
    """all or nothing: a rewritten configuration that cannot be put in force (not Lua, ill-typed, journal cannot be
    opened) is reported as an error and nothing of it is applied - later accepted writes are still linked in the old
    queue directory and journalled in the old journal, whether or not the daemon is restarted; a valid one is
    accepted and the next entries go to the new queue and the new journal"""
    cfgs = {}
    bound = None
    inforce = None
    prev_dump = None
    pending = None      # (step, expected cfg) of a write whose effect the next dump must show
    for i, st in enumerate(steps):
        if st.op == "cfg":
            cfgs[st.tok[1]] = _cfg_fields(st.line)
        elif st.op == "cfgbind":
            bound = st.tok[1]
        elif st.op == "start" and st.result == "ok":
            inforce = cfgs.get(st.tok[1])
        elif st.op == "write" and vlib.unhexs(st.tok[2]) == wc.CFG_PATH:
            bad = bound == "invalid" or (bound in cfgs and cfgs[bound]["journal"].startswith(wc.CFG_PATH[len(wc.R):] + "/"))
            if bad and st.result != "error":
                return "a configuration that cannot be put in force was accepted"
            if not bad and st.result != "ok":
                return "a valid configuration was rejected: %s" % st.trace
            if st.result == "ok":
                inforce = cfgs[bound]
        elif st.op == "write" and st.result == "ok" and inforce is not None:
            if any(l.split(" ")[1] == "symlinkat" for l in st.log):
                pending = (st, inforce)
        elif st.op == "dump" and st.dump is not None:
            if pending and prev_dump is not None:
                wst, c = pending
                newlinks = [p for p, e in st.dump.items() if e[0] == "link" and p not in prev_dump and p.startswith("/k/var/queue")]
                wrong = [p for p in newlinks if not p.startswith(c["queue"] + "/")]
                if wrong or not newlinks:
                    return ("the write '%s' was accepted while queue %s / journal %s are in force, but its entry appeared as %s"
                            % (wst.line, c["queue"], c["journal"], wrong or "nothing"))
                for jp in wk.JOURNALS:
                    a, b = prev_dump.get(jp), st.dump.get(jp)
                    if b is not None and (a is None or a[2] != b[2]) and jp != c["journal"]:
                        return "the write '%s' was journalled in %s while journal %s is in force" % (wst.line, jp, c["journal"])
            pending = None
            prev_dump = st.dump
    return None


wk.MONITORS["reload"] = mon_reload


def main(rep):
    exe_impl, exe_model = vlib.prepare(rep)
    found = False
    cases = gen_cases(rep.tier, rep.seed)
    validated = 0
    universe = EDITORS[:4] + ["ed", "zz", "a", "/w/x", "new key"]
    scripts = []
    for cid, stmts, kind in cases:
        lua, toks = render(stmts)
        scripts.append((cid, "cfguniverse %s\ncfgstmts %s\ncfglua %s" % (" ".join(hexs(u) for u in universe), " ".join(toks), hexs(lua))))
    scripts.append(("cnone", "cfguniverse %s\ncfgstmts\ncfgnone" % " ".join(hexs(u) for u in universe)))
    if exe_impl:
        impl, model, problems = vlib.correspond(exe_impl, exe_model, "cfg", scripts, sandbox=True)
        for (cid, stmts, kind), (_, script) in zip(cases, scripts):
            il = impl.get(cid)
            exp = doc_line(doc_load(stmts), universe)
            if not il or il[0] != exp:
                lua, _ = render(stmts)
                rep.violation("config", {"case": cid, "lua": lua.split("\n"), "script": script.split("\n"), "driver": "cfg", "implementation": il,
                                         "documented": exp, "what": "loading this file gave '%s...', the documentation says '%s...'" % ((il[0] if il else "None")[:60], exp[:60])})
                found = True
                break
            if exe_model and il != model.get(cid):
                # a divergence is reported only if no monitor fires on any case (a concrete failing input wins)
                rep.defer_divergence({"case": cid, "script": script.split("\n"), "driver": "cfg", "implementation": il, "model": model.get(cid),
                                                 "what": "implementation and model differ"})
                continue
            validated += 1
        if not found and impl.get("cnone") != [doc_line(doc_load([]), universe)]:
            rep.violation("config", {"case": "cnone", "script": scripts[-1][1].split("\n"), "driver": "cfg", "implementation": impl.get("cnone"),
                                     "what": "defaults without a configuration file differ from the documentation"})
            found = True
        # the build WITHOUT Lua (src/config-static.c, the project's default build): klunok compiled with that back end
        # answers every getter; it must be (i) what the translated table generated/ConfigStatic.v says - the tie of the
        # second translator - and (ii) what the Lua build answers without a configuration file: the documented defaults
        nstatic = 0
        if not found:
            exe_static, serr = vlib.build_harness("C16static", static_config=True)
            suni = sorted(set(EDITORS + ["ed", "zz", "emacs", "a", "/w/x", "proj", "klunok"]))
            sline = "cfguniverse %s\ncfgstmts\n" % " ".join(hexs(u) for u in suni)
            if not exe_static:
                rep.defer_divergence({"what": "klunok does not build with config-static.c: %s" % serr[-600:], "driver": "cfg"})
            else:
                simpl, smodel, sproblems = vlib.correspond(exe_static, exe_model, "cfg", [("static", sline + "cfgstatic")], sandbox=True)
                limpl, lmodel, lproblems = vlib.correspond(exe_impl, exe_model, "cfg", [("none", sline + "cfgnone")], sandbox=True)
                problems += sproblems + lproblems
                st, lu = simpl.get("static"), limpl.get("none")
                nstatic = 2
                if st != lu or not st:
                    def fields(l):
                        return dict(x.split("=", 1) for x in (l[0].split()[1:] if l else []) if "=" in x)
                    a, b = fields(st), fields(lu)
                    diff = sorted(k for k in set(a) | set(b) if a.get(k) != b.get(k))
                    rep.violation("static-defaults", {"case": "static", "script": (sline + "cfgstatic").split("\n"), "driver": "cfg", "implementation": st, "lua_build_without_file": lu,
                                                      "what": "the build without Lua (config-static.c) does not have the documented defaults: it differs from the Lua build started without a configuration file in %s (editor universe: %s)" % (diff, suni)})
                    found = True
                elif exe_model and (st != smodel.get("static") or lu != lmodel.get("none")):
                    rep.defer_divergence({"case": "static", "script": (sline + "cfgstatic").split("\n"), "driver": "cfg", "implementation": st, "model": smodel.get("static"),
                                          "what": "the table translated from src/config-static.c is not what the compiled getters answer"})
                else:
                    validated += 2
        # "new queue location": after an accepted rewrite with another queue_path the entry of the next accepted write
        # appears beneath THAT directory (monitor queue_in_force, shared with C09)
        qcases = []
        if not found:
            import copy
            import random
            import check_C09          # registers the monitor
            import world_common as wc
            rngq = random.Random(rep.seed + 16)
            for i in range(6 if rep.tier == "quick" else 40):
                s = wc.Script()
                cfg = wc.setup_world(s, wc.base_cfg(deb=rngq.choice([0, 2])))
                s.start()
                s.exec(3, wc.X + "/vim")
                if rngq.random() < 0.5:
                    # something is already pending in the old queue when it is moved
                    s.put(wc.WATCH + "/inc/old.txt", "pending")
                    s.write(3, wc.WATCH + "/inc/old.txt")
                c2 = copy.deepcopy(cfg)
                c2.queue = wc.R + "/k/var/queue%d" % rngq.choice([2, 3])
                s.config(c2)
                s.write(rngq.choice([3, 9]), wc.CFG_PATH)
                s.dump()
                f_ = rngq.choice([wc.WATCH + "/inc/a.txt", wc.WATCH + "/n"])
                s.put(f_, "after the move %d" % i)
                s.dump()
                s.write(3, f_)
                s.dump()
                qcases.append(("qm%d" % i, s.text(), {"queue_after": c2.queue[len(wc.R):]}))
            # "if it is invalid, an error is reported and NONE of it is applied": a rewrite that parses, keeps the queue,
            # shortens the debounce - and whose journal cannot be opened (its path names a directory): rejected; what is
            # pending keeps waiting by the OLD debounce
            rjcases = []
            for i in range(6 if rep.tier == "quick" else 40):
                s = wc.Script()
                old_deb = rngq.choice([3600, 60, 7])
                cfg = wc.setup_world(s, wc.base_cfg(deb=old_deb))
                s.start()
                s.exec(3, wc.X + "/vim")
                f_ = rngq.choice([wc.WATCH + "/inc/a.txt", wc.WATCH + "/n"])
                s.put(f_, "pending %d" % i)
                s.write(3, f_)
                s.tick(1)
                c2 = copy.deepcopy(cfg)
                c2.deb = 0
                c2.journal = wc.R + "/k/var"          # a directory
                s.config(c2)
                s.write(rngq.choice([3, 9]), wc.CFG_PATH)
                s.tick(1)
                s.dump()
                s.timeout()
                s.dump()
                rjcases.append(("rj%d" % i, s.text(), {"deb": old_deb}))
            fr, vr = wk.run_cases(rep, exe_impl, exe_model, rjcases, ["bursts", "fault_reported"], what="rejected reload")
            found = found or fr
            validated += vr
            qcases = qcases + rjcases
            fq, vq = (False, 0) if found else wk.run_cases(rep, exe_impl, exe_model, qcases[:len(qcases) - len(rjcases)], ["queue_in_force", "fault_reported"], what="queue")
            found = found or fq
            validated += vq
        rc = reload_cases(rep.tier, rep.seed)
        if not found:
            f, v = wk.run_cases(rep, exe_impl, exe_model, rc, ["reload", "editor_kept", "journal", "bursts", "queue_form", "fault_reported"])
            found = found or f
            validated += v
        for p in problems:
            rep.notes.append(p)
            if not found:
                rep.violation("driver", {"what": p}, found_input=False)
                found = True
        total = len(scripts) + len(rc) + nstatic + len(qcases)
    else:
        total = len(scripts)
    kinds = {}
    for c in cases:
        kinds[c[2]] = kinds.get(c[2], 0) + 1
    rep.cov["evaluations"] = total
    rep.cov["distinct_nontrivial"] = total - 1
    rep.cov["traces_validated_against_impl"] = validated
    rep.cov["input_distribution"] = kinds
    rep.cov["rule"] = ("configuration files as finite lists of assignments of literals to settings and to keys of table-valued settings: every single setting x every value "
                       "class (well-typed strings incl. empty / non-ASCII, numbers incl. 0, negative, non-integral, booleans, tables incl. non-string keys, nil), key operations, "
                       "random subsets of 2-3 settings; loaded by the real load_config with liblua 5.3 and judged against a restatement of the documentation; the build without Lua (config-static.c linked instead of config-lua.c): every getter against the table translated from that file and against the Lua build started without a configuration file; plus handler "
                       "histories in which the watched configuration file is rewritten (new debounce / queue / journal / journal stamp pattern / rules / invalid / ill-typed / journal that cannot be opened) at every position; every journal line must carry the stamp pattern of the configuration in force, every pass must store and wait according to the debounce in force")
    rep.cov["samples"] = [render(cases[40][1])[0].split("\n"), render(cases[-1][1])[0].split("\n")]
    vlib.conclude_proofs(rep, found)


def replay(rep, path):
    d = json.load(open(path))
    if d.get("driver") == "cfg":
        exe_impl, exe_model = vlib.prepare(rep)
        impl, model, _ = vlib.correspond(exe_impl, exe_model, "cfg", [("replay", "\n".join(d["script"]))], sandbox=True)
        print("implementation:", impl.get("replay"))
        print("model:         ", model.get("replay"))
        return 1 if impl.get("replay") != model.get("replay") else 0
    return wk.replay_world(rep, path, ["reload"])
