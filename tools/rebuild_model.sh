#!/bin/sh
# developer helper: rebuild Coq + extraction + OCaml driver
set -e
cd "$(dirname "$0")/../coq"
coq_makefile -f _CoqProject -o Makefile >/dev/null
timeout 1500 make -j16 2>&1 | grep -v "^Closed under\|^COQ" || true
cd ../extract
coqc -Q ../coq K Extract.v
ocamlfind ocamlopt -package zarith -linkpkg -w -a model.mli model.ml common.ml drivers.ml world.ml main.ml -o ../build/modeldrv
