#!/bin/sh
# developer helper: confirm a seeded change independently of its author:
#   the demonstration holds on the unchanged tree, the patch applies, the tree builds,
#   the unedited suite passes, the demonstration fails with the change.
name=$1
dir=/verif/seeded/$name
wt=/tmp/conf_$name
git -C /repo worktree remove --force $wt 2>/dev/null
git -C /repo worktree add -q --detach $wt HEAD || exit 2
trap 'git -C /repo worktree remove --force '$wt EXIT
a=$(sh $dir/demo/run.sh $wt 2>&1 | tail -1)
git -C $wt apply $dir/patch.diff || { echo "$name: patch does not apply"; exit 1; }
( cd $wt && meson setup _build >/dev/null 2>&1 && meson compile -C _build 2>&1 | grep -i 'warning' | head -3; meson test -C _build 2>&1 | grep -E '^(Ok|Expected Fail|Fail|Unexpected Pass|Timeout):' | tr '\n' ' ' ) > $wt.tests 2>&1
b=$(sh $dir/demo/run.sh $wt 2>&1 | tail -1)
echo "$name unchanged: $a | changed: $b | tests: $(cat $wt.tests)"
rm -f $wt.tests
