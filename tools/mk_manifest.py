#!/usr/bin/env python3
"""Regenerates MANIFEST.json from the table below (kept valid at all times)."""
import json
import os

V = os.path.dirname(os.path.dirname(os.path.abspath(__file__)))
NOTE = ("Trusted: Coq 8.16.1 kernel + VM, no axioms; extraction (ExtrOcamlBasic, ExtrOcamlString) + OCaml driver; the "
        "objcopy-wrap harness and Python orchestration. Modelled, not verified: the C source (tied by the correspondence run on every check). ")
CLAIMED = {
    "C15": ("Unbounded theorems (every size guess, operation sequence and string) over the Gallina model of set.c/buffer.c: counts equal a reference "
            "multiset, is_empty iff all zero, structural invariant, hash cache. Tie: implementation and extracted model run on all add/pop sequences "
            "of length 6 (7) over colliding strings plus random long sequences, every run.",
            NOTE, "induction + invariant over operation lists; differential correspondence"),
    "C14": ("Refinement theorem: for every operation sequence the queue model (disk directory + in-memory head/size/multiset) produces exactly the "
            "outputs of a reference coalescing FIFO, keeps a gap-free numbered directory and reloads to the same queue; codec round-trip for all flags "
            "and all normal paths; drain order = latest enqueues. Tie: exhaustive short sequences + random long ones against the real linq.c on a real directory with a virtual clock.",
            NOTE + "Known finding F8 (un-normal paths, API level) is reported as KNOWN-FINDING.", "simulation relation to an abstract FIFO; differential correspondence"),
    "C01": ("Theorems over every reachable state of the queue model under any interleaving of writes, clock advances (non-negative), timeout passes, "
            "debounce changes and restarts: a path is yielded only if all its accepted writes are at least the debounce in force old; a finite wait is "
            "positive and not longer than the time to the earliest due item; -1 iff nothing pending. Tie: handler-style scripts against the real queue code with a virtual clock; "
            "the C01 monitor judges the implementation's own trace.",
            NOTE + "Queue level: 'stored' = handed to the store by the timeout pass; clock monotone, whole seconds.", "history invariant lifted through the FIFO simulation; differential correspondence + trace monitor"),
    "C06": ("Theorems for every path, common-parent offset and rule sets: sieve() computes the declarative whole-component matching (deepest matching entry per set, "
            "last hidden component); the decision loop is 'the deepest of {hidden, cluded, included, excluded, history} decides, ties in that order'; project sets never change the decision. "
            "Tie: the real sieve() on exhaustive small paths and rule placements, and the real handle_close_write with Lua configurations for decisions.",
            NOTE + "Rule sets modelled as lists of strings (membership = is_within, exact by C15). Ties between different sets at equal depth are not ranked by the property: the monitor accepts either.",
            "loop invariant to a declarative spec + 'first maximal candidate' lemma; differential correspondence + policy monitor"),
    "C09": ("Theorems: extension = everything from the first dot of the file name not counting a leading dot (decomposition lemma for all names); store layout root/rel/version[-k]ext for all k; "
            "and, for EVERY oracle (any faults, short transfers, crash), every creating/removing/linking/write-opening call of load_handler, handle_open_exec, handle_close_write (incl. reload) "
            "and handle_timeout names a path inside a configured location (mkdir/rmdir: or an ancestor of one). Tie: exhaustive names to length 6, store paths, and handler histories whose real call logs are checked.",
            NOTE + "Confinement is string-level (prefix) and assumes canonical queue entries (no '..'); effects on the watched tree are judged by the dump monitor.",
            "program logic over the effect monad (call-log predicate for all oracles); differential correspondence + log monitor"),
}
ENGINE = "coq-model+correspondence"


def main():
    props = [json.loads(l) for l in open(os.path.join(V, "properties.jsonl"))]
    m = {
        "version": 1,
        "setup_cmd": "sh tools/setup.sh",
        "hooks": {"guard": "KLUNOK_VERIF",
                  "enable": "no source hooks: the harness compiles /repo/src/*.c with -DKLUNOK_VERIF -Dmain=klunok_main and renames libc references with objcopy --redefine-syms",
                  "baseline_off_cmd": "meson test -C /repo/_build", "source_commits": [], "add_only": True},
        "engines": [{"name": ENGINE, "path": "check", "serves_properties": sorted(CLAIMED),
                     "kind_free_text": "Coq 8.16.1 theorems over hand-written Gallina models (+ generated tables); extraction to OCaml; differential correspondence against /repo's C rebuilt on every run"}],
        "checks": [], "not_applicable": [], "notes": "see DESIGN.md",
    }
    for p in props:
        pid = p["id"]
        if pid in CLAIMED:
            text, note, tech = CLAIMED[pid]
            m["checks"].append({
                "property_id": pid, "quick_cmd": "./check %s --tier quick" % pid,
                "thorough_cmd": "./check %s --tier thorough" % pid, "evidence_file": "evidence/%s.json" % pid,
                "replay_cmd_template": "./check %s --replay {path}" % pid, "engine": ENGINE,
                "level_claimed": {"category": "proof", "text": text, "design_ref": "DESIGN.md section 7, " + pid},
                "level_note": note, "technique": tech})
        else:
            m["not_applicable"].append({"property_id": pid, "reason": "not yet claimed: model and check under construction (DESIGN.md section 7)"})
    json.dump(m, open(os.path.join(V, "MANIFEST.json"), "w"), indent=1)


if __name__ == "__main__":
    main()
