#!/usr/bin/env python3
"""Regenerates MANIFEST.json from the table below (kept valid at all times)."""
import json
import os

V = os.path.dirname(os.path.dirname(os.path.abspath(__file__)))
NOTE = ("Trusted: Coq 8.16.1 kernel + VM, no axioms; extraction (ExtrOcamlBasic, ExtrOcamlString) + OCaml driver; the "
        "objcopy-wrap harness and Python orchestration. Modelled, not verified: the C source (tied by the correspondence run on every check). ")
CLAIMED = {
    "C15": ("Unbounded theorems (every size guess, operation sequence and string) over the Gallina model of set.c/buffer.c: counts equal a reference "
            "multiset, is_empty iff all zero, structural invariant, hash cache. Tie: implementation and extracted model run on all add/pop sequences "
            "of length 6 (7) over colliding strings plus random long sequences, every run.",
            NOTE, "induction + invariant over operation lists; differential correspondence"),
    "C14": ("Refinement theorem: for every operation sequence the queue model (disk directory + in-memory head/size/multiset) produces exactly the "
            "outputs of a reference coalescing FIFO, keeps a gap-free numbered directory and reloads to the same queue; codec round-trip for all flags "
            "and all normal paths; drain order = latest enqueues. Handler level, EVERY oracle: a qualifying write that handle_close_write answers without an error is in the queue (no silent loss); over histories of accepted writes, passes, environment changes and RESTARTS (the real load_handler) queue and directory refine the reference queue computed from the event list, the directory is a gap-free run of numbered links at every prefix, and a restart reloads to the same queue (same entries, head, next name). Tie: exhaustive short sequences + random long ones against the real linq.c on a real directory with a virtual clock.",
            NOTE + "Known finding F8 (un-normal paths, API level) is reported as KNOWN-FINDING.", "simulation relation to an abstract FIFO; differential correspondence"),
    "C01": ("Theorems over every reachable state of the queue model under any interleaving of writes, clock advances (non-negative), timeout passes, "
            "debounce changes and restarts: a path is yielded only if all its accepted writes are at least the debounce in force old; a finite wait is "
            "positive and not longer than the time to the earliest due item; -1 iff nothing pending. Tie: handler-style scripts against the real queue code with a virtual clock; "
            "the C01 monitor judges the implementation's own trace.",
            NOTE + "Queue level: 'stored' = handed to the store by the timeout pass; clock monotone, whole seconds.", "history invariant lifted through the FIFO simulation; differential correspondence + trace monitor"),
    "C06": ("Theorems for every path, common-parent offset and rule sets: sieve() computes the declarative whole-component matching (deepest matching entry per set, "
            "last hidden component); the decision loop is 'the deepest of {hidden, cluded, included, excluded, history} decides, ties in that order'; project sets never change the decision. "
            "World level, every benign oracle: handle_close_write extends the on-disk queue by an entry for exactly the written path iff the deepest matching rule says so for this writer; a rejected write changes no directory entry (every oracle: it makes no call but writes). "
            "Tie: the real sieve() on exhaustive small paths and rule placements (incl. rules naming a hash-colliding twin directory), and the real handle_close_write with Lua configurations for decisions.",
            NOTE + "Rule sets modelled as lists of strings (membership = is_within, exact by C15). Ties between different sets at equal depth are not ranked by the property: the monitor accepts either.",
            "loop invariant to a declarative spec + 'first maximal candidate' lemma; differential correspondence + policy monitor"),
    "C09": ("Theorems: extension = everything from the first dot of the file name not counting a leading dot (decomposition lemma for all names); store layout root/rel/version[-k]ext for all k; "
            "and, for EVERY oracle (any faults, short transfers, crash), every creating/removing/linking/write-opening call of load_handler, handle_open_exec, handle_close_write (incl. reload) "
            "and handle_timeout names a path inside a configured location (mkdir/rmdir: or an ancestor of one). Tie: exhaustive names to length 6, store paths, and handler histories whose real call logs are checked.",
            NOTE + "Confinement is string-level (prefix) and assumes canonical queue entries (no '..'); effects on the watched tree are judged by the dump monitor.",
            "program logic over the effect monad (call-log predicate for all oracles); differential correspondence + log monitor"),
    "C02": ("Theorems, queue level: a drain yields each due path once, in the order of its last write; the queue is the reference FIFO; nothing pending means an indefinite wait. "
            "World level, for every benign oracle: one timeout pass of the handler over the file system, whose due prefix consists of plain heads (flags 0, first candidate name free), stores exactly one version of each "
            "with its current content, in queue order; nothing else appears; every other name and inode is unchanged; the journal gets one line per entry; the on-disk queue is the rest and still refines the reference queue; "
            "the wait is that of the rest; no error (composition of the queue refinement, the exact copy and the handler loop). Write and pass composed: a write accepted at t0, any change of the world that leaves the queue directory alone, then a pass: nothing stored before t0 + debounce, "
            "exactly one version with the content at the pass from then on; and in the property's own shape: after ANY history of accepted writes to any number of files interleaved in any order the queue refines the list of (path, time) in order of acceptance, times are sorted so a due entry is never behind one that is not, a path is stored by a pass iff its LAST write is at least the debounce old, and the pass stores exactly one version per such path (content at the pass, order of last writes), skipping superseded duplicates; and a pass whose due prefix mixes ordinary files, history files, project members and projects in any order (pairwise independent): item by item each postcondition holds, nothing extra, nothing lost, versions in queue order. Tie: random burst histories at world level incl. a store made unusable for one pass; the burst "
            "monitor predicts from the on-disk queue what is due and demands exactly one new version with the current content, the remaining queue and the wait.",
            NOTE + "The world theorem covers plain heads without collision; history, project and collision heads are covered by C08/C11/C04 theorems and by the correspondence. No concurrent writer.",
            "refinement + program-logic composition over the world model; world correspondence + burst monitor"),
    "C03": ("Theorems. Queue level: after any prefix of any operation history the queue directory reloads to exactly the reference queue of that prefix; a torn position file only rewinds. World level, about the disk left by a timeout pass "
            "under EVERY oracle (returned, reported an error, or the process died before any call): the queue directory still refines a reference queue that is a suffix of the original entries under their original link names, holds "
            "nothing but numbered links, no stored file changed, and load_linq on that disk succeeds and yields exactly that suffix; for every honest oracle (any crash, any errno that does not itself mean an expected condition, any short "
            "non-zero transfer): if the link of the first entry is gone, the store holds a file with the source's bytes (pop only after the copy); if the gone link was a project entry (and no access() probe failed: K5), the snapshot directory exists and is complete - exactly the entries the snapshot theorem prescribes - and later iterations never touch it; if the link is still there, load_linq yields the original entries (every oracle); for a member entry the unstable link is old, absent or the new inode. Recovery: what a pass over n due plain entries leaves under every honest oracle (crash anywhere) is characterised exactly; load_linq then yields the unpopped suffix and a fault-free pass empties the queue with at least one complete version per entry, nothing old changed, at most two new files per entry (at-least-once). Tie: the implementation is really killed (_exit) before every system call of 19 scenario "
            "families, restarted and drained, and compared with the model under the same crash index; monitors: recovery (files and projects), store immutable, queue form, position not ahead of the store.",
            NOTE + "Crash = process death between two system calls with completed calls durable. 'Pop after copy / snapshot' is proved for the first entry of a pass (file, member, project); later entries, accept and reload operations are covered by the "
            "suffix / immutability theorems and the enumeration. Known finding K3 (reload changing queue_path strands pending entries).",
            "program logic with crash condition over the world model, for all oracles; prefix-closed simulation invariant; crash-point enumeration against the model + recovery monitor"),
    "C04": ("Theorems for EVERY oracle (any failing calls, short transfers, a crash at any call): a timeout pass, an exec or write event (including a configuration reload), a restart, "
            "and whole histories of events change or remove no file of the store or project store (same name, same inode, same bytes), and the invariant is re-established so the statement chains; "
            "candidate names are base, -1, -2, ... for every k; world level (benign oracles): when the first k candidates are taken the new version is created at the k-th and none of the k entries is touched. Tie: histories with up to 12 versions in one timestamp and pre-seeded names, monitors 'no store file changes or disappears' and "
            "'first free name'; thorough: every crash point and single fault.",
            NOTE + "Hypotheses: the six configured locations pairwise non-nested; offset files and the journal share no inode with store files (both re-established by every operation). 'First free name' itself is judged by the monitor.",
            "program logic with crash condition (preservation relative to the initial file system, for all oracles); world correspondence + monitors"),
    "C05": ("Theorems for every content, offset and every positive chunking of the transfer: the version is byte-for-byte the source from the offset on, created as a new inode, nothing else touched "
            "(also when ancestors must be created); and for a missing, unreadable or non-regular source: result 0, the matching condition recorded, nothing added, every file and link kept, only "
            "directories on the destination chain that are empty without it disappear. Tie: sizes around the page and 70000 bytes, chunk limits, and every way the source changes before the copy, with real EACCES.",
            NOTE + "Source not modified during the copy (single-threaded model).", "loop invariant over the sendfile loop for all oracles of the benign class; world correspondence + monitors"),
    "C08": ("Theorems: each pass stores exactly the bytes from the remembered position on and returns the new position (any chunking); over any append-only growth the slices concatenate to the file "
            "(no byte missing or duplicated); the position round-trips through its decimal file and a torn write only rewinds; world level (benign oracles): one pass over a due history head creates exactly one version = the source from the remembered position on and leaves the file's length as the new position; over a chain of passes the k-th version is the k-th slice and they concatenate to the last content; crash and recovery of a history entry, every honest oracle: the crashed pass ends in one of four exactly characterised states, the position read back is never ahead of the bytes stored, and restart + a fault-free pass empty the queue with the complete slice always among the new versions (what is stored twice is stated per case: at-least-once, never a lost byte). Tie: append histories with restarts (also a history path inside a project), the position file round-trips every value up to 2^64-1, every single fault in copy and position update.",
            NOTE + "Known finding K1: a fault inside the position update duplicates the slice after the restart (at-least-once).", "induction over append histories + decimal codec lemmas; world correspondence + history monitor"),
    "C10": ("Theorems: catch only at depth 0 and errors never dropped by finally/try; every call confined under any number of faults. World level, for EVERY oracle, one iteration of the pass over a file head: "
            "a failed call of the copy in the reported class ends the iteration with the error on the trace and the stop result; then no unlinkat was issued and every existing file and link (the head's queue link included) "
            "is still there; the store holds no new entry except when the oracle failed the very unlink of the destination or the copy was complete and the position update failed (K1); the position of a history path is "
            "not rewound except by a fault inside its own update (then a prefix of the new digits); a crash during the copy keeps every entry; expected conditions (source gone / unreadable / not regular) go on without stopping. Project heads and the member link step, EVERY oracle: a failing call of the reported class ends the pass with an error and the entry still queued, nothing outside the unstable tree changed; per failing call of the link step the unstable entry is old / absent / new as tabulated. "
            "Tie: every call index of the implementation's own log x plausible errnos for the scenario families (one fault at a time; the expected conditions always tried: ENOENT/EACCES at the source open, EEXIST at an exclusive create, EINVAL at sendfile), then release, restart, drain; outcome, error "
            "trace, log and disk compared with the model; monitors: completed-or-reported, expected conditions never end in an error, an operation that reports no error leaves what a completed one leaves, nothing pending lost (files and projects), a failed copy leaves no version, position kept and never ahead of the store.",
            NOTE + "By the code's design a failing close of the source / of the position file and a failing rmdir in clean_up are not reported (refuted as literal statements, kept as witnesses). "
            "Every allocation of the operation under test fails in turn as well (implementation only). Known findings K3, K4 (partial snapshot after a reported failure), K5 (failing access() read as 'member gone').",
            "program logic for all oracles over the world model; fault enumeration against the model under the same oracle + monitors; trace lemmas"),
    "C11": ("Theorems: the flags of a queued project member round-trip. World level, every benign oracle, BOTH traversal orders: after the snapshot program the new directory holds, at the same relative paths, the same inodes "
            "as the unstable project tree for everything the project still has and nothing else; what the project lost is pruned; intermediate directories exist; store, earlier snapshots and all contents unchanged; "
            "a due project head yields exactly one new snapshot directory (also after k name collisions), one journal line, and only then leaves the queue; projects whose roots end in different components never disturb each other's trees and snapshots (same last component: open finding K6, machine-checked). File branch: a due project member gets its version and the unstable tree's entry for it becomes a hard link to "
            "exactly that new inode (entry absent or pointing to an older version, which is untouched); member(s) and project entry due in one pass: version, unstable entry and snapshot entry are the same new inode, for any number of members in the burst. Tie: project histories (root and parent style, depth 1-4, "
            "deletions of files and whole sub-directories, restarts, both orders, a blocked project store); monitor: every new snapshot entry is the same inode as the latest version, survivors present, deleted absent, "
            "earlier snapshots untouched, a project entry leaves the queue only with exactly one snapshot.",
            NOTE + "Open finding K6 (projects named by the last component of their root only). Member theorems assume the first candidate names free (collisions: C04/C11 head theorems). No symbolic links inside projects (the model's access() does not follow a dangling link).",
            "program logic over the inode-level file system for both fts orders; world correspondence + project monitor"),
    "C19": ("Theorems: line format (empty timestamp/label omitted with their tab, pid omitted when 0), exactly one newline, any positive chunking of the write appends exactly the line once, a labelled "
            "event appends exactly its line and nothing else changes, unlabelled events / no journal do nothing; handler level, whole histories of exec / write / timeout events: the journal is only appended to (EVERY oracle), and for oracles that only cut writes the appended part is a concatenation of whole lines, one per labelled event, with the label selected by the event kind and the writer's status and the stamp of the event's clock; with rewrites of the configuration (benign oracles): every journal file that was ever in force holds its initial content followed by exactly the lines of the events that happened while it was in force, each under the label and stamp pattern of the configuration in force when the event began (the rewrite itself under the old one); a journal out of force is never touched again; a rejected rewrite is journalled, ends in an error and changes nothing. Tie: all label choices, timestamp patterns including the empty one, short writes (one call / every write of an operation), reloads that change the stamp pattern, journal monitor (append-only whole lines, stamp in force, event path as last field).",
            NOTE + "Hypothesis: no name below the offset root leads to the journal inode (necessary: refuted without it).", "induction over the write loop for all chunkings; invariant over event histories for all oracles; world correspondence + journal monitor"),
    "C20": ("Theorems for every oracle: a timeout pass, an exec event and any sequence of events release every descriptor they acquire (count from the call log: opens that returned a descriptor minus closes); "
            "loading acquires exactly what the handler holds and releasing gives it back; a whole session returns the count to its start; with reloads the count moves with what the handler holds. "
            "Heap: measured on the real code (wrapped allocator): one mixed round repeated 1, 10, 100 times ends with identical live-block and descriptor counts, 0 after release; 2 descriptors after every operation; the real main() loop over 5-60 scripted events of every kind closes each event's descriptor exactly once.",
            NOTE + "Partial for memory: not expressible in the model (objects are values), measured instead. Two descriptor leaks on error paths that stop the daemon (load_linq after a failed read_entry; reload when the new journal cannot be opened) are stated exactly in the theorems.",
            "call-log counting judgement for all oracles; measurement on the implementation + correspondence"),
    "C07": ("Theorems: the pid table is a set for process ids of any magnitude and any initial size (marked iff the last operation was a set); after any sequence of execution events the table "
            "marks exactly the processes the property's wording calls editors and the recorded loaders are the interpreters of the editor binaries seen; non-editor writes are queued only when an "
            "included/history entry decides, editor writes unless hidden/excluded decides; handler level: the program handle_open_exec performs exactly one step of the attribution machine (benign oracles), a failing call never changes the marks (every oracle), so after any sequence of execution events the real handler marks exactly the property's editors; over MIXED histories of execution and write events (any pid : N) the marks equal the property's clauses folded over the exec events and the on-disk queue refines exactly one entry per write whose verdict (editor status before that write, deciding class) is 'queue': non-editors' writes to paths that are not force-included are never queued, editors' writes to visible non-excluded paths always are; a write event never changes the marks (every oracle). Tie: the real bit table on random sequences (pids up to 2^22, sizes from 0), and the real handler on "
            "exec/write histories with editor scripts, ELF editors with PT_INTERP, their loaders and non-editors.",
            NOTE + "An executed file must not be the journal itself (side condition of the sequence theorem).", "induction over event histories + refinement of the handler program to the pure machine; differential correspondence + attribution monitor"),
    "C12": ("Theorems over the model of main(): for every command line, mount table, ownership and every combination of failing or ineffective stat/setgroups/setgid/setuid, main's actions are a "
            "start-up phase with no handler load, poll or dispatch, followed by an exit or by loading the handler with non-zero uid, non-zero gid and no supplementary groups; started as root any "
            "bad condition means the handler is never loaded. Tie: the real main() with every call scripted, exhaustively over stat outcome x 27 switch behaviours x 5 initial credentials, with watch roots that do not exist (any interposed call that modifies the file system while uid or gid is 0 is reported), and with every allocation of main() failing in turn in seven start-ups whose drop must fail closed (implementation only).",
            NOTE + "Kernel credential semantics as scripted state machine (uid, gid, number of groups).", "structural theorem over the model of main; exhaustive differential correspondence + order monitor"),
    "C17": ("Theorems over the loop model: a good notification causes exactly one dispatch by kind, one close, one queue service, and the next sleep is what was asked (ms = 1000*s up to INT_MAX/1000, clamped, "
            "negative = indefinite); self writes ignored; poll failure, POLLHUP, failed/short read, bad version, overflow stop the daemon without dispatch; handler failures reported after the close. "
            "Tie: the real main() with poll/read/close and handler entry points scripted, all scripts of up to 2 (3) slots over 15 slot kinds.",
            NOTE, "equational characterisation of the loop; exhaustive differential correspondence + slot-by-slot monitor"),
    "C18": ("Theorems: a malformed command line exits before anything is mounted or watched; defaults (grammar equivalence, common parent = deepest common directory, mount iff not mounted: ParamsProofs; the text of /proc/self/mounts as the kernel writes it read back by the model of load_mountinfo gives exactly the mount points, a root is mounted iff it is not in the kernel's table: MountProofs; the reader without decoding is refuted = fix 9d086a9). "
            "Tie: every argv up to length 4 (5) over 11 tokens through the real parser against a reference parser of the documented grammar; all pairs of 11 paths through "
            "get_common_parent_path_length; the real main() on every sequence of 1-3 roots with random mount tables written the kernel's way (escaped space, tab, newline, backslash) and 15 malformed tables.",
            NOTE + "realpath is scripted; the kernel's escaping of /proc/self/mounts is modelled (MountParse.mangle) and was confirmed on the running kernel.", "grammar equivalence + path lemmas; exhaustive differential correspondence + reference parser"),
    "C13": ("Partial. Theorems carry the index arithmetic of the parsers: the project-name scan stays inside the path under the guard handle_timeout checks, the relative path offset never exceeds the length, "
            "decoding a queue link yields a suffix of it, the ELF interpreter string is a NUL-free proper prefix of a fully read buffer, the command-line parser is total. Memory safety of the C itself is "
            "witnessed on every run by rebuilding the harness with AddressSanitizer + UBSan and running hostile ELF images, hand-written queue directories, paths up to PATH_MAX, every short argv, pairs of watch roots (equal, nested, diverging), main() with nested roots, and tables of process ids of any initial size with pids up to 4194303; "
            "any report or abort is a violation, and the processed-or-rejected outcome is compared with the model.",
            NOTE + "Not expressible in the model: lifetimes, frees, libc contracts. Inputs whose outcome depends on the machine (lseek beyond the file system's maximum offset, malloc of gigabytes, paths with '.'/'..' components) run under the sanitizers without model comparison.",
            "bounds lemmas + sanitizer runs + differential correspondence"),
    "C16": ("The configuration table is TRANSLATED from lua/config.lua.md on every run (tools/gen_config.py, closed grammar, refuses anything else) and the theorems are re-checked against it: documented "
            "defaults, well-scopedness, derived defaults follow prefix and debounce, assigned values verbatim, ill-typed value => load fails (generic in the table). Reload, for EVERY oracle: a returning run of reload / "
            "of the write handler on the configuration file either ends with an ok trace and a handler carrying exactly the new configuration (new queue if the path differs else the old queue with the new debounce, newly "
            "opened journal) or with an error and the handler unchanged; a write event never loses a pending entry; K3 (old queue stranded) machine-checked with a refutation witness; over whole histories of write / exec / pass / environment steps (every oracle): after an error-free history the configuration is the last one put in force and the queue's debounce, the queue directory and the journal (path and stamp pattern) are those of it; a history that ends in an error stopped at the first failing step with the configuration unchanged. Tie: the real load_config with liblua 5.3 "
            "on ~850 generated files; handler histories with the configuration rewritten at every position (valid / not Lua / ill-typed / journal cannot be opened) and a monitor demanding that nothing of a rejected "
            "configuration shows in later operations.",
            NOTE + "Configuration files are finite lists of assignments of literals (arbitrary Lua is out of scope). 'Nothing applied' is about the handler: a failed reload may leave an empty new queue directory on disk.",
            "translation of the declarative source + interpreter proofs; all-or-nothing theorem over the world model for all oracles; differential correspondence + reload monitor"),
}
ENGINE = "coq-model+correspondence"


def main():
    props = [json.loads(l) for l in open(os.path.join(V, "properties.jsonl"))]
    m = {
        "version": 1,
        "setup_cmd": "sh tools/setup.sh",
        "hooks": {"guard": "KLUNOK_VERIF",
                  "enable": "no source hooks: the harness compiles /repo/src/*.c with -DKLUNOK_VERIF -Dmain=klunok_main and renames libc references with objcopy --redefine-syms",
                  "baseline_off_cmd": "meson test -C /repo/_build", "source_commits": [], "add_only": True},
        "engines": [{"name": ENGINE, "path": "check", "serves_properties": sorted(CLAIMED),
                     "kind_free_text": "Coq 8.16.1 theorems over hand-written Gallina models (+ generated tables); extraction to OCaml; differential correspondence against /repo's C rebuilt on every run"}],
        "checks": [], "not_applicable": [], "notes": "see DESIGN.md",
    }
    for p in props:
        pid = p["id"]
        if pid in CLAIMED:
            text, note, tech = CLAIMED[pid]
            m["checks"].append({
                "property_id": pid, "quick_cmd": "./check %s --tier quick" % pid,
                "thorough_cmd": "./check %s --tier thorough" % pid, "evidence_file": "evidence/%s.json" % pid,
                "replay_cmd_template": "./check %s --replay {path}" % pid, "engine": ENGINE,
                "level_claimed": {"category": "proof", "text": text, "design_ref": "DESIGN.md section 7, " + pid},
                "level_note": note, "technique": tech})
        else:
            m["not_applicable"].append({"property_id": pid, "reason": "not yet claimed: model and check under construction (DESIGN.md section 7)"})
    json.dump(m, open(os.path.join(V, "MANIFEST.json"), "w"), indent=1)


if __name__ == "__main__":
    main()
