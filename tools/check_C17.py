"""C17 Event loop: every notification dispatched once, own writes ignored."""
import itertools
import json

import main_common as mc
import vlib

KINDS = {
    "exec": dict(exe=1), "write": dict(wr=1), "selfwrite": dict(wr=1, pid=mc.SELF), "both": dict(exe=1, wr=1),
    # process id 0 is what the kernel reports for a process outside the daemon's pid namespace: an ordinary foreign id
    "pid0write": dict(wr=1, pid=0),
    "none": dict(), "overflow": dict(ovf=1, fd=-1, pid=0),     # as the kernel sends it: no descriptor (FAN_NOFD), no process
    "badvers": dict(vers=0, exe=1), "shortread": dict(read=1, exe=1),
    "failedread": dict(read=2, wr=1), "pollerr": dict(poll=2), "pollhup": dict(poll=3), "wakeup": dict(poll=1),
    "execfail": dict(exe=1, execok=0), "writefail": dict(wr=1, writeok=0), "timeoutfail": dict(wr=1, timeout="err"),
}
STOPS = {"overflow": "overflow", "badvers": "version", "shortread": "read", "failedread": "read", "pollerr": "poll", "pollhup": "poll",
         "execfail": "exec", "writefail": "write", "timeoutfail": "timeout"}


def expected(kinds, slots):
    """the property, slot by slot: what must be observed"""
    exp = []
    pause = 0
    for k, s in zip(kinds, slots):
        poll, read, vers, exe, wr, ovf, pid, fd, execok, writeok, tmo = s
        exp.append("poll %d" % (2147483647 if pause > 2147483 else pause * 1000))
        if k in ("pollerr", "pollhup"):
            exp.append("exit 1 poll")
            return exp
        if k != "wakeup":
            exp.append("read")
            if k in ("shortread", "failedread", "badvers", "overflow"):
                exp.append("exit 1 " + STOPS[k])
                return exp
            if exe:
                exp.append("exec %d %d" % (pid, fd))
            elif wr and pid != mc.SELF:
                exp.append("write %d %d" % (pid, fd))
            exp.append("close %d" % fd)
            if k in ("execfail", "writefail"):
                exp.append("exit 1 " + STOPS[k])
                return exp
        exp.append("timeout")
        if tmo == "err":
            exp.append("exit 1 timeout")
            return exp
        pause = tmo
    exp.append("poll %d" % (2147483647 if pause > 2147483 else pause * 1000))
    exp.append("end")
    return exp


def main(rep):
    exe_impl, exe_model = vlib.prepare(rep)
    found = False
    cases = []
    n = 0
    names = sorted(KINDS)
    pauses = [0, 3, -1, 2147483, 2147484, 5000000]
    depth = 2 if rep.tier == "quick" else 3
    for d in range(1, depth + 1):
        for combo in itertools.product(names, repeat=d):
            slots = []
            for i, k in enumerate(combo):
                kw = dict(KINDS[k])
                kw.setdefault("timeout", pauses[(n + i) % len(pauses)])
                kw.setdefault("fd", 1005 + i)
                slots.append(mc.slot(**kw))
            cases.append(("l%d" % n, mc.main_case(slots=slots), (combo, slots)))
            n += 1
    if exe_impl:
        impl, model, problems = vlib.correspond(exe_impl, exe_model, "main", [(c, s) for c, s, _ in cases], sandbox=True)
        validated = 0
        for cid, script, (combo, slots) in cases:
            il = impl.get(cid) or []
            # the loop part starts after the load line
            idx = next((i for i, l in enumerate(il) if l.startswith("load ")), None)
            got = il[idx + 1:] if idx is not None else il
            exp = expected(combo, slots)
            if got != exp:
                first = next((i for i, (a, b) in enumerate(zip(got, exp)) if a != b), min(len(got), len(exp)))
                rep.violation("loop", {"case": cid, "slots": combo, "script": script.split("\n"), "implementation": il, "expected_by_property": exp,
                                       "what": "event loop did %s where the property demands %s (slots %s)" % (got[first:first + 2], exp[first:first + 2], list(combo))})
                found = True
                break
            if exe_model and il != model.get(cid):
                # a divergence is reported only if no monitor fires on any case (a concrete failing input wins)
                rep.defer_divergence({"case": cid, "script": script.split("\n"), "implementation": il, "model": model.get(cid),
                                                 "what": "implementation and model differ"})
                continue
            validated += 1
        # "the pending queue is serviced and the wait it asks for is the one the daemon sleeps": the loop above scripts the
        # handler's answers; here the REAL handler gives them, in histories where the configuration (debounce, queue)
        # is rewritten while something is pending and has already been looked at - the answer of every pass must be the
        # one the queue on disk and the debounce in force prescribe
        if not found:
            import check_C16 as c16
            import world_check as wk
            wcases = [c for c in c16.reload_cases(rep.tier, rep.seed) if "deb" in c[2]][:60 if rep.tier == "quick" else 600]
            f2, v2 = wk.run_cases(rep, exe_impl, exe_model, wcases, ["bursts", "fault_reported"], what="wait")
            found = found or f2
            validated += v2
            rep.cov["handler_wait_histories"] = len(wcases)
        # "stops the daemon with an error instead of being skipped or misread" - also when memory is short: every
        # allocation of main() fails in turn (implementation only) in runs that end at a fatal notification (overflow,
        # unsupported format, short / failed read, poll failure, a handler error) followed by two ordinary ones: the
        # run must still end there, with a failure status, nothing after it dispatched
        nalloc = 0
        if not found:
            bases = []
            for k in ("overflow", "badvers", "shortread", "failedread", "pollerr", "pollhup", "execfail", "writefail", "timeoutfail"):
                slots = []
                for i, kk in enumerate(("write", k, "write", "exec")):
                    kw = dict(KINDS[kk])
                    kw.setdefault("timeout", 3)
                    kw.setdefault("fd", 1005 + i)
                    slots.append(mc.slot(**kw))
                bases.append((k, mc.main_case(slots=slots), slots))
            counts, _, _ = vlib.correspond(exe_impl, None, "main", [("n%d" % i, b.replace("m_run", "m_allocs\nm_run")) for i, (_, b, _) in enumerate(bases)], sandbox=True)
            acases = []
            for i, (k, b, slots) in enumerate(bases):
                na = next((int(l.split()[1]) for l in counts.get("n%d" % i) or [] if l.startswith("allocs ")), 0)
                for j in range(min(na, 120)):
                    acases.append(("af%d_%d" % (i, j), b.replace("m_run", "m_afail %d\nm_run" % j), (k, slots, j)))
            nalloc = len(acases)
            aimpl, _, aproblems = vlib.correspond(exe_impl, None, "main", [(c, t) for c, t, _ in acases], sandbox=True, shards=min(16, max(1, len(acases))))
            for cid, script, (k, slots, j) in acases:
                il = [l for l in (aimpl.get(cid) or []) if not l.startswith("allocs ")]
                idx = next((i for i, l in enumerate(il) if l.startswith("load ")), None)
                if idx is None:
                    continue        # the failing allocation ended the start-up: C12's business
                got = il[idx + 1:]
                # up to the fatal notification the run is the ordinary one; after it nothing more may be handled
                reads = [i for i, l in enumerate(got) if l == "read" or l.startswith("poll ")]
                npolls = sum(1 for l in got if l.startswith("poll "))
                exits = [l for l in got if l.startswith("exit ")]
                bad = None
                if npolls > 2:
                    bad = "the loop went on to wait for (and handle) further notifications after the fatal one"
                elif not exits or exits[-1].split()[1] == "0":
                    bad = "the run did not end with a failure status (%s)" % (exits or "no exit")
                if bad:
                    rep.violation("loop-oom", {"case": cid, "script": script.split("\n"), "driver": "main", "implementation": il,
                                               "what": "with allocation %d of main() failing, a run whose second notification is fatal (%s): %s; observed after the load: %s" % (j, k, bad, got[:14])})
                    found = True
                    break
                validated += 1
            problems += aproblems
        rep.cov["allocation_failures_enumerated"] = nalloc
        # "its descriptor is closed afterwards": the loop closes the descriptor of every notification (checked above with
        # scripted handlers); the REAL handlers only borrow it - after executions of editors (ELF images, scripts, damaged
        # images), of other programs and after writes the descriptor is still open when the handler returns
        if not found:
            import check_C07 as c7
            import random as _r
            rng7 = _r.Random(rep.seed + 17)
            ecases = [("fd%d" % i, c7.gen_attr_case(rng7), {}) for i in range(60 if rep.tier == "quick" else 800)]
            f3, v3 = wk.run_cases(rep, exe_impl, exe_model, ecases, ["event_fd_kept", "fault_reported"], what="descriptor")
            found = found or f3
            validated += v3
            rep.cov["handler_descriptor_histories"] = len(ecases)
        rep.cov["traces_validated_against_impl"] = validated
        for p in problems:
            rep.notes.append(p)
            if not found:
                rep.violation("driver", {"what": p}, found_input=False)
                found = True
    rep.cov["evaluations"] = len(cases)
    rep.cov["distinct_nontrivial"] = len(cases)
    rep.cov["exhaustive"] = True
    rep.cov["input_distribution"] = {"scripts of up to %d slots over %d slot kinds" % (depth, len(names)): len(cases)}
    rep.cov["rule"] = ("all scripts of up to %d slots over {exec, write, write by process id 0, write by the daemon itself, both bits, neither bit, overflow marker, bad version, short read, "
                       "failed read, poll error, POLLHUP, wake-up without event, failing exec / write / timeout handler}, pauses from {0,3,-1,2147483,2147484,5000000}, "
                       "on the real main() with poll/read/close and the handler entry points scripted; the monitor recomputes the required actions slot by slot; %d reload histories with the real handler (every pass answers what the queue on disk and the debounce in force prescribe); %d exec / write histories with the real handler: the notification's descriptor is still open when the handler returns" % (depth, rep.cov.get("handler_wait_histories", 0), rep.cov.get("handler_descriptor_histories", 0)))
    rep.cov["samples"] = [cases[20][1].split("\n")[-5:]]
    vlib.conclude_proofs(rep, found)


def replay(rep, path):
    d = json.load(open(path))
    exe_impl, exe_model = vlib.prepare(rep)
    impl, model, _ = vlib.correspond(exe_impl, exe_model, "main", [("replay", "\n".join(d["script"]))], sandbox=True)
    print("implementation:", impl.get("replay"))
    print("model:         ", model.get("replay"))
    return 1 if impl.get("replay") != model.get("replay") else 0
