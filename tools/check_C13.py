"""C13 Hostile inputs cannot corrupt memory (partial: bounds theorems + sanitizer build)."""
import itertools
import json
import random
import struct

import vlib
import world_check as wk
import world_common as wc
from vlib import hexs
from world_common import R, WATCH, X


def elf_variants(rng, n):
    """valid image, each header field mutated, truncations, missing NUL, size 0"""
    base = wc.elf_image(X + "/ld.so").encode("latin-1")
    out = [("valid", base)]
    for cut in list(range(0, min(len(base), 200), 7)) + [63, 64, 65, 119, 120, 121, 175, 176, 177, len(base) - 1]:
        out.append(("cut%d" % cut, base[:cut]))
    out.append(("nonul", wc.elf_image(X + "/ld.so", nul=False).encode("latin-1")))
    fields = [(32, 8), (56, 2), (54, 2), (64 + 56 + 0, 4), (64 + 56 + 8, 8), (64 + 56 + 32, 8), (64, 4)]
    vals = [0, 1, 2, 3, 55, 56, 57, 199, 200, 201, 0xFFFF, 0x7FFFFFFF, 0x7FFFFFFFFFFFFFFF, 0x8000000000000000, 0xFFFFFFFFFFFFFFFF, 1 << 33]
    for off, ln in fields:
        for v in vals:
            b = bytearray(base)
            b[off:off + ln] = (v & ((1 << (8 * ln)) - 1)).to_bytes(ln, "little")
            # between the file system's own maximum offset and 2^63 lseek's verdict depends on the file system:
            # such images are run under the sanitizers but not compared with the model ("G" marks them)
            # likewise whether malloc(p_filesz) succeeds for sizes of gigabytes depends on the machine
            gray = ((1 << 41) <= v < (1 << 63) and ln == 8) or (off == 152 and v >= (1 << 31))
            out.append(("%sf%d_%x" % ("G" if gray else "", off, v), bytes(b)))
    for i in range(n):
        b = bytearray(base)
        for _ in range(rng.randint(1, 6)):
            b[rng.randrange(len(b))] = rng.randrange(256)
        out.append(("r%d" % i, bytes(b)))
    return out


def gen_elf_cases(tier, seed):
    rng = random.Random(seed)
    cases = []
    for name, img in elf_variants(rng, 150 if tier == "quick" else 3000):
        s = wc.Script()
        wc.setup_world(s, wc.base_cfg(deb=5))
        s.put(X + "/h/vim", img.decode("latin-1"))
        s.start()
        s.exec(3, X + "/h/vim")
        s.exec(3, X + "/ld.so")
        s.add("stop")
        cases.append(("e_" + name, s.text(), {"compare": not name.startswith("G") and not name.startswith("r")}))
    return cases


def gen_queue_cases(tier, seed):
    """queue directories left by another run or edited by hand"""
    rng = random.Random(seed + 1)
    cases = []
    Q = R + "/k/var/queue"
    # absolute targets outside the sandbox must not exist on any machine ("/w" does on some)
    targets = ["x", "relative/path", "/", "/kvna", "/.", "/./", "//", "/" + "./" * 40 + "kvnx/a", "/./././" + WATCH[1:] + "/n", WATCH, WATCH + "/n",
               "/" * 20 + "x", "/." * 30, R + "/w", "/kvnx", "/./" + R[1:] + "/w/proj", "/.//" + WATCH[1:] + "/n",
               "/" + "/" * 33 + "." + WATCH + "/n", "/" + "./" * 31 + "/" + WATCH[1:] + "/n"]
    names = ["0", "1", "2", "5", "007", "10", "x", "1x", "99999999999999999999", "-1", "-5", "-9223372036854775808", "18446744073709551615", "+3"]
    n = 0
    for _ in range(250 if tier == "quick" else 5000):
        s = wc.Script()
        wc.setup_world(s, wc.base_cfg(deb=0))
        s.put(WATCH + "/n", "data")
        s.put(WATCH + "/proj/m.c", "int x;")
        k = rng.randint(1, 4)
        used = rng.sample(names, k)
        clean = True
        for nm in used:
            tg = rng.choice(targets)
            # the model's file system does not resolve "." / ".." / empty components: such paths are judged by the sanitizers only
            path = wk.decode_target(tg)[1] if tg.startswith("/") else "/ok"
            if path != "/" and any(c in ("", ".", "..") for c in path[1:].split("/")):
                clean = False
            s.add("symlink %s %s %d" % (hexs(Q + "/" + nm), hexs(tg), wc.CLOCK0 - rng.choice([0, 5, 5, -50, -4000000000])))      # (also links stamped in the future: a clock stepped back, a restored backup)
        if rng.random() < 0.25:
            # entries that are not symbolic links at all: a stray regular file, a sub-directory (hand edits, backups)
            nm = rng.choice(["3", "4", "12", "notes"])
            if nm not in used:
                if rng.random() < 0.5:
                    s.put(Q + "/" + nm, "stray")
                else:
                    s.mkdirp(Q + "/" + nm)
                used = used + [nm]
                clean = clean and nm.isdigit()
        s.add("start %s %d %s" % (s.cfgid, rng.choice([wc.CPL, 1, 3, 60]), hexs(wc.CFG_PATH)))
        s.timeout()
        s.timeout()
        s.add("stop")
        # names that strtol and the model's digit parser read differently are judged by the sanitizers only
        plain = clean and all(nm.isdigit() and len(nm) < 18 for nm in used)
        cases.append(("q%d" % n, s.text(), {"compare": plain}))
        n += 1
    return cases


def gen_path_cases(tier, seed):
    rng = random.Random(seed + 2)
    cases = []
    for i in range(25 if tier == "quick" else 400):
        s = wc.Script(log=False)
        wc.setup_world(s, wc.base_cfg(deb=0, included=[WATCH]))
        total = rng.choice([200, 1000, 3000, 3900, 4000, 4050])
        comps = []
        cur = len(WATCH)
        while cur < total:
            c = rng.choice(["d", "e" * 100, "f" * 255, ".h", "g.tar.gz"])
            if cur + len(c) + 1 > 4090:      # PATH_MAX
                break
            comps.append(c)
            cur += len(c) + 1
        p = WATCH + "/" + "/".join(comps)
        s.put(p, "x")
        s.start()
        s.write(3, p)
        s.timeout()
        s.add("stop")
        cases.append(("l%d" % i, s.text(), {"compare": False}))
    # the same file stored several times inside one version stamp (the name grows by -1, -2, ... -10): short relative
    # paths with long compound extensions make the store-path buffer grow exactly there
    sweep = ["s" * a + "." + "e" * b for b in (4, 9, 13, 28) for a in range(1, 15)]     # stem + 2 x extension crosses the buffer's sizes
    for j, nm in enumerate(["aa.eeee.eeee", "main.test.js.map", "a.b", "x.tar.gz.sig.asc", "n", "js/d3.v7.min.js", "q.%s" % ("e" * 40)] + (sweep if tier != "quick" else sweep[::2])):
        s = wc.Script(log=False)
        wc.setup_world(s, wc.base_cfg(deb=0, included=[WATCH]))
        s.start()
        s.exec(3, X + "/vim")
        for r in range(12 if j < 7 else 3):
            s.put(WATCH + "/" + nm, "round %d" % r)
            s.write(3, WATCH + "/" + nm)
            s.timeout()
            if r == 5:
                s.restart()
                s.exec(3, X + "/vim")
        s.add("stop")
        cases.append(("lc%d" % j, s.text(), {"compare": False}))
    # a queue link replaced by one with a longer target between the moment its size is taken (fstatat) and the moment it
    # is read (readlinkat): whatever size was seen first, the read stays inside its buffer (implementation only)
    for j, (k, extra) in enumerate([(1, 0), (1, 1), (1, 7), (1, 30), (1, 200), (1, 2000), (3, 1), (3, 64)]):
        s = wc.Script(log=False)
        wc.setup_world(s, wc.base_cfg(deb=0))
        s.put(WATCH + "/inc/a.txt", "x")
        s.put(WATCH + "/n", "y")
        s.start()
        s.exec(3, X + "/vim")
        s.write(3, WATCH + "/inc/a.txt")
        s.write(3, WATCH + "/n")
        s.add("oracle relink %d %d" % (k, extra))
        s.timeout()
        s.timeout()
        s.add("stop")
        cases.append(("lr%d" % j, s.text(), {"compare": False}))
    # the DESTINATION of the version (store root / relative path / version) exactly at the platform's path limit, and one
    # and two bytes to either side: 4096 bytes is the longest path the kernel takes
    store_len = len(R + "/k/store")
    for j, dest_len in enumerate([4093, 4094, 4095, 4096, 4097, 4098]):
        s = wc.Script(log=False)
        wc.setup_world(s, wc.base_cfg(deb=0, included=[WATCH]))
        rel_len = dest_len - store_len - 1 - 1 - len("v%d" % wc.CLOCK0)
        comps = []
        left = rel_len
        while left > 0:
            n = min(200, left)
            if 0 < left - n - 1 < 2:
                n -= 2
            comps.append("p" * n)
            left -= n + 1
        rel = "/".join(comps)
        if len(rel) != rel_len:
            rel = rel + "q" * (rel_len - len(rel)) if len(rel) < rel_len else rel[:rel_len]
        p = WATCH + "/" + rel
        if len(p) < 4096:
            s.put(p, "x")
        s.start()
        s.write(3, p)
        s.timeout()
        s.add("stop")
        cases.append(("lx%d" % j, s.text(), {"compare": False}))
    return cases


def gen_rule_boundary_cases(tier, seed):
    """a written path that IS a configured entry (project parent, project root, included, excluded, history, editor-only),
    or one of its prefixes, with path lengths sweeping across the sizes of the buffer the path is read into (32, 64,
    128 with the configured guess): every scan that looks for what follows the matched entry starts at the end of the
    string"""
    rng = random.Random(seed + 3)
    cases = []
    n = 0
    for L in list(range(1, 14)) + list(range(40, 48)) + list(range(104, 112)) + ([] if tier == "quick" else list(range(14, 40))):
        for kind in ("project_parents", "project_roots", "included", "excluded", "history", "cluded"):
            name = "p" * L
            p = WATCH + "/" + name
            kw = dict(deb=0)
            kw[kind] = [p] if rng.random() < 0.5 else [name]      # absolute, or relative to the common parent
            s = wc.Script(log=False)
            wc.setup_world(s, wc.base_cfg(**kw))
            s.put(p, "a regular file where the entry points")
            s.start()
            s.exec(3, X + "/vim")
            s.write(3, p)
            s.write(4, p)
            s.timeout()
            s.add("stop")
            cases.append(("b%d" % n, s.text(), {"compare": False}))
            n += 1
    return cases


def san_report(stderr):
    return "ERROR: AddressSanitizer" in stderr or "runtime error:" in stderr or "LeakSanitizer" in stderr


def main(rep):
    res = vlib.check_properties(rep.pid)
    rep.proofs(res)
    rep.proof_ok = res["ok"]
    if not res["ok"]:
        rep.proof_problem = {"theorems": res["theorems"], "coq_output_tail": (res.get("error") or res["output"])[-2500:]}
    exe_model, err = vlib.build_model()
    exe_impl, err2 = vlib.build_harness("C13", sanitize=True)
    found = False
    total = 0
    validated = 0
    if not exe_impl:
        rep.violation("harness-build", {"what": "sanitizer harness does not build", "output": err2[-2000:]}, found_input=False)
        found = True
    else:
        groups = [("elf", gen_elf_cases(rep.tier, rep.seed)), ("queue", gen_queue_cases(rep.tier, rep.seed)), ("paths", gen_path_cases(rep.tier, rep.seed)), ("rule_boundaries", gen_rule_boundary_cases(rep.tier, rep.seed))]
        dist = {}
        for gname, cases in groups:
            dist[gname] = len(cases)
            total += len(cases)
            if found:
                continue
            # one process per shard; a sanitizer report aborts the process: find the culprit by its case id
            # very long paths are slow in the list-based model and are not compared with it anyway
            impl, model, problems = vlib.correspond(exe_impl, exe_model if gname not in ("paths", "rule_boundaries") else None, "world",
                                                    [(c, s) for c, s, _ in cases], sandbox=True)
            for p in problems:
                if "implementation driver exited" in p:
                    near = p.split("near case ")[1].split(":")[0]
                    # the case after the last one that produced output is the one that died
                    ids = [c for c, _, _ in cases]
                    rep.violation("memory", {"group": gname, "what": "the sanitizer build of klunok died (memory error, undefined behaviour or abort) %s" % p[-600:],
                                             "near_case": near, "script": next((s for c, s, _ in cases if c == near), "").split("\n")})
                    found = True
                    break
            if found:
                continue
            for cid, script, meta in cases:
                il = impl.get(cid)
                if il is None:
                    rep.violation("memory", {"case": cid, "script": script.split("\n"), "what": "no output: the sanitizer build died on this input"})
                    found = True
                    break
                steps = wk.align(script.split("\n"), il)
                bad = wk.mon_fault_reported(steps, meta)
                if bad:
                    rep.violation("memory", {"case": cid, "script": script.split("\n"), "implementation": wc.comparable(il), "what": bad})
                    found = True
                    break
                if meta.get("compare", True) and exe_model:
                    a, b = wc.comparable(il), wc.comparable(model.get(cid))
                    if a != b:
                        first = next((i for i, (x, y) in enumerate(zip(a, b)) if x != y), min(len(a), len(b)))
                        # (deferred: the sanitizers still judge every other group; a concrete failing input wins)
                        rep.defer_divergence({"case": cid, "script": script.split("\n"), "implementation": a, "model": b,
                                              "first_difference": {"implementation": a[first:first + 3], "model": b[first:first + 3]},
                                              "what": "implementation and model differ on a hostile input (processed-or-rejected outcome)"})
                        continue
                validated += 1
        # argv under the sanitizers
        argv = []
        toks = ["-c", "-d", "-w", "-e", "-h", "-v", "-x", "--", "x", "", "-"]
        n = 0
        for ln in range(0, 4 if rep.tier == "quick" else 5):
            for combo in itertools.product(toks, repeat=ln):
                argv.append(("a%d" % n, "params " + " ".join(hexs(t) for t in combo)))
                n += 1
        # pairs of watch roots (equal, nested either way, diverging inside / at the end of a component): the common
        # parent must be found without reading past the end of the shorter path
        cpaths = ["/", "/a", "/a/b", "/a/bc", "/a/b/c", "/ab", "/abc/def", "/abc/de", "/abc/def/ghi", "/d", "/a/b/c/d/e", "/" + "x" * 15, "/" + "x" * 15 + "/y"]
        ncpp = 0
        for a, b in itertools.product(cpaths, repeat=2):
            argv.append(("a%d" % n, "cpp %s %s" % (hexs(a), hexs(b))))
            n += 1
            ncpp += 1
        # the table of editor process ids: any initial size (not only multiples of eight), any process id up to the
        # kernel's maximum and beyond the current size; every access stays inside the allocation
        nbm = 0
        rngb = random.Random(rep.seed + 13)
        for i in range(200 if rep.tier == "quick" else 3000):
            g = rngb.choice([0, 1, 2, 3, 5, 7, 9, 12, 15, 17, 100, 1001, 32768, 32771])
            ops = []
            for _ in range(rngb.randint(1, 12)):
                b = rngb.choice([0, 1, g - 1 if g else 0, g, g + 1, 2 * g + 1, 2 * g + 2, 2 * g + 3, rngb.randint(0, 70000), 4194303])
                ops.append(rngb.choice("ssug") + str(b))
                # the highest positions of the table as it now is (twice the last set bit plus one)
                if ops[-1][0] == "s":
                    ops += ["g%d" % (2 * b + 1), "u%d" % (2 * b + 1), "g%d" % (2 * b)]
            argv.append(("a%d" % n, "bm %d %s" % (g, " ".join(ops))))
            n += 1
            nbm += 1
        # file names of every shape over {a, b, '.', '/'} (only dots, dots at both ends, empty components) handed to the
        # extension and store-path code as exactly sized strings: every scan stays inside the string
        next_ = 0
        for ln in range(1, 6 if rep.tier == "quick" else 7):
            for cs in itertools.product("ab./", repeat=ln):
                argv.append(("a%d" % n, "ext " + hexs("".join(cs))))
                n += 1
                next_ += 1
        for nm in ("...", "/w/...", "/w/d/....", "/w/.", "/w/..a", "/w/a..", "/" + "x" * 28 + "/..."):
            argv.append(("a%d" % n, "sp %s %s %s %d" % (hexs("/st"), hexs(nm.lstrip("/")), hexs("v1"), 0)))
            n += 1
            next_ += 1
        total += len(argv)
        dist["names"] = next_
        dist["argv"] = len(argv) - ncpp - nbm - next_
        dist["root_pairs"] = ncpp
        dist["pid_tables"] = nbm
        if not found:
            impl, model, problems = vlib.correspond(exe_impl, exe_model, "pure", [c for c in argv if not c[1].startswith("bm ")])
            impl_bm, _, problems_bm = vlib.correspond(exe_impl, None, "pure", [c for c in argv if c[1].startswith("bm ")])
            impl.update(impl_bm)
            problems += problems_bm
            for p in problems:
                if "implementation driver exited" in p:
                    culprit = next(((c, t) for c, t in argv if not impl.get(c)), (None, ""))
                    rep.violation("memory", {"case": culprit[0], "driver": "pure", "script": [culprit[1]],
                                             "what": "the sanitizer build died while parsing a command line, comparing two watch roots, using the table of process ids or taking a file name apart (first input without an answer: %s): %s" % (culprit[1], p[-600:])})
                    found = True
                    break
            if not found:
                for cid, script in argv:
                    if script.startswith("bm "):
                        # tables of up to 2^23 flags: judged by a set of process ids (the model's unary table is for C07's sizes)
                        from check_C07 import bm_monitor
                        t = script.split()
                        bad = bm_monitor((int(t[1]), t[2:]), impl.get(cid))
                        if bad:
                            rep.violation("memory", {"case": cid, "driver": "pure", "script": [script], "implementation": impl.get(cid), "what": bad})
                            found = True
                            break
                        validated += 1
                        continue
                    if impl.get(cid) != model.get(cid):
                        rep.violation("correspondence", {"case": cid, "script": [script], "implementation": impl.get(cid), "model": model.get(cid),
                                                         "what": "implementation and model differ"}, found_input=False)
                        found = True
                        break
                    validated += 1
        # the real main() under the sanitizers with watch roots that resolve, do not resolve, are empty or repeated
        import main_common as mc
        margs = []
        pool = ["/a", "/nx", "", ".", "/a/../nx", "x" * 300]
        n = 0
        for opt in ("-w", "-e"):
            for a in pool:
                margs.append(("m%d" % n, mc.main_case(args=[opt, a], real={"/a": "/a", ".": "/cwd", "/": "/"}, mounted=["/"], slots=[]), [opt, a]))
                n += 1
        for a in pool:
            for b in pool[:3]:
                margs.append(("m%d" % n, mc.main_case(args=["-w", a, "-e", b], real={"/a": "/a", ".": "/cwd", "/": "/"}, mounted=["/"], slots=[]), ["-w", a, "-e", b]))
                n += 1
        # nested and repeated roots, two and three of them
        for roots in (["/a", "/a/b"], ["/a/b", "/a"], ["/a/b", "/a/b"], ["/a/b", "/a/c", "/a"], ["/a", "/a/b", "/a/b/c"], ["/a/b/c", "/a"]):
            args = []
            for r in roots:
                args += ["-w", r]
            margs.append(("m%d" % n, mc.main_case(args=args, real={"/a": "/a", "/a/b": "/a/b", "/a/c": "/a/c", "/a/b/c": "/a/b/c", ".": "/cwd", "/": "/"}, mounted=["/"], slots=[]), args))
            n += 1
        total += len(margs)
        dist["main_argv"] = len(margs)
        if not found:
            impl, model, problems = vlib.correspond(exe_impl, exe_model, "main", [(c, t) for c, t, _ in margs], sandbox=True, shards=len(margs))
            for cid, script, args in margs:
                il = impl.get(cid) or []
                if not il or not il[-1].startswith(("exit", "end")):
                    rep.violation("memory", {"case": cid, "script": script.split("\n"), "implementation": il,
                                             "what": "main(%s) under the sanitizers did not finish (memory error, undefined behaviour or abort) instead of processing or rejecting the command line" % args})
                    found = True
                    break
                if exe_model and il != model.get(cid):
                    rep.defer_divergence({"case": cid, "script": script.split("\n"), "implementation": il, "model": model.get(cid),
                                          "what": "implementation and model differ on main(%s)" % args})
                    continue
                validated += 1
        rep.cov["input_distribution"] = dist
        rep.cov["samples"] = [groups[1][1][3][1].split("\n")[-8:]]
    rep.cov["evaluations"] = total
    rep.cov["distinct_nontrivial"] = total
    rep.cov["traces_validated_against_impl"] = validated
    rep.cov["rule"] = ("harness rebuilt with -fsanitize=address,undefined (no recovery): executables named like an editor whose content is a valid ELF image, the image cut at many "
                       "offsets, every header / program-header field set to boundary values (0, sizes +-1, 2^31-1, 2^63-1, 2^63, 2^64-1), an interpreter without NUL, random "
                       "corruptions; queue directories with hand-written links (relative targets, '/', long flag prefixes, other roots, shorter than the common parent, project "
                       "flags with wrong offsets, names with gaps / leading zeros / non-numeric) under several common-parent offsets; paths up to PATH_MAX; written paths that coincide with a configured entry of every kind, with lengths sweeping across the path buffer's sizes; every argv up to length 3 (4); the real main() with watch roots that resolve, do not resolve, are empty or over-long; "
                       "any sanitizer report or abort is a violation, and the processed-or-rejected outcome is compared with the model")
    vlib.conclude_proofs(rep, found)


def replay(rep, path):
    d = json.load(open(path))
    exe_impl, err = vlib.build_harness("C13", sanitize=True)
    exe_model, _ = vlib.build_model()
    impl, model, problems = vlib.correspond(exe_impl, exe_model, "world", [("replay", "\n".join(d["script"]))], sandbox=True)
    print("problems:", problems)
    print("implementation:", wc.comparable(impl.get("replay"))[-10:])
    return 1 if problems or impl.get("replay") is None else 0
