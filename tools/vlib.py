"""Shared machinery of the klunok verification checks.

Every check: (1) regenerates the generated Coq files from /repo and re-checks
the property's theorems (full .vo build, Print Assumptions parsed), (2) rebuilds
the implementation harness from /repo's working tree and the extracted model,
(3) runs the correspondence, (4) decides, (5) writes evidence.
"""
import fcntl
import glob
import hashlib
import json
import os
import random
import re
import shutil
import subprocess
import sys
import tempfile
import time

VERIF = os.path.dirname(os.path.dirname(os.path.abspath(__file__)))
REPO = os.environ.get("KLUNOK_REPO", "/repo")
COQ = os.path.join(VERIF, "coq")
EXTRACT = os.path.join(VERIF, "extract")
HARNESS = os.path.join(VERIF, "harness")
BUILD = os.path.join(VERIF, "build")
# developer runs against a seeded change can divert what they write (VERIF_OUT)
_OUT = os.environ.get("VERIF_OUT", VERIF)
EVIDENCE = os.path.join(_OUT, "evidence")
REPLAYS = os.path.join(_OUT, "replays")
CORPUS = os.path.join(VERIF, "corpus")
NPROC = os.cpu_count() or 4

ALLOWED_AXIOMS = set()  # the development is axiom-free; anything printed is reported

WRAPPED = """open64 close read write sendfile64 mkdir mkdirat rmdir unlink unlinkat
link linkat symlinkat readlinkat readlink stat64 fstat64 fstatat64 access
ftruncate64 lseek64 scandir64 fts64_open fts64_read fts64_close time malloc
calloc realloc free strdup realpath""".split()
# calls that are NOT in the model: interposed all the same, so that they appear in the call log and are crash / fault
# points when a change introduces them (they are still reported as outside the model, see unknown_externals)
WRAPPED_EXTRA = """rename renameat fsync fdatasync truncate64 fchmod chmod utimensat""".split()
# calls of main.c, wrapped by harness/drv_main.c
WRAPPED_MAIN = """poll mount fanotify_init fanotify_mark setgroups setgid setuid
getuid getgid getpid getgroups chdir fchdir getcwd""".split()


def log(*a):
    print(*a, file=sys.stderr, flush=True)


def run(cmd, **kw):
    kw.setdefault("stdout", subprocess.PIPE)
    kw.setdefault("stderr", subprocess.STDOUT)
    kw.setdefault("text", True)
    return subprocess.run(cmd, **kw)


class Lock:
    def __init__(self, name):
        os.makedirs(BUILD, exist_ok=True)
        self.path = os.path.join(BUILD, name + ".lock")

    def __enter__(self):
        self.f = open(self.path, "w")
        fcntl.flock(self.f, fcntl.LOCK_EX)
        return self

    def __exit__(self, *a):
        fcntl.flock(self.f, fcntl.LOCK_UN)
        self.f.close()


# ---------------------------------------------------------------- Coq side

def regenerate():
    """Run the translators: /repo source -> coq/generated files."""
    gen = os.path.join(VERIF, "tools", "gen_all.py")
    if os.path.exists(gen):
        r = run([sys.executable, gen])
        if r.returncode != 0:
            return False, r.stdout
    return True, ""


def coq_make(targets, timeout=1500):
    """Full .vo build of the given targets (and dependencies)."""
    with Lock("coq"):
        ok, out = regenerate()
        if not ok:
            return False, "translator failed:\n" + out
        if not os.path.exists(os.path.join(COQ, "Makefile")):
            run(["coq_makefile", "-f", "_CoqProject", "-o", "Makefile"], cwd=COQ)
        r = run(["timeout", str(timeout), "make", "-k", "-j%d" % NPROC] + targets, cwd=COQ)
        return r.returncode == 0, r.stdout


def property_files(pid):
    """Properties_<pid>.v and its companions Properties_<pid>_<part>.v (world-level statements kept in files of
    their own so that the short names of the pure models and of the world model do not mix)"""
    import glob
    fs = [os.path.join(COQ, "Properties_%s.v" % pid)] + sorted(glob.glob(os.path.join(COQ, "Properties_%s_*.v" % pid)))
    return [os.path.basename(f) for f in fs if os.path.exists(f)]


def check_properties(pid, timeout=900):
    """Compile the property files of <pid> afresh and parse theorems / assumptions.
    Returns dict(obligations, discharged, theorems=[(name, status)], ok, output)."""
    res = {"obligations": 0, "discharged": 0, "theorems": [], "ok": False, "output": "", "files": property_files(pid)}
    axioms_seen = []
    for fn in res["files"]:
        src = open(os.path.join(COQ, fn)).read()
        theorems = re.findall(r"^\s*Theorem\s+(\w+)", src, re.M)
        res["obligations"] += len(theorems)
        ok_deps, out = coq_make([fn[:-2] + ".vo"])
        if not ok_deps:
            # which theorem / lemma broke: report coqc's message
            res["theorems"] += [(t, "not-checked") for t in theorems]
            res["error"] = out[-3000:]
            res["output"] += out
            continue
        # recompile the property file itself to capture Print Assumptions
        # (the output goes to the build directory: rewriting Properties_*.vo in place would make every file that imports
        # a property file - AttrProofs and what follows it - look out of date at the next `make`)
        os.makedirs(os.path.join(BUILD, "propcheck"), exist_ok=True)
        with Lock("coq"):
            r = run(["timeout", str(timeout), "coqc", "-Q", ".", "K", "-o", os.path.join(BUILD, "propcheck", fn[:-2] + ".vo"), fn], cwd=COQ)
        res["output"] += r.stdout
        if r.returncode != 0:
            res["theorems"] += [(t, "not-checked") for t in theorems]
            res["error"] = r.stdout[-3000:]
            continue
        # Print Assumptions blocks appear in order, one per theorem
        blocks = re.split(r"(?=Closed under the global context|Axioms:)", r.stdout)
        blocks = [b for b in blocks if b.startswith("Closed under") or b.startswith("Axioms:")]
        for i, t in enumerate(theorems):
            if i < len(blocks) and blocks[i].startswith("Closed under"):
                res["theorems"].append((t, "closed"))
                res["discharged"] += 1
            elif i < len(blocks):
                ax = re.findall(r"^(\S+)\s*:", blocks[i], re.M)
                bad = [a for a in ax if a not in ALLOWED_AXIOMS and a != "Axioms"]
                axioms_seen += ax
                if bad:
                    res["theorems"].append((t, "axioms:" + ",".join(bad)))
                else:
                    res["theorems"].append((t, "axioms-allowed:" + ",".join(ax)))
                    res["discharged"] += 1
            else:
                res["theorems"].append((t, "no-print-assumptions"))
    res["axioms"] = sorted(set(axioms_seen))
    # forbidden constructs anywhere in the development
    bad = grep_forbidden()
    res["forbidden"] = bad
    res["ok"] = res["discharged"] == res["obligations"] and res["obligations"] > 0 and not bad
    return res


FORBIDDEN = re.compile(r"\b(Admitted|admit|Axiom|Parameter|Conjecture|Unset Guard|bypass_check|Admit Obligations)\b")


def grep_forbidden():
    bad = []
    for f in sorted(glob.glob(os.path.join(COQ, "*.v")) + glob.glob(os.path.join(COQ, "generated", "*.v"))):
        txt = re.sub(r"\(\*.*?\*\)", "", open(f).read(), flags=re.S)
        for m in FORBIDDEN.finditer(txt):
            bad.append("%s:%s" % (os.path.basename(f), m.group(1)))
    return bad


def build_model():
    """Extract the model from the checked .vo files and compile the OCaml driver."""
    # the modules Extract.v imports must be compiled (a model file no property file depends on would otherwise be
    # missing in a tree where only the property targets were made)
    etext = open(os.path.join(EXTRACT, "Extract.v")).read()
    mods = re.search(r"From K Require Import ([^.]*)\.", etext)
    gmods = re.search(r"From K\.generated Require Import ([^.]*)\.", etext)
    if mods:
        okm, outm = coq_make([m + ".vo" for m in mods.group(1).split()] + ["generated/" + m + ".vo" for m in (gmods.group(1).split() if gmods else [])])
        if not okm:
            return None, "model files do not compile:\n" + outm[-3000:]
    with Lock("coq"):
        ok, out = True, ""
        r = run(["timeout", "600", "coqc", "-Q", "../coq", "K", "Extract.v"], cwd=EXTRACT)
        if r.returncode != 0:
            return None, "extraction failed:\n" + r.stdout
        r = run(["ocamlfind", "ocamlopt", "-package", "zarith", "-linkpkg", "-w", "-a",
                 "model.mli", "model.ml", "common.ml", "drivers.ml", "world.ml", "main.ml", "-o", os.path.join(BUILD, "modeldrv")], cwd=EXTRACT)
        if r.returncode != 0:
            return None, "ocaml build failed:\n" + r.stdout
    return os.path.join(BUILD, "modeldrv"), ""


# ------------------------------------------------------ implementation side

def build_harness(tag, sanitize=False, extra_cflags=(), static_config=False):
    """Compile klunok from /repo's working tree + the drivers -> build/<tag>/kdrv."""
    bdir = os.path.join(BUILD, tag)
    shutil.rmtree(bdir, ignore_errors=True)
    os.makedirs(bdir)
    cflags = ["-D_FILE_OFFSET_BITS=64", "-DKLUNOK_VERIF", "-O1", "-g", "-w",
              "-I" + os.path.join(REPO, "inc"), "-I" + bdir, "-I/usr/include/lua5.3"] + list(extra_cflags)
    if sanitize:
        cflags += ["-fsanitize=address,undefined", "-fno-sanitize-recover=all", "-fno-omit-frame-pointer"]
    with open(os.path.join(bdir, "constants.h"), "w") as f:
        ver = open(os.path.join(REPO, "version")).read().strip()
        f.write('#pragma once\n#define LUA_VERSION "unknown"\n#define VERSION "%s"\n#undef WATCH_NIX_STORE\n' % ver)
    # woven Lua: exactly as lua/meson.build does
    os.makedirs(os.path.join(bdir, "lua"))
    r = run(["awk", "-f", os.path.join(REPO, "lua/weave.awk"), "-vpre=lua/pre_config.lua",
             "-vpost=lua/post_config.lua", os.path.join(REPO, "lua/config.lua.md")], cwd=bdir)
    if r.returncode != 0:
        return None, "weave failed: " + r.stdout
    objs = []
    for nm in ("pre_config", "post_config"):
        o = "lua_%s.o" % nm
        r = run(["ld", "-z", "noexecstack", "-r", "-b", "binary", "-o", o, "lua/%s.lua" % nm], cwd=bdir)
        if r.returncode != 0:
            return None, "ld failed: " + r.stdout
        objs.append(o)
    with open(os.path.join(bdir, "syms.txt"), "w") as f:
        for s in WRAPPED + WRAPPED_MAIN + WRAPPED_EXTRA:
            f.write("%s __wrap_%s\n" % (s, s))
    srcs = sorted(glob.glob(os.path.join(REPO, "src", "*.c")))
    # two configuration back ends exist: config-lua.c (hot reload, used by every check) and config-static.c (the
    # default build of the project, without Lua): one of them is linked
    srcs = [s for s in srcs if os.path.basename(s) != ("config-lua.c" if static_config else "config-static.c")]
    procs = []
    for s in srcs:
        o = os.path.basename(s)[:-2] + ".o"
        extra = ["-Dmain=klunok_main"] if o == "main.o" else []
        procs.append((o, s, subprocess.Popen(["gcc"] + cflags + extra + ["-c", s, "-o", o], cwd=bdir,
                                             stdout=subprocess.PIPE, stderr=subprocess.STDOUT, text=True)))
    for o, s, p in procs:
        out, _ = p.communicate()
        if p.returncode != 0:
            return None, "compile of %s failed:\n%s" % (s, out)
        if o == "main.o":
            # main's calls into the handler go to the driver's recorders (drv_main.c)
            with open(os.path.join(bdir, "syms_main.txt"), "w") as f:
                for s2 in WRAPPED + WRAPPED_MAIN + WRAPPED_EXTRA:
                    f.write("%s __wrap_%s\n" % (s2, s2))
                for s2 in ("load_handler", "handle_open_exec", "handle_close_write", "handle_timeout", "load_config", "free_config"):
                    f.write("%s __hook_%s\n" % (s2, s2))
            r = run(["objcopy", "--redefine-syms=syms_main.txt", o], cwd=bdir)
        else:
            r = run(["objcopy", "--redefine-syms=syms.txt", o], cwd=bdir)
        if r.returncode != 0:
            return None, "objcopy failed: " + r.stdout
        objs.append(o)
    hsrcs = sorted(glob.glob(os.path.join(HARNESS, "*.c")))
    hflags = [f for f in cflags if f != "-w"] + ["-I" + HARNESS, "-Wall", "-Wno-unused"]
    procs = []
    for s in hsrcs:
        o = "h_" + os.path.basename(s)[:-2] + ".o"
        procs.append((o, s, subprocess.Popen(["gcc"] + hflags + ["-c", s, "-o", o], cwd=bdir,
                                             stdout=subprocess.PIPE, stderr=subprocess.STDOUT, text=True)))
    for o, s, p in procs:
        out, _ = p.communicate()
        if p.returncode != 0:
            return None, "compile of %s failed:\n%s" % (s, out)
        objs.append(o)
    link = ["gcc"] + (["-fsanitize=address,undefined"] if sanitize else []) + objs + ["-llua5.3", "-lm", "-ldl", "-o", "kdrv"]
    r = run(link, cwd=bdir)
    if r.returncode != 0:
        return None, "link failed:\n" + r.stdout
    return os.path.join(bdir, "kdrv"), ""


CANON_ROOT = "/tmp/kvSANDBOX0"   # same length as a real sandbox path


def mk_sandbox():
    """Fixed-length sandbox path outside /repo and /verif."""
    return tempfile.mkdtemp(prefix="kv", dir=os.environ.get("KVERIF_TMP", "/tmp"))


def hexs(s):
    if isinstance(s, str):
        s = s.encode("latin-1")
    return "h" + s.hex()


def unhexs(t):
    assert t[0] == "h"
    return bytes.fromhex(t[1:]).decode("latin-1")


def run_driver(exe, args, script, timeout=600, env=None):
    e = dict(os.environ)
    e["ASAN_OPTIONS"] = "detect_leaks=0:abort_on_error=0:allocator_may_return_null=1"
    e["UBSAN_OPTIONS"] = "print_stacktrace=1"
    if env:
        e.update(env)
    def _limits():
        # the extracted model recurses on unary numbers: give it the stack it needs
        import resource
        try:
            resource.setrlimit(resource.RLIMIT_STACK, (resource.RLIM_INFINITY, resource.RLIM_INFINITY))
        except (ValueError, OSError):
            pass
    try:
        p = subprocess.run([exe] + args, input=script, stdout=subprocess.PIPE, stderr=subprocess.PIPE,
                           text=True, errors="replace", timeout=timeout, env=e, preexec_fn=_limits)   # (a run gone wrong may print arbitrary bytes)
        return p.returncode, p.stdout, p.stderr
    except subprocess.TimeoutExpired as ex:
        return -999, (ex.stdout or b"").decode(errors="replace") if isinstance(ex.stdout, bytes) else (ex.stdout or ""), "timeout"


def split_cases(out):
    """Split driver output into {case id: [lines]} (order preserved)."""
    cases = {}
    order = []
    cur = None
    for l in out.splitlines():
        if l.startswith("case "):
            cur = l[5:].strip()
            cases[cur] = []
            order.append(cur)
        elif cur is not None:
            cases[cur].append(l)
    return cases, order


def parallel_map(fn, items, nproc=None):
    """Run fn over items in forked workers (fn must be picklable at top level)."""
    import multiprocessing as mp
    nproc = nproc or NPROC
    if len(items) <= 1 or nproc <= 1:
        return [fn(x) for x in items]
    with mp.Pool(min(nproc, len(items))) as pool:
        return pool.map(fn, items)


# ------------------------------------------------------------- verdicts

def known_findings():
    p = os.path.join(VERIF, "known_findings.json")
    if not os.path.exists(p):
        return {"open": [], "fixed": []}
    return json.load(open(p))


class Report:
    """Collects what a check covered and produces the verdict + evidence."""

    def __init__(self, pid, tier, seed):
        self.pid = pid
        self.tier = tier
        self.seed = seed
        self.t0 = time.time()
        self.cov = {"evaluations": 0, "distinct_nontrivial": 0, "samples": [], "rule": "",
                    "obligations": 0, "discharged": 0, "checker_cmd": "", "trusted_base": [],
                    "traces_validated_against_impl": 0}
        self.assumptions = []
        self.violations = []  # (replay path, suffix)
        self.known_hits = []
        self.notes = []

    def proofs(self, res):
        self.cov["obligations"] = res["obligations"]
        self.cov["discharged"] = res["discharged"]
        self.cov["theorems"] = ["%s: %s" % t for t in res["theorems"]]
        self.cov["checker_cmd"] = "make -C coq Properties_%s.vo && coqc -Q . K Properties_%s.v (Print Assumptions parsed)" % (self.pid, self.pid)
        if res.get("forbidden"):
            self.cov["forbidden_constructs"] = res["forbidden"]

    def violation(self, name, payload, found_input=True):
        os.makedirs(REPLAYS, exist_ok=True)
        h = hashlib.sha1(json.dumps(payload, sort_keys=True, default=str).encode()).hexdigest()[:10]
        path = os.path.join(REPLAYS, "%s-%s-%s.json" % (self.pid, name, h))
        payload = dict(payload)
        payload["property"] = self.pid
        payload["kind"] = name
        payload["failing_input_found"] = found_input
        with open(path, "w") as f:
            json.dump(payload, f, indent=1, default=str)
        self.violations.append((path, "" if found_input else " no-failing-input-found"))

    def defer_divergence(self, payload):
        """model and implementation differ on a case: remembered (the first one), reported by conclude_proofs only if no
        monitor produced a concrete failing input on any case"""
        if getattr(self, "deferred", None) is None:
            self.deferred = payload

    def known(self, what):
        self.known_hits.append(what)

    def finish(self):
        for what in self.known_hits:
            print("KNOWN-FINDING: property=%s %s" % (self.pid, what))
        ev = {
            "property_id": self.pid, "tier": self.tier, "seed": self.seed, "level": "proof",
            "coverage": self.cov, "assumptions": self.assumptions,
            "wall_s": round(time.time() - self.t0, 2), "violations": len(self.violations),
        }
        if self.notes:
            ev["coverage"]["notes"] = self.notes
        if self.known_hits:
            ev["coverage"]["known_findings_reproduced"] = self.known_hits
        os.makedirs(EVIDENCE, exist_ok=True)
        with open(os.path.join(EVIDENCE, "%s.json" % self.pid), "w") as f:
            json.dump(ev, f, indent=1, default=str)
        # one line per distinct replay; input-found ones first
        seen = set()
        for path, suffix in sorted(self.violations, key=lambda v: v[1]):
            if path in seen:
                continue
            seen.add(path)
            print("VIOLATION property=%s replay=%s%s" % (self.pid, path, suffix))
        sys.stdout.flush()
        return 1 if self.violations else 0


TRUSTED_BASE = [
    "Coq 8.16.1 kernel and its VM (vm_compute); no native_compute",
    "axioms: none (every Print Assumptions must say 'Closed under the global context')",
    "extraction: ExtrOcamlBasic + ExtrOcamlString directives only; OCaml 4.13.1; extract/driver.ml",
    "correspondence harness: harness/*.c (objcopy-renamed libc references), tools/*.py, gcc, liblua5.3, the sandbox kernel",
    "hand-written Gallina models of the C modules (modelled, not verified: the C source itself)",
]


# ------------------------------------------------------ correspondence core

def _run_shard(args):
    exe_impl, exe_model, driver, extra, script = args
    sb = None
    a_impl = [driver]
    if extra.get("sandbox"):
        sb = mk_sandbox()
        a_impl.append(sb)
        assert len(sb) == len(CANON_ROOT), sb
        script = script.replace("@ROOT@", hexs(sb)).replace(hexs(CANON_ROOT)[1:], hexs(sb)[1:])
    try:
        rc1, out1, err1 = run_driver(exe_impl, a_impl, script, timeout=extra.get("timeout", 900), env=extra.get("env"))
        rc2, out2, err2 = (0, "", "")
        if exe_model:
            rc2, out2, err2 = run_driver(exe_model, [driver], script, timeout=extra.get("timeout", 900))
    finally:
        if sb:
            shutil.rmtree(sb, ignore_errors=True)
    if sb:
        out1 = out1.replace(hexs(sb)[1:], hexs(CANON_ROOT)[1:]).replace(sb, CANON_ROOT)
        out2 = out2.replace(hexs(sb)[1:], hexs(CANON_ROOT)[1:]).replace(sb, CANON_ROOT)
    return rc1, out1, err1[-2000:], rc2, out2, err2[-2000:]


def correspond(exe_impl, exe_model, driver, cases, sandbox=False, shards=None, timeout=900, env=None):
    """cases: list of (case_id, script_text).  Runs implementation and model on
    the same scripts (sharded over the cores) and returns
    (impl: {id: lines}, model: {id: lines}, problems: [str])."""
    shards = shards or min(NPROC, max(1, len(cases) // 50))
    chunks = [cases[i::shards] for i in range(shards)]
    jobs = []
    for ch in chunks:
        if not ch:
            continue
        script = "".join("case %s\n%s" % (cid, txt if txt.endswith("\n") else txt + "\n") for cid, txt in ch)
        jobs.append((exe_impl, exe_model, driver, {"sandbox": sandbox, "timeout": timeout, "env": env}, script))
    results = parallel_map(_run_shard, jobs)
    impl, model, problems = {}, {}, []
    for (rc1, out1, err1, rc2, out2, err2) in results:
        c1, _ = split_cases(out1)
        c2, _ = split_cases(out2)
        impl.update(c1)
        model.update(c2)
        if rc1 != 0:
            last = list(c1.keys())[-1] if c1 else "?"
            problems.append("implementation driver exited with %s near case %s: %s" % (rc1, last, err1[-800:]))
        if rc2 != 0:
            last = list(c2.keys())[-1] if c2 else "?"
            problems.append("model driver exited with %s near case %s: %s" % (rc2, last, err2[-800:]))
    return impl, model, problems


PURE_EXTERNAL = re.compile(r"^(mem\w+|str\w+|is\w+|to(upper|lower)|abs|labs|qsort|bsearch|v?sn?printf|__assert_fail|__errno_location|"
                           r"__stack_chk_fail|localtime(_r)?|gmtime(_r)?|strftime|sysconf|lua\w+|luaL_\w+|_binary_\w+|__\w+_chk|"
                           r"__isoc\d+_\w+|getopt\w*|optarg|optind|opterr|optopt|environ|exit|abort|std(err|out|in))$")


def unknown_externals(bdir):
    """External functions klunok's own objects call that are neither interposed by the harness (so part of the call
    log and of the model's `call` type) nor pure library functions: a system interaction the model does not know."""
    objs = [f for f in sorted(os.listdir(bdir)) if f.endswith(".o") and not f.startswith(("h_", "lua_"))]
    if not objs:
        return []
    r = run(["nm", "-A", "--defined-only"] + objs, cwd=bdir)
    defined = {l.split()[-1] for l in r.stdout.split("\n") if len(l.split()) >= 3}
    r = run(["nm", "-A", "-u"] + objs, cwd=bdir)
    unknown = []
    for l in r.stdout.split("\n"):
        t = l.split()
        if len(t) < 2 or t[-2] not in ("U", "w"):
            continue
        sym = t[-1].split("@")[0]
        if sym.startswith("__wrap_") and sym[len("__wrap_"):] in WRAPPED_EXTRA:
            unknown.append("%s (%s)" % (sym[len("__wrap_"):], t[0].split(":")[0]))
            continue
        if sym in defined or sym.startswith(("__wrap_", "__hook_")) or PURE_EXTERNAL.match(sym):
            continue
        unknown.append("%s (%s)" % (sym, t[0].split(":")[0]))
    return sorted(set(unknown))


def prepare(rep, need_model=True, sanitize=False, tag=None):
    """Steps 1-2 of every check: proofs, model, harness.  Returns (impl, model)."""
    res = check_properties(rep.pid)
    rep.proofs(res)
    rep.proof_ok = res["ok"]
    if not res["ok"]:
        rep.proof_problem = {"theorems": res["theorems"], "forbidden": res.get("forbidden"),
                             "coq_output_tail": (res.get("error") or res["output"])[-2500:]}
    exe_model = None
    if need_model:
        exe_model, err = build_model()
        if not exe_model:
            rep.model_problem = err[-2500:]
    exe_impl, err = build_harness(tag or rep.pid, sanitize=sanitize)
    if not exe_impl:
        # the working tree does not compile: nothing can be shown
        rep.violation("harness-build", {"what": "implementation harness does not build from /repo", "output": err[-3000:]},
                      found_input=False)
    else:
        unk = unknown_externals(os.path.join(BUILD, tag or rep.pid))
        rep.cov["external_calls_outside_the_model"] = unk
        if unk:
            rep.defer_divergence({"what": "klunok now calls external function(s) that are neither in the model's call type nor pure library "
                                          "functions: %s; the model no longer describes what the code does to the system" % ", ".join(unk),
                                  "broken": "correspondence (set of system interactions)", "script": []})
    return exe_impl, exe_model


def conclude_proofs(rep, found_concrete):
    """If a proof obligation is broken and no concrete failing input was
    reported, the property is no longer shown to hold."""
    if getattr(rep, "deferred", None) is not None and not rep.violations:
        rep.violation("correspondence", rep.deferred, found_input=False)
        found_concrete = True
    if not getattr(rep, "proof_ok", True) and not found_concrete:
        rep.violation("proof", {"what": "a theorem of Properties_%s.v (or a lemma/model it depends on) no longer checks" % rep.pid,
                                **rep.proof_problem}, found_input=False)
    if getattr(rep, "model_problem", None) and not found_concrete:
        rep.violation("model-build", {"what": "the extracted model does not build", "output": rep.model_problem},
                      found_input=False)
