#!/usr/bin/env python3
"""Translator: /repo/lua/config.lua.md (the literate Lua that IS klunok's configuration code) ->
coq/generated/ConfigTable.v.  It accepts only the closed grammar below and refuses anything else
(the C16 check then reports the broken tie)."""
import os
import re
import sys

V = os.path.dirname(os.path.dirname(os.path.abspath(__file__)))
REPO = os.environ.get("KLUNOK_REPO", "/repo")

EXPECTED_FUNCS = {
    "declare": "function declare(name, default, assertion) if _G[name] == nil and default ~= nil then _G[name] = default else assertion(name) end end",
    "is_string": "function is_string(name) assert(type(_G[name]) == 'string', name .. ' must be a string') end",
    "is_nil_or_string": "function is_nil_or_string(name) assert(_G[name] == nil or type(_G[name]) == 'string', name .. ' must be nil or a string') end",
    "is_positive": "function is_positive(name) local value = _G[name] assert( type(value) == 'number' and math.floor(value) == value and value >= 0, name .. ' must be a positive integer' ) end",
    "is_set_of_strings": "function is_set_of_strings(name) local value = _G[name] assert(type(value) == 'table', name .. ' must be a table') for key, _ in pairs(value) do assert(type(key) == 'string', name .. ' must contain only string keys') end end",
}
PREDS = {"is_string": "TString", "is_nil_or_string": "TNilOrString", "is_positive": "TPositive", "is_set_of_strings": "TSetOfStrings"}


class Refuse(Exception):
    pass


def weave(text):
    """exactly lua/weave.awk"""
    pre, post = [], []
    mode = None
    for line in text.split("\n"):
        if line == "```":
            mode = None
        if mode == "pre":
            pre.append(line)
        elif mode == "post":
            post.append(line)
        if line.startswith('```lua title="pre-config"'):
            mode = "pre"
        elif line.startswith('```lua title="post-config"'):
            mode = "post"
    return pre, post


def coq_str(s):
    return 's "%s"' % s.replace('"', '""')


def parse_number(t):
    m = re.fullmatch(r"(\d+)\^(\d+)", t)
    if m:
        return int(m.group(1)) ** int(m.group(2))
    if re.fullmatch(r"\d+", t):
        return int(t)
    raise Refuse("number literal outside the grammar: %r" % t)


def parse_pre(lines):
    out = []
    i = 0
    while i < len(lines):
        l = lines[i].strip()
        i += 1
        if not l:
            continue
        m = re.fullmatch(r"(\w+)\s*=\s*(.*)", l)
        if not m:
            raise Refuse("pre-config line outside the grammar: %r" % l)
        name, rhs = m.group(1), m.group(2)
        if rhs == "{}":
            out.append((name, "VTab []"))
        elif rhs == "{":
            keys = []
            while True:
                if i >= len(lines):
                    raise Refuse("unterminated table for %s" % name)
                e = lines[i].strip()
                i += 1
                if e == "}":
                    break
                m2 = re.fullmatch(r"(?:(\w+)|\['([^']*)'\])\s*=\s*true,?", e)
                if not m2:
                    raise Refuse("table entry outside the grammar: %r" % e)
                keys.append(m2.group(1) or m2.group(2))
            out.append((name, "VTab [%s]" % "; ".join("(KStr (%s), VBool true)" % coq_str(k) for k in keys)))
        elif re.fullmatch(r"'[^']*'", rhs):
            out.append((name, "VStr (%s)" % coq_str(rhs[1:-1])))
        else:
            out.append((name, "VInt %d" % parse_number(rhs)))
    return out


def parse_expr(t):
    t = t.strip()
    if ".." in t:
        parts = [p.strip() for p in t.split("..")]
        e = parse_expr(parts[0])
        for p in parts[1:]:
            e = "DConcat (%s) (%s)" % (e, parse_expr(p))
        return e
    if "*" in t:
        parts = [p.strip() for p in t.split("*")]
        e = parse_expr(parts[0])
        for p in parts[1:]:
            e = "DMul (%s) (%s)" % (e, parse_expr(p))
        return e
    if t == "nil":
        return "DNil"
    if re.fullmatch(r"'[^']*'", t):
        return "DStr (%s)" % coq_str(t[1:-1])
    if re.fullmatch(r"\d+(\^\d+)?", t):
        return "DInt %d" % parse_number(t)
    if re.fullmatch(r"[A-Za-z_]\w*", t):
        return "DVar (%s)" % coq_str(t)
    raise Refuse("default expression outside the grammar: %r" % t)


def parse_post(lines):
    decls = []
    funcs = {}
    i = 0
    while i < len(lines):
        l = lines[i]
        i += 1
        if not l.strip():
            continue
        m = re.match(r"function (\w+)\(", l)
        if m:
            body = [l.strip()]
            depth = 1
            while depth > 0:
                if i >= len(lines):
                    raise Refuse("unterminated function %s" % m.group(1))
                b = lines[i].strip()
                i += 1
                if not b:
                    continue
                body.append(b)
                depth += len(re.findall(r"\b(if|for|function|while)\b", b)) - len(re.findall(r"\bend\b", b))
            funcs[m.group(1)] = " ".join(body)
            continue
        m = re.fullmatch(r"declare\('(\w+)',\s*(.*),\s*(\w+)\)", l.strip())
        if not m:
            raise Refuse("post-config line outside the grammar: %r" % l)
        if m.group(3) not in PREDS:
            raise Refuse("unknown type predicate %s" % m.group(3))
        decls.append((m.group(1), parse_expr(m.group(2)), PREDS[m.group(3)]))
    for name, exp in EXPECTED_FUNCS.items():
        got = re.sub(r"\s+", " ", funcs.get(name, "")).strip()
        if got != exp:
            raise Refuse("function %s differs from the one the model interprets:\n  found:    %s\n  expected: %s" % (name, got, exp))
    extra = set(funcs) - set(EXPECTED_FUNCS)
    if extra:
        raise Refuse("unexpected functions in post-config: %s" % sorted(extra))
    return decls


def main():
    out = os.path.join(V, "coq", "generated", "ConfigTable.v")
    os.makedirs(os.path.dirname(out), exist_ok=True)
    try:
        text = open(os.path.join(REPO, "lua", "config.lua.md")).read()
        pre, post = weave(text)
        pre_config = parse_pre(pre)
        decls = parse_post(post)
        body = ["(* GENERATED by tools/gen_config.py from lua/config.lua.md -- do not edit *)",
                "From K Require Import ConfigDefs.", "",
                "Definition pre_config : list (str * value) := ["]
        body.append(";\n".join("  (%s, %s)" % (coq_str(n), v) for n, v in pre_config))
        body.append("].\n\nDefinition decls : list decl := [")
        body.append(";\n".join("  mkDecl (%s) (%s) %s" % (coq_str(n), d, t) for n, d, t in decls))
        body.append("].")
        new = "\n".join(body) + "\n"
    except (Refuse, OSError) as e:
        sys.stderr.write("gen_config: cannot translate lua/config.lua.md: %s\n" % e)
        new = ("(* GENERATED by tools/gen_config.py: the translator REFUSED lua/config.lua.md:\n   %s *)\n"
               "From K Require Import ConfigDefs.\nDefinition translator_refused : unit := tt.\n" % str(e).replace("*)", "* )"))
        old = open(out).read() if os.path.exists(out) else None
        if old != new:
            open(out, "w").write(new)
        return False
    old = open(out).read() if os.path.exists(out) else None
    if old != new:
        open(out, "w").write(new)
    return True


if __name__ == "__main__":
    sys.exit(0 if main() else 1)
