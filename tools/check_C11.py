"""C11 A quiet project gets one snapshot of hard links to its latest versions."""
import random

import world_check as wk
import world_common as wc

MON = ["projects", "store_immutable", "faithful", "queue_form", "fault_reported", "no_error"]


def gen_nested_case(rng):
    """a project parent configured INSIDE a configured project root (a monorepo with packages): a file below a child of
    the parent belongs to that child - the deeper project -, a file directly in the root to the root"""
    s = wc.Script()
    W = wc.WATCH
    wc.setup_world(s, wc.base_cfg(deb=0, project_roots=[W + "/mono"], project_parents=[W + "/mono/packages"]))
    s.start()
    s.exec(3, wc.X + "/vim")
    files = {"a": ["x.c", "src/y.c"], "b": ["z.c"]}
    expect = []
    n = 0
    for _ in range(rng.randint(2, 6)):
        child = rng.choice(sorted(files))
        rel = rng.choice(files[child])
        n += 1
        s.put("%s/mono/packages/%s/%s" % (W, child, rel), "v%d" % n)
        s.write(3, "%s/mono/packages/%s/%s" % (W, child, rel))
        if (child, rel) not in expect:
            expect.append((child, rel))
        if rng.random() < 0.3:
            s.put(W + "/mono/top.c", "t%d" % n)
            s.write(3, W + "/mono/top.c")
        if rng.random() < 0.4:
            s.tick(1)
            s.dump()
            s.timeout()
            s.dump()
    s.tick(1)
    s.dump()
    s.timeout()
    s.dump()
    return s.text(), {"nested": expect}


def mon_nested(steps, meta):
    """every child of the project parent in which a file was versioned has, after the last pass, a snapshot of its own
    (project store/<child>/<version>) holding that file at its path within the child"""
    dumps = [st.dump for st in steps if st.dump is not None]
    if not dumps or not meta.get("nested"):
        return None
    last = dumps[-1]
    for child, rel in meta["nested"]:
        snaps = [p for p, e in last.items() if e[0] == "dir" and p.startswith("/k/projects/%s/" % child) and p.count("/") == 4]
        if not any((sd + "/" + rel) in last for sd in snaps):
            where = sorted(p for p in last if p.startswith("/k/projects/") and p.endswith("/" + rel.rsplit("/", 1)[-1]))
            return ("packages/%s/%s was versioned as part of the project '%s' (a child of the configured project parent) and the project is quiet, but no snapshot "
                    "of '%s' holds it (it is in: %s)" % (child, rel, child, child, where or "no snapshot at all"))
    return None


wk.MONITORS["nested"] = mon_nested


def gen_same_name_case(rng):
    """two configured projects whose roots end in the same component (x/proj and y/proj): each is a project of its own"""
    s = wc.Script()
    W = wc.WATCH
    wc.setup_world(s, wc.base_cfg(deb=0, project_roots=[W + "/x/proj", W + "/y/proj"], project_parents=[]))
    s.start()
    s.exec(3, wc.X + "/vim")
    first, second = rng.sample(["x", "y"], 2)
    s.put("%s/%s/proj/a.c" % (W, first), "A1")
    s.write(3, "%s/%s/proj/a.c" % (W, first))
    s.put("%s/%s/proj/b.c" % (W, second), "B1")
    s.write(3, "%s/%s/proj/b.c" % (W, second))
    s.tick(1)
    s.dump()
    s.timeout()
    s.dump()
    # later only the first project is touched again: its snapshot must still hold a.c
    s.put("%s/%s/proj/c.c" % (W, first), "C1")
    s.write(3, "%s/%s/proj/c.c" % (W, first))
    s.tick(1)
    s.dump()
    s.timeout()
    s.dump()
    return s.text(), {"twin": (first, ["a.c", "c.c"])}


def mon_twin(steps, meta):
    """the snapshot taken for the project that was written last holds every member of THAT project that was versioned
    and still exists (here a.c and c.c) - whatever another project with the same last component did in between"""
    if not meta.get("twin"):
        return None
    dumps = [st.dump for st in steps if st.dump is not None]
    if len(dumps) < 2:
        return None
    prev, last = dumps[-2], dumps[-1]
    which, members = meta["twin"]
    new = [p for p, e in last.items() if e[0] == "dir" and p not in prev and p.startswith("/k/projects/proj/") and p.count("/") == 4]
    if len(new) != 1:
        return "twin projects: %d new snapshot directories for the one project that was quiet (%s)" % (len(new), new)
    lack = [m for m in members if (new[0] + "/" + m) not in last]
    if lack:
        return ("twin projects: the snapshot %s of project %s/proj lacks %s, which was versioned as part of it and still exists (another project whose root "
                "also ends in 'proj' was snapshotted in between)" % (new[0], which, lack))
    return None


wk.MONITORS["twin"] = mon_twin


def gen_vanish_case(rng):
    """the whole project directory goes away (deleted or moved) while its snapshot is pending; later the project is put
    back by something klunok does not version (a copy, a clone) and one of its files is versioned again: files that
    were deleted and have not been versioned since stay out of the new snapshot"""
    s = wc.Script()
    W = wc.WATCH
    wc.setup_world(s, wc.base_cfg(deb=rng.choice([0, 1])))
    s.start()
    s.exec(3, wc.X + "/vim")
    if rng.random() < 0.4:
        s.add("ftsrev 1")
    root, name = rng.choice([(W + "/proj", "proj"), (W + "/pp/p1", "p1")])
    pool = ["README", "src/m.c", "src/deep/x/y.h", "sub/g.c", "f.c"]
    members = rng.sample(pool, rng.randint(2, 4))
    n = 0
    for m in members:
        n += 1
        s.put(root + "/" + m, "v%d" % n)
        s.write(3, root + "/" + m)
    s.tick(2)
    s.dump()
    s.timeout()
    s.dump()
    # one more save, then the project disappears with its snapshot still owed
    again = rng.choice(members)
    n += 1
    s.put(root + "/" + again, "v%d" % n)
    s.write(3, root + "/" + again)
    if rng.random() < 0.5:
        s.tick(2)
        s.dump()
        s.timeout()      # the file is stored, ...
        s.dump()
        n += 1
        s.put(root + "/" + again, "v%d" % n)
        s.write(3, root + "/" + again)
    dirs = set()
    for m in members:
        s.rm(root + "/" + m)
        d = m.rsplit("/", 1)[0] if "/" in m else ""
        while d:
            dirs.add(d)
            d = d.rsplit("/", 1)[0] if "/" in d else ""
    for d in sorted(dirs, key=lambda x: -x.count("/")):
        s.add("rmdir %s" % wc.hexs(root + "/" + d))
    s.add("rmdir %s" % wc.hexs(root))
    s.tick(2)
    s.dump()
    s.timeout()
    s.dump()
    if rng.random() < 0.3:
        s.restart()
        s.exec(3, wc.X + "/vim")
    # the project comes back: every old member is put in place (not versioned), one file is saved with an editor
    for m in members:
        s.put(root + "/" + m, "restored " + m)
    saved = rng.choice(members + ["new.c"])
    s.put(root + "/" + saved, "saved after the return")
    s.write(3, root + "/" + saved)
    s.tick(2)
    s.dump()
    s.timeout()
    s.dump()
    return s.text(), {}


def mon_deleted_absent(steps, meta):
    """files deleted from the project are absent from later snapshots: a member that did not exist when the project's
    pending entry was taken off the queue by an untroubled pass, and of which no version has been stored since, is in
    no later snapshot"""
    prev = None
    between = []
    dropped = {}     # (project, member) -> versions it had when it was found deleted
    for st in steps:
        if st.op in wk.HANDLER_OPS:
            between.append(st)
        if st.dump is None:
            continue
        cur = st.dump
        if prev is not None and st.tag_same_env:
            for sdir in [p for p, e in cur.items() if e[0] == "dir" and p not in prev and wk.re.match(r"^/k/projects/[^/]+/[^/]+$", p)]:
                name = sdir.split("/")[3]
                root = wk.PROJECTS.get(name)
                if root is None:
                    continue
                for p, e in cur.items():
                    if p.startswith(sdir + "/") and e[0] == "file":
                        m = p[len(sdir) + 1:]
                        vdir = "/k/store/%s/" % (root + "/" + m)[len("/w/"):]
                        vers = sorted(q for q in cur if q.startswith(vdir))
                        if dropped.get((name, m)) == vers:
                            return ("snapshot %s contains %s, which had been deleted from the project when the project's earlier pending snapshot was handled and "
                                    "of which no version has been stored since (its versions are still %s): a deleted file came back into a later snapshot"
                                    % (sdir, m, [v.rsplit("/", 1)[1] for v in vers]))
            if len(between) == 1 and between[0].op == "timeout" and (between[0].result or "").startswith("pause"):
                left = {x[1] for x in wk.queue_of(cur)}
                qp = wk.queue_of(prev)
                for qi, (_, num, path, mm, mt) in enumerate(qp):
                    if not (mm & 1) or num in left or any(x[2] == path for x in qp[qi + 1:]):
                        continue
                    name = path.rstrip("/").rsplit("/", 1)[1]
                    root = wk.PROJECTS.get(name)
                    if root is None:
                        continue
                    pre = "/k/var/projects/%s/" % name
                    for p, e in prev.items():
                        if p.startswith(pre) and e[0] == "file":
                            m = p[len(pre):]
                            if (root + "/" + m) not in prev and (root + "/" + m) not in cur:
                                vdir = "/k/store/%s/" % (root + "/" + m)[len("/w/"):]
                                dropped[(name, m)] = sorted(q for q in cur if q.startswith(vdir))
        between = []
        prev = cur
    return None


wk.MONITORS["deleted_absent"] = mon_deleted_absent


def gen_vanished_subdir_case(rng):
    """a directory of a project holds versioned files AND sub-directories with versioned files; the sub-directories are
    deleted, one file is saved again: the snapshot holds every file that still exists - wherever the walk meets it"""
    s = wc.Script()
    W = wc.WATCH
    wc.setup_world(s, wc.base_cfg(deb=0))
    s.start()
    s.exec(3, wc.X + "/vim")
    if rng.random() < 0.5:
        s.add("ftsrev 1")
    root = rng.choice([W + "/proj", W + "/pp/p1"])
    keep = ["docs/a%02d.txt" % i for i in range(4)] + ["docs/z%02d.txt" % i for i in range(4)] + ["top.c"]
    gone = ["docs/mid1/x.txt", "docs/mid2/y.txt", "docs/00first/w.txt", "docs/zzlast/v.txt"]
    for m in keep + gone:
        s.put(root + "/" + m, "one " + m)
        s.write(3, root + "/" + m)
    s.tick(1)
    s.dump()
    s.timeout()
    s.dump()
    for m in rng.sample(gone, rng.randint(1, 4)):
        s.rm(root + "/" + m)
        s.add("rmdir %s" % wc.hexs(root + "/" + m.rsplit("/", 1)[0]))
    s.put(root + "/top.c", "two")
    s.write(3, root + "/top.c")
    s.tick(1)
    s.dump()
    s.timeout()
    s.dump()
    s.put(root + "/docs/a00.txt", "three")
    s.write(3, root + "/docs/a00.txt")
    s.tick(1)
    s.dump()
    s.timeout()
    s.dump()
    return s.text(), {}


def gen_relative_case(rng):
    """project roots and parents configured RELATIVELY to the common parent of the watch roots ('proj', 'pp'), and saves
    of files that are no members: their paths merely begin with the same characters (proj-notes.txt, proj2/b.txt,
    ppx/q/f.c) - no project is snapshotted for them"""
    s = wc.Script()
    W = wc.WATCH
    wc.setup_world(s, wc.base_cfg(deb=rng.choice([0, 1]), project_roots=["proj"], project_parents=["pp"]))
    s.start()
    s.exec(3, wc.X + "/vim")
    members = [W + "/proj/a.c", W + "/proj/src/m.c", W + "/pp/p1/f.c"]
    others = [W + "/proj-notes.txt", W + "/proj2/b.txt", W + "/projx", W + "/pp2/q/f.c", W + "/ppx/p1/f.c", W + "/pp-old/p1/g.c", W + "/proj.bak/a.c"]
    n = 0
    for m in rng.sample(members, rng.randint(1, 3)):
        n += 1
        s.put(m, "m%d" % n)
        s.write(3, m)
    s.tick(2)
    s.dump()
    s.timeout()
    s.dump()
    for _ in range(rng.randint(2, 5)):
        for f in rng.sample(others, rng.randint(1, 3)):
            n += 1
            s.put(f, "o%d" % n)
            s.write(3, f)
        s.tick(2)
        s.dump()
        s.timeout()
        s.dump()
        if rng.random() < 0.3:
            m = rng.choice(members)
            n += 1
            s.put(m, "m%d" % n)
            s.write(3, m)
            s.tick(2)
            s.dump()
            s.timeout()
            s.dump()
    return s.text(), {}


def mon_snapshot_needs_write(steps, meta):
    """'when a project has been quiet ... exactly one new snapshot': a snapshot of a project appears only if a write to
    a file BELOW ITS ROOT was accepted since its previous snapshot - saves of files elsewhere, however their names
    begin, snapshot nothing"""
    if meta.get("twin"):
        return None
    prev = None
    since = {}       # project -> accepted writes below its root not yet covered by a snapshot
    after_pass = {}  # project -> accepted writes since the last timeout operation
    for st in steps:
        if st.op == "write" and st.result == "ok" and len(st.tok) > 2 and any(l.split(" ")[1:2] == ["symlinkat"] for l in st.log):
            rel = wk.unhexs(st.tok[2])[len(wk.CANON_ROOT):]
            for name, root in wk.PROJECTS.items():
                if rel.startswith(root + "/"):
                    since[name] = since.get(name, 0) + 1
                    after_pass[name] = after_pass.get(name, 0) + 1
        elif st.op == "timeout":
            after_pass = {}
        if st.dump is None:
            continue
        cur = st.dump
        if prev is not None:
            for sdir in [p for p, e in cur.items() if e[0] == "dir" and p not in prev and wk.re.match(r"^/k/projects/[^/]+/[^/]+$", p)]:
                name = sdir.split("/")[3]
                if name not in wk.PROJECTS:
                    continue
                if not since.get(name):
                    return ("snapshot %s of project %s appeared although no write below %s has been accepted since the project's previous snapshot"
                            % (sdir, name, wk.PROJECTS[name]))
                since[name] = after_pass.get(name, 0)
        prev = cur
    return None


wk.MONITORS["snapshot_needs_write"] = mon_snapshot_needs_write


def known(meta, msg):
    import vlib
    for k in vlib.known_findings().get("open", []):
        if k["property"] == "C11" and k.get("signature") == "same-last-component" and meta.get("twin") and "twin projects" in msg:
            return k["id"]
    return None


def main(rep):
    rng = random.Random(rep.seed)
    n = 250 if rep.tier == "quick" else 5000
    cases = []
    for i in range(n):
        t, m = wc.gen_project_case(rng)
        cases.append(("p%d" % i, t, m))
    for i in range(max(10, n // 12)):
        t, m = gen_nested_case(rng)
        cases.append(("n%d" % i, t, m))
    for i in range(4):
        t, m = gen_same_name_case(rng)
        cases.append(("t%d" % i, t, m))
    for i in range(max(8, n // 25)):
        t, m = gen_vanish_case(rng)
        cases.append(("v%d" % i, t, m))
    for i in range(max(8, n // 25)):
        t, m = gen_relative_case(rng)
        cases.append(("r%d" % i, t, m))
    for i in range(max(8, n // 25)):
        t, m = gen_vanished_subdir_case(rng)
        cases.append(("vs%d" % i, t, m))
    wk.standard_main(rep, cases=cases, monitors=["twin"] + MON + ["nested", "deleted_absent", "snapshot_needs_write"], known=known,
                     rule=("a configured project root and two children of a project parent, files at depth 1-4, a loose file in the parent and a non-project "
                           "file, writes, deletions, passes, restarts, both traversal orders of the tree walk; the monitor checks every new snapshot directory: "
                           "each entry is the same inode as the latest version of that member, every versioned member that still exists is present, deleted "
                           "ones are absent, earlier snapshots untouched; plus a project parent nested inside a project root: each child in which a file was versioned gets a snapshot of its own; plus two projects whose roots end in the same component (open finding K6); plus a project whose whole directory disappears with a snapshot pending and is later put back by something that is not versioned: files found deleted then, and not versioned since, are in no later snapshot; plus project roots and parents given relatively, with saves of non-members whose paths begin with the same characters: a snapshot appears only after an accepted write below the project's root"))


def replay(rep, path):
    return wk.replay_world(rep, path, ["twin"] + MON + ["nested", "deleted_absent", "snapshot_needs_write"])
