"""C11 A quiet project gets one snapshot of hard links to its latest versions."""
import random

import world_check as wk
import world_common as wc

MON = ["projects", "store_immutable", "faithful", "queue_form", "fault_reported", "no_error"]


def gen_nested_case(rng):
    """a project parent configured INSIDE a configured project root (a monorepo with packages): a file below a child of
    the parent belongs to that child - the deeper project -, a file directly in the root to the root"""
    s = wc.Script()
    W = wc.WATCH
    wc.setup_world(s, wc.base_cfg(deb=0, project_roots=[W + "/mono"], project_parents=[W + "/mono/packages"]))
    s.start()
    s.exec(3, wc.X + "/vim")
    files = {"a": ["x.c", "src/y.c"], "b": ["z.c"]}
    expect = []
    n = 0
    for _ in range(rng.randint(2, 6)):
        child = rng.choice(sorted(files))
        rel = rng.choice(files[child])
        n += 1
        s.put("%s/mono/packages/%s/%s" % (W, child, rel), "v%d" % n)
        s.write(3, "%s/mono/packages/%s/%s" % (W, child, rel))
        if (child, rel) not in expect:
            expect.append((child, rel))
        if rng.random() < 0.3:
            s.put(W + "/mono/top.c", "t%d" % n)
            s.write(3, W + "/mono/top.c")
        if rng.random() < 0.4:
            s.tick(1)
            s.dump()
            s.timeout()
            s.dump()
    s.tick(1)
    s.dump()
    s.timeout()
    s.dump()
    return s.text(), {"nested": expect}


def mon_nested(steps, meta):
    """every child of the project parent in which a file was versioned has, after the last pass, a snapshot of its own
    (project store/<child>/<version>) holding that file at its path within the child"""
    dumps = [st.dump for st in steps if st.dump is not None]
    if not dumps or not meta.get("nested"):
        return None
    last = dumps[-1]
    for child, rel in meta["nested"]:
        snaps = [p for p, e in last.items() if e[0] == "dir" and p.startswith("/k/projects/%s/" % child) and p.count("/") == 4]
        if not any((sd + "/" + rel) in last for sd in snaps):
            where = sorted(p for p in last if p.startswith("/k/projects/") and p.endswith("/" + rel.rsplit("/", 1)[-1]))
            return ("packages/%s/%s was versioned as part of the project '%s' (a child of the configured project parent) and the project is quiet, but no snapshot "
                    "of '%s' holds it (it is in: %s)" % (child, rel, child, child, where or "no snapshot at all"))
    return None


wk.MONITORS["nested"] = mon_nested


def gen_same_name_case(rng):
    """two configured projects whose roots end in the same component (x/proj and y/proj): each is a project of its own"""
    s = wc.Script()
    W = wc.WATCH
    wc.setup_world(s, wc.base_cfg(deb=0, project_roots=[W + "/x/proj", W + "/y/proj"], project_parents=[]))
    s.start()
    s.exec(3, wc.X + "/vim")
    first, second = rng.sample(["x", "y"], 2)
    s.put("%s/%s/proj/a.c" % (W, first), "A1")
    s.write(3, "%s/%s/proj/a.c" % (W, first))
    s.put("%s/%s/proj/b.c" % (W, second), "B1")
    s.write(3, "%s/%s/proj/b.c" % (W, second))
    s.tick(1)
    s.dump()
    s.timeout()
    s.dump()
    # later only the first project is touched again: its snapshot must still hold a.c
    s.put("%s/%s/proj/c.c" % (W, first), "C1")
    s.write(3, "%s/%s/proj/c.c" % (W, first))
    s.tick(1)
    s.dump()
    s.timeout()
    s.dump()
    return s.text(), {"twin": (first, ["a.c", "c.c"])}


def mon_twin(steps, meta):
    """the snapshot taken for the project that was written last holds every member of THAT project that was versioned
    and still exists (here a.c and c.c) - whatever another project with the same last component did in between"""
    if not meta.get("twin"):
        return None
    dumps = [st.dump for st in steps if st.dump is not None]
    if len(dumps) < 2:
        return None
    prev, last = dumps[-2], dumps[-1]
    which, members = meta["twin"]
    new = [p for p, e in last.items() if e[0] == "dir" and p not in prev and p.startswith("/k/projects/proj/") and p.count("/") == 4]
    if len(new) != 1:
        return "twin projects: %d new snapshot directories for the one project that was quiet (%s)" % (len(new), new)
    lack = [m for m in members if (new[0] + "/" + m) not in last]
    if lack:
        return ("twin projects: the snapshot %s of project %s/proj lacks %s, which was versioned as part of it and still exists (another project whose root "
                "also ends in 'proj' was snapshotted in between)" % (new[0], which, lack))
    return None


wk.MONITORS["twin"] = mon_twin


def known(meta, msg):
    import vlib
    for k in vlib.known_findings().get("open", []):
        if k["property"] == "C11" and k.get("signature") == "same-last-component" and meta.get("twin") and "twin projects" in msg:
            return k["id"]
    return None


def main(rep):
    rng = random.Random(rep.seed)
    n = 250 if rep.tier == "quick" else 5000
    cases = []
    for i in range(n):
        t, m = wc.gen_project_case(rng)
        cases.append(("p%d" % i, t, m))
    for i in range(max(10, n // 12)):
        t, m = gen_nested_case(rng)
        cases.append(("n%d" % i, t, m))
    for i in range(4):
        t, m = gen_same_name_case(rng)
        cases.append(("t%d" % i, t, m))
    wk.standard_main(rep, cases=cases, monitors=["twin"] + MON + ["nested"], known=known,
                     rule=("a configured project root and two children of a project parent, files at depth 1-4, a loose file in the parent and a non-project "
                           "file, writes, deletions, passes, restarts, both traversal orders of the tree walk; the monitor checks every new snapshot directory: "
                           "each entry is the same inode as the latest version of that member, every versioned member that still exists is present, deleted "
                           "ones are absent, earlier snapshots untouched; plus a project parent nested inside a project root: each child in which a file was versioned gets a snapshot of its own; plus two projects whose roots end in the same component (open finding K6)"))


def replay(rep, path):
    return wk.replay_world(rep, path, ["twin"] + MON + ["nested"])
