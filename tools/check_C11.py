"""C11 A quiet project gets one snapshot of hard links to its latest versions."""
import random

import world_check as wk
import world_common as wc

MON = ["projects", "store_immutable", "faithful", "queue_form", "fault_reported", "no_error"]


def main(rep):
    rng = random.Random(rep.seed)
    n = 250 if rep.tier == "quick" else 5000
    cases = []
    for i in range(n):
        t, m = wc.gen_project_case(rng)
        cases.append(("p%d" % i, t, m))
    wk.standard_main(rep, cases=cases, monitors=MON,
                     rule=("a configured project root and two children of a project parent, files at depth 1-4, a loose file in the parent and a non-project "
                           "file, writes, deletions, passes, restarts, both traversal orders of the tree walk; the monitor checks every new snapshot directory: "
                           "each entry is the same inode as the latest version of that member, every versioned member that still exists is present, deleted "
                           "ones are absent, earlier snapshots untouched"))


def replay(rep, path):
    return wk.replay_world(rep, path, MON)
