"""Scripts, configurations and comparison for the world driver (handler level)."""
import copy
import random

import vlib
from vlib import CANON_ROOT, hexs, unhexs

R = CANON_ROOT
CLOCK0 = 1000000


def lua_str(s):
    assert "]==]" not in s and "\n" not in s
    return "[==[" + s + "]==]"


class Cfg:
    """A complete configuration: every setting assigned explicitly."""

    def __init__(self, **kw):
        self.editors = ["vim"]
        self.cluded = []
        self.included = []
        self.excluded = []
        self.history = []
        self.project_roots = []
        self.project_parents = []
        self.store = R + "/k/store"
        self.pstore = R + "/k/projects"
        self.unstable = R + "/k/var/projects"
        self.queue = R + "/k/var/queue"
        self.journal = R + "/k/var/journal"
        self.offsets = R + "/k/var/offsets"
        self.jpat = "%s"
        self.vpat = "v%s"
        self.deb = 2
        self.qguess = 4
        self.plen = 32
        self.maxpid = 4       # max_pid_guess, elf_interpreter_count_guess: sizing hints only (no counterpart in the model)
        self.elfguess = 1
        self.ev = ["xn", "xe", "wn", "we", "del", "forb", "st"]  # None = nil
        for k, v in kw.items():
            setattr(self, k, v)

    def lua(self):
        def tbl(l):
            return "{" + ",".join("[ %s ]=true" % lua_str(x) for x in l) + "}"
        names = ["event_open_exec_not_editor", "event_open_exec_editor", "event_close_write_not_by_editor",
                 "event_close_write_by_editor", "event_queue_head_deleted", "event_queue_head_forbidden",
                 "event_queue_head_stored"]
        lines = [
            "editors = " + tbl(self.editors), "cluded_paths = " + tbl(self.cluded),
            "included_paths = " + tbl(self.included), "excluded_paths = " + tbl(self.excluded),
            "history_paths = " + tbl(self.history), "project_roots = " + tbl(self.project_roots),
            "project_parents = " + tbl(self.project_parents),
            "store_root = " + lua_str(self.store), "project_store_root = " + lua_str(self.pstore),
            "unstable_project_store_root = " + lua_str(self.unstable), "queue_path = " + lua_str(self.queue),
            "journal_path = " + lua_str(self.journal), "offset_store_root = " + lua_str(self.offsets),
            "journal_timestamp_pattern = " + lua_str(self.jpat), "version_pattern = " + lua_str(self.vpat),
            "debounce_seconds = %d" % self.deb, "queue_size_guess = %d" % self.qguess,
            "path_length_guess = %d" % self.plen, "max_pid_guess = %d" % self.maxpid, "elf_interpreter_count_guess = %d" % self.elfguess,
        ]
        for n, v in zip(names, self.ev):
            lines.append("%s = %s" % (n, "nil" if v is None else lua_str(v)))
        return "\n".join(lines) + "\n"

    def line(self, cid):
        def sset(l):
            return ",".join(hexs(x) for x in l) if l else "-"
        kv = {
            "editors": sset(self.editors), "cluded": sset(self.cluded), "included": sset(self.included),
            "excluded": sset(self.excluded), "history": sset(self.history), "project_roots": sset(self.project_roots),
            "project_parents": sset(self.project_parents), "store": hexs(self.store), "pstore": hexs(self.pstore),
            "unstable": hexs(self.unstable), "queue": hexs(self.queue), "journal": hexs(self.journal),
            "offsets": hexs(self.offsets), "jpat": hexs(self.jpat), "vpat": hexs(self.vpat), "deb": str(self.deb),
            "qguess": str(self.qguess), "plen": str(self.plen),
        }
        for i, v in enumerate(self.ev):
            kv["ev%d" % i] = "-" if v is None else hexs(v)
        return "cfg %s %s" % (cid, " ".join("%s=%s" % x for x in kv.items()))


CFG_PATH = R + "/w/cfg/klunok.lua"
WATCH = R + "/w"
CPL = len(WATCH) + 1


class Script:
    def __init__(self, log=True):
        self.lines = ["root " + hexs(R)]
        if log:
            self.lines.append("log on")
        self.ncfg = 0
        self.clock = CLOCK0
        self.cfgid = None

    def add(self, l):
        self.lines.append(l)
        return self

    def config(self, cfg, valid=True):
        """writes the configuration file and tells the model what it parses to"""
        cid = "c%d" % self.ncfg
        self.ncfg += 1
        self.add(cfg.line(cid))
        self.add("put %s %s" % (hexs(CFG_PATH), hexs(cfg.lua() if valid else "this is not lua ((\n")))
        self.add("cfgbind %s" % (cid if valid else "invalid"))
        if valid:
            self.cfgid = cid
        return cid

    def start(self, cpl=None):
        if cpl is None:
            cpl = getattr(self, "cpl", CPL)
        # (the configuration path as it is given on the command line: canonical, or any other spelling of it)
        return self.add("start %s %d %s" % (self.cfgid, cpl, hexs(getattr(self, "cfg_spelling", CFG_PATH))))

    def put(self, path, content=""):
        return self.add("put %s %s" % (hexs(path), hexs(content)))

    def putforeign(self, path, content=""):
        """the file belongs to another user and is readable by everybody (a shared directory)"""
        return self.add("putforeign %s %s" % (hexs(path), hexs(content)))

    def putn(self, path, n, b=0):
        return self.add("putn %s %d %d" % (hexs(path), n, b))

    def append(self, path, content):
        return self.add("append %s %s" % (hexs(path), hexs(content)))

    def rm(self, path):
        return self.add("rm %s" % hexs(path))

    def mkdirp(self, path):
        return self.add("mkdirp %s" % hexs(path))

    def chmod(self, path, readable):
        return self.add("chmod %s %d" % (hexs(path), 1 if readable else 0))

    def write(self, pid, path):
        return self.add("write %d %s" % (pid, hexs(path)))

    def exec(self, pid, path):
        return self.add("exec %d %s" % (pid, hexs(path)))

    def timeout(self):
        return self.add("timeout")

    def tick(self, n):
        self.clock += n
        return self.add("tick %d" % n)

    def restart(self):
        self.add("stop")
        return self.start()

    def dump(self):
        return self.add("dump")

    def oracle(self, *a):
        return self.add("oracle " + " ".join(str(x) for x in a))

    def text(self):
        return "\n".join(self.lines)


def _known_texts():
    import os
    import re
    src = open(os.path.join(vlib.EXTRACT, "world.ml")).read()
    a = src.index("let msg_text")
    b = src.index("let errno_of_name")
    return set(re.findall(r'"([^"]+)"', src[a:b]))


KNOWN_TEXTS = None


def canon_trace(line):
    """messages that are not klunok's own or strerror's (Lua's) compare as '*'"""
    global KNOWN_TEXTS
    if KNOWN_TEXTS is None:
        KNOWN_TEXTS = _known_texts()
    out = []
    for tok in line.split()[1:]:
        kind, hx = tok.split(":", 1)
        if kind == "M" and unhexs(hx) not in KNOWN_TEXTS:
            tok = "M:" + hexs("*")
        out.append(tok)
    return "trace " + " ".join(out)


def comparable(lines):
    """drop implementation-only lines (X ...), canonicalise traces"""
    out = []
    for l in lines or []:
        if l.startswith("X "):
            continue
        if l.startswith("trace ") and l != "trace ok":
            l = canon_trace(l)
        out.append(l)
    return out


def parse_dump(lines):
    """list of dumps, each {relpath: tuple}"""
    dumps = []
    cur = None
    for l in lines:
        if l.startswith("D "):
            if cur is None:
                cur = {}
            t = l.split()
            cur[unhexs(t[1])] = tuple(t[2:])
        elif l == "dump-end":
            dumps.append(cur or {})
            cur = None
    return dumps


# ------------------------------------------------------------ scenario generators

X = R + "/x"
FILES = [WATCH + "/a.txt", WATCH + "/d/b", WATCH + "/.h/c.txt", WATCH + "/inc/x.tar.gz", WATCH + "/inc/secret",
         WATCH + "/hist.log", WATCH + "/proj/src/m.c", WATCH + "/proj/README", WATCH + "/pp/p1/f.c",
         WATCH + "/pp/p2/g", WATCH + "/pp/loose.txt", WATCH + "/.x", WATCH + "/n"]


def base_cfg(**kw):
    c = Cfg(included=[WATCH + "/inc", "d"], excluded=[WATCH + "/inc/secret"], history=[WATCH + "/hist.log"],
            project_roots=[WATCH + "/proj"], project_parents=[WATCH + "/pp"], cluded=[WATCH + "/.h"],
            editors=["vim", "ed"])
    for k, v in kw.items():
        setattr(c, k, v)
    return c


def elf_image_relocated(interp, phnum=3, pad=40):
    """an ELF64 image whose program header table does NOT follow the header (the layout patchelf and some linkers
    produce: e_phoff != 64): header, padding, the interpreter string, then the table with PT_INTERP as its last entry"""
    import struct
    ib = interp.encode("latin-1") + b"\0"
    data_off = 64 + pad
    phoff = data_off + len(ib)
    hdr = b"\x7fELF" + bytes([2, 1, 1, 0]) + bytes(8) + struct.pack("<HHIQQQIHHHHHH", 3, 62, 1, 0, phoff, 0, 0, 64, 56, phnum, 64, 0, 0)
    ph0 = struct.pack("<IIQQQQQQ", 1, 5, 0, 0, 0, 100, 100, 4096)
    ph1 = struct.pack("<IIQQQQQQ", 3, 4, data_off, 0, 0, len(ib), len(ib), 1)
    return (hdr + bytes(pad) + ib + b"".join([ph0] * (phnum - 1) + [ph1])).decode("latin-1")


def elf_image(interp, phnum=2, nul=True):
    """a minimal ELF64 image whose second program header is PT_INTERP"""
    import struct
    ib = interp.encode("latin-1") + (b"\0" if nul else b"")
    phoff = 64
    data_off = phoff + 56 * phnum
    hdr = b"\x7fELF" + bytes([2, 1, 1, 0]) + bytes(8) + struct.pack("<HHIQQQIHHHHHH", 2, 62, 1, 0, phoff, 0, 0, 64, 56, phnum, 64, 0, 0)
    assert len(hdr) == 64
    ph0 = struct.pack("<IIQQQQQQ", 1, 5, 0, 0, 0, 100, 100, 4096)
    ph1 = struct.pack("<IIQQQQQQ", 3, 4, data_off, 0, 0, len(ib), len(ib), 1)
    phs = [ph0, ph1] + [ph0] * (phnum - 2)
    return (hdr + b"".join(phs[:phnum]) + ib).decode("latin-1")


def setup_world(s, cfg=None):
    cfg = cfg or base_cfg()
    s.config(cfg)
    s.put(X + "/vim", "#!/bin/sh\n")
    s.put(X + "/cat", "#!/bin/sh\nexit\n")
    s.put(X + "/ld.so", "loader")
    s.put(X + "/elf/vim", elf_image(X + "/ld.so"))
    s.mkdirp(WATCH)
    return cfg


def gen_world_case(rng, nsteps=None, allow_reload=True, allow_restart=True, dump_around=False, log=True):
    s = Script(log=log)
    cfg = setup_world(s, base_cfg(deb=rng.choice([0, 1, 2, 3])))
    s.start()
    if rng.random() < 0.3:
        s.add("chunk %d" % rng.choice([1000, 4096, 65536]))
    if rng.random() < 0.3:
        s.add("ftsrev 1")
    exists = {}
    state = {"n": 0}

    def content():
        k = rng.random()
        if k < 0.1:
            return ""
        if k < 0.2:
            return None  # large
        return "".join(rng.choice("abc\n\xe9 ") for _ in range(rng.randint(1, 30)))

    def ensure(f):
        if exists.get(f) != "file":
            c = content()
            if c is None:
                s.putn(f, rng.choice([4095, 4096, 70000]), rng.randint(0, 25))
            else:
                s.put(f, c)
            exists[f] = "file"

    nsteps = nsteps or rng.randint(8, 40)
    for _ in range(nsteps):
        r = rng.random()
        f = rng.choice(FILES)
        pid = rng.choice([1, 2, 3, 5, 9, 70000])
        if r < 0.12:
            s.exec(pid, rng.choice([X + "/vim", X + "/cat", X + "/elf/vim", X + "/ld.so"]))
        elif r < 0.45:
            # a write to a file: make sure it is a file, possibly change it first
            if exists.get(f) == "dir":
                continue
            if exists.get(f) == "file":
                s.chmod(f, True)
            if exists.get(f) == "file" and rng.random() < 0.6:
                if f.endswith("hist.log"):
                    s.append(f, "".join(rng.choice("xyz\n") for _ in range(rng.randint(0, 12))))
                else:
                    c = content()
                    if c is None:
                        s.putn(f, 70000, rng.randint(0, 25))
                    else:
                        s.put(f, c)
            ensure(f)
            s.write(pid, f)
        elif r < 0.6:
            s.tick(rng.choice([0, 1, 1, 2, 3, 5]))
        elif r < 0.8:
            if dump_around:
                s.dump()
            s.timeout()
            if dump_around:
                s.dump()
        elif r < 0.84:
            if exists.get(f) == "file":
                s.rm(f)
                exists[f] = None
        elif r < 0.87:
            if exists.get(f) == "file":
                s.chmod(f, False)
        elif r < 0.89:
            if exists.get(f) == "file" and "/proj/" not in f and "/pp/" not in f and "/inc/" not in f and "/d/" not in f and "/.h/" not in f:
                s.rm(f)
                s.mkdirp(f)
                exists[f] = "dir"
        elif r < 0.93 and allow_restart:
            s.restart()
        elif r < 0.97 and allow_reload:
            cfg = copy.deepcopy(cfg)
            k = rng.random()
            if k < 0.3:
                cfg.deb = rng.choice([0, 1, 2, 5])
            elif k < 0.5:
                cfg.queue = R + "/k/var/queue%d" % rng.randint(2, 3)
            elif k < 0.7:
                cfg.journal = R + "/k/var/journal%d" % rng.randint(2, 3)
            elif k < 0.85:
                cfg.excluded = cfg.excluded + [WATCH + "/a.txt"]
            valid = k < 0.85
            s.config(cfg, valid=valid)
            s.write(rng.choice([1, 2]), CFG_PATH)
            if not valid:
                # the daemon would stop; restore a valid file so that the next start parses
                s.config(cfg, valid=True)
                s.restart()
        else:
            s.dump()
    s.tick(9)
    s.timeout()
    s.dump()
    return s.text()


# ------------------------------------------------------------ scenario families
# each scenario: dict(name, pre=[lines], ops=[handler op lines under test], post=[lines])

def _pre(cfg=None, log=True):
    s = Script(log=log)
    cfg = setup_world(s, cfg or base_cfg(deb=0))
    return s, cfg


# (the first pass after the restart runs in the same second as the disturbed one: whatever that one left behind
# under a version name is in the way and must be treated as a taken name; then time passes and everything is due)
POST_FAULT = ["dump", "stop", "start @CFG@", "timeout", "dump", "tick 9", "timeout", "dump", "timeout", "dump"]
POST_CRASH = ["start @CFG@", "dump", "timeout", "dump", "tick 9", "timeout", "dump", "timeout", "dump"]


def scenarios(tier="quick"):
    out = []

    def add(name, s, ops, nontrivial=True):
        start = "start %s %d %s" % (s.cfgid, CPL, hexs(CFG_PATH))
        out.append({"name": name, "pre": list(s.lines) + ["dump"], "ops": ops, "start": start})

    A, B, Hh = WATCH + "/inc/a.txt", WATCH + "/inc/b.txt", WATCH + "/hist.log"
    P1, P2 = WATCH + "/proj/src/m.c", WATCH + "/proj/README"

    s, _ = _pre(); s.put(A, "hello"); s.start()
    add("accept_plain", s, ["write 7 " + hexs(A)])

    s, _ = _pre(); s.put(P1, "int main;"); s.start(); s.exec(7, X + "/vim")
    add("accept_project", s, ["write 7 " + hexs(P1)])

    s, _ = _pre(); s.put(A, "hello"); s.start(); s.write(7, A)
    add("drain_one", s, ["timeout"])

    s, _ = _pre(); s.put(A, "hello"); s.put(B, "world!"); s.start(); s.write(7, A); s.write(7, B); s.write(8, A)
    add("drain_dup", s, ["timeout"])

    # a file saved EMPTY (truncated to nothing) is a file like any other: its - empty - version is owed
    s, _ = _pre(); s.put(A, ""); s.put(B, "world!"); s.start(); s.write(7, A); s.write(7, B)
    add("drain_empty", s, ["timeout"])

    s, _ = _pre(); s.put(A, "new content"); s.put(R + "/k/store/inc/a.txt/v1000000.txt", "old"); s.put(R + "/k/store/inc/a.txt/v1000000-1.txt", "old1")
    s.start(); s.write(7, A)
    add("drain_collision", s, ["timeout"])

    s, _ = _pre(); s.put(Hh, "line1\n"); s.start(); s.write(7, Hh)
    add("drain_history_first", s, ["timeout"])

    s, _ = _pre(); s.put(Hh, "line1\n"); s.start(); s.write(7, Hh); s.timeout(); s.append(Hh, "second line\n"); s.tick(1); s.write(7, Hh)
    add("drain_history_offset", s, ["timeout"])

    # the remembered position goes from 19 to 25: same number of digits, larger first digit (a rewrite in place
    # would pass through "29")
    s, _ = _pre(); s.put(Hh, "0123456789abcdefgh\n"); s.start(); s.write(7, Hh); s.timeout(); s.append(Hh, "ijklm\n"); s.tick(1); s.write(7, Hh)
    add("drain_history_19_25", s, ["timeout"])

    # a history path whose remembered position is gone (the volatile directory was lost, or it was never stored) and
    # whose first version name is taken by what an earlier life stored: the old version stays, the new one goes next to it
    s, _ = _pre(); s.put(Hh, "line1\n"); s.put(R + "/k/store/hist.log/v1000000.log", "stored in an earlier life"); s.start(); s.write(7, Hh)
    add("drain_history_collision", s, ["timeout"])

    # a path that WAS append-only history (a position is remembered for it) and is an ordinary included file under the
    # configuration now in force: it is rewritten as a whole and copied as a whole
    FH = WATCH + "/hd/notes.log"
    s, cfg = _pre(base_cfg(deb=0, history=[WATCH + "/hist.log", WATCH + "/hd"])); s.put(FH, "the first life of this file\n"); s.start(); s.write(7, FH); s.timeout(); s.tick(1)
    import copy as _c0
    c0 = _c0.deepcopy(cfg); c0.history = [WATCH + "/hist.log"]; c0.included = list(c0.included) + [WATCH + "/hd"]
    s.config(c0); s.write(1, CFG_PATH); s.put(FH, "rewritten as a whole, and longer than it was before\n"); s.write(7, FH)
    add("drain_former_history", s, ["timeout"])

    s, _ = _pre(); s.put(P1, "int main;"); s.put(P2, "readme"); s.start(); s.exec(7, X + "/vim"); s.write(7, P1); s.write(7, P2)
    add("drain_project", s, ["timeout"])

    s, _ = _pre(); s.put(P1, "int main;"); s.put(P2, "readme"); s.start(); s.exec(7, X + "/vim"); s.write(7, P1); s.write(7, P2); s.timeout()
    s.tick(1); s.rm(P2); s.put(P1, "int main2;"); s.write(7, P1)
    add("drain_project_second", s, ["timeout"])

    s, _ = _pre(); s.put(A, "hello"); s.start(); s.write(7, A); s.rm(A)
    add("drain_deleted", s, ["timeout"])

    s, _ = _pre(); s.put(A, "hello"); s.start(); s.write(7, A); s.chmod(A, False)
    add("drain_forbidden", s, ["timeout"])

    s, _ = _pre(); s.put(A, "hello"); s.start(); s.write(7, A); s.rm(A); s.mkdirp(A)
    add("drain_directory", s, ["timeout"])

    s, cfg = _pre(); s.put(A, "hello"); s.start(); s.write(7, A)
    import copy as _c
    c2 = _c.deepcopy(cfg); c2.queue = R + "/k/var/queue2"; c2.journal = R + "/k/var/journal2"; c2.deb = 1
    s.config(c2)
    add("reload_new_queue", s, ["write 1 " + hexs(CFG_PATH)])

    # a copy that takes several transfers (5000 bytes, at most 1000 per sendfile)
    s, _ = _pre(); s.putn(A, 5000, 7); s.start(); s.add("chunk 1000"); s.write(7, A)
    add("drain_chunked", s, ["timeout"])

    # the place of a version directory is taken by a stray regular file: the exclusive create fails with ENOTDIR, a
    # failure of the STORE, not a condition of the source: the pass reports it and keeps the entry; after the repair
    # and a restart the version is owed
    s, _ = _pre(); s.put(A, "hello"); s.put(R + "/k/store/inc/a.txt", "stray"); s.start(); s.write(7, A)
    add("drain_store_blocked", s, ["timeout"])
    out[-1]["repair"] = ["rm " + hexs(R + "/k/store/inc/a.txt")]

    # the queue is moved while it is empty; what is accepted AFTER the reload must be found by a restart
    # (which reads the configuration file, hence the new queue directory)
    s, cfg = _pre(); s.put(A, "hello"); s.put(B, "world!"); s.start()
    c2 = _c.deepcopy(cfg); c2.queue = R + "/k/var/queue2"; c2.deb = 1
    s.config(c2); s.write(1, CFG_PATH); s.write(7, A)
    add("accept_after_queue_move", s, ["write 7 " + hexs(B)])

    s, _ = _pre(base_cfg(deb=5)); s.put(A, "hello"); s.put(B, "world!"); s.start(); s.write(7, A); s.write(7, B); s.write(7, A); s.add("stop")
    add("start_existing_queue", s, ["start %s %d %s" % (s.cfgid, CPL, hexs(CFG_PATH))])

    # a queue whose pending links span a digit-count boundary (3 .. 12) is found by a restart
    s, _ = _pre(base_cfg(deb=5)); s.start()
    fl = [WATCH + "/inc/f%02d.txt" % i for i in range(13)]
    for i, f in enumerate(fl):
        s.put(f, "content %d" % i)
    for f in fl[:3]:
        s.write(7, f)
    s.tick(6)
    for f in fl[3:]:
        s.write(7, f)
    s.timeout(); s.add("stop")
    add("start_long_queue", s, ["start %s %d %s" % (s.cfgid, CPL, hexs(CFG_PATH))])

    s, _ = _pre(); s.start()
    add("exec_editor_elf", s, ["exec 5 " + hexs(X + "/elf/vim")])

    # an editor binary is executed (its loader is learnt from the image), then the process executes that loader and
    # writes: if the exec event was handled without an error, the process is still an editor and the write is queued
    s, _ = _pre(); s.put(WATCH + "/a.txt", "hello"); s.start()
    add("exec_then_loader", s, ["exec 5 " + hexs(X + "/elf/vim")])
    out[-1]["repair"] = ["exec 5 " + hexs(X + "/ld.so"), "write 5 " + hexs(WATCH + "/a.txt"), "dump"]

    if tier != "quick":
        s, _ = _pre(); s.putn(A, 70000, 3); s.start(); s.add("chunk 4096"); s.write(7, A)
        add("drain_large", s, ["timeout"])
        s, _ = _pre(); s.put(P1, "x"); s.mkdirp(R + "/k/projects/proj/v1000000"); s.start(); s.exec(7, X + "/vim"); s.write(7, P1)
        add("snapshot_collision", s, ["timeout"])
        s, _ = _pre(); s.put(A, "hello"); s.put(B, "world!"); s.start(); s.write(7, A); s.write(7, B)
        add("drain_two", s, ["timeout"])
    return out


def scenario_script(sc, oracle_line=None, crash=False):
    post = POST_CRASH if crash else POST_FAULT
    lines = list(sc["pre"])
    for op in sc["ops"]:
        if oracle_line:
            lines.append(oracle_line)
        lines.append(op)
    # what the administrator repairs before the restart (a scenario whose operation is meant to fail)
    lines += sc.get("repair", [])
    for l in post:
        lines.append(sc["start"] if l.startswith("start @CFG@") else l)
    return "\n".join(lines)


# ------------------------------------------------------------ property-specific history generators

def gen_burst_case(rng, deb=None):
    """C02: bursts of writes to several files, no reload; dumps around every timeout pass"""
    deb = rng.choice([0, 1, 2, 3]) if deb is None else deb
    s = Script()
    # a project root below a history directory: the deeper (project) rule decides, its files are ordinary files
    setup_world(s, base_cfg(deb=deb, history=[WATCH + "/hist.log", WATCH + "/hd"], project_roots=[WATCH + "/proj", WATCH + "/hd/proj2"]))
    s.start()
    s.exec(3, X + "/vim")
    files = [WATCH + "/inc/a.txt", WATCH + "/inc/b", WATCH + "/d/c.tar.gz", WATCH + "/n", WATCH + "/hist.log", WATCH + "/hd/proj2/f.c"]
    n = 0
    foreign = rng.random() < 0.35
    if rng.random() < 0.2:
        # the store is unusable for a while (a stray regular file where its root belongs): the pass must report the
        # failure and keep the item; after repair and restart exactly one version is owed
        f = rng.choice(files[:4])
        # (where the store root belongs, or where the directory of this file's versions belongs: then it is the
        # exclusive create of the version that fails, with ENOTDIR)
        stray = rng.choice([R + "/k/store", R + "/k/store" + f[len(WATCH):]])
        s.put(stray, "stray")
        s.put(f, "content 0")
        s.write(3, f)
        s.tick(deb + 1)
        s.dump()
        s.timeout()
        s.dump()
        s.rm(stray)
        s.restart()
        s.exec(3, X + "/vim")
        s.dump()
        s.timeout()
        s.dump()
    for _ in range(rng.randint(6, 30)):
        r = rng.random()
        if r < 0.5:
            f = rng.choice(files)
            for _ in range(rng.choice([1, 1, 2, 3])):
                n += 1
                if f.endswith("hist.log"):
                    s.append(f, "l%d\n" % n)
                else:
                    # (a file saved EMPTY is a file like any other: it gets its - empty - version)
                    # (one file in five belongs to another user - a group-writable file in a shared directory, saved
                    # there by a colleague's editor: readable, so it is versioned like any other)
                    (s.putforeign if (foreign and f == files[1]) else s.put)(f, "" if rng.random() < 0.1 else "content %d %s" % (n, "x" * rng.randint(0, 20)))
                s.write(3, f)
                if rng.random() < 0.3:
                    s.tick(rng.choice([0, 1]))
        elif r < 0.7:
            s.tick(rng.choice([0, 1, 1, 2, deb, deb + 1]))
        elif r < 0.93:
            s.dump()
            if rng.random() < 0.3:
                # every transfer of this pass is cut short: a copy takes several sendfile calls
                s.oracle("shortall", rng.choice([1, 2, 3, 5, 9]))
            s.timeout()
            s.dump()
        else:
            s.restart()
            s.exec(3, X + "/vim")      # (a restarted daemon knows no editors: the editor is started again)
    if rng.random() < 0.15:
        # a pending file whose directory has meanwhile been replaced by a regular file (a checkout that turns a
        # directory into a file): it is gone - an expected condition, the pass goes on with what is queued behind it
        g = WATCH + "/d/c.tar.gz"
        s.put(g, "content last")
        s.write(3, g)
        s.put(WATCH + "/n", "content behind it")
        s.write(3, WATCH + "/n")
        s.rm(g)
        s.add("rmdir %s" % hexs(WATCH + "/d"))
        s.put(WATCH + "/d", "now a regular file")
    s.tick(deb + 1)
    s.dump()
    s.timeout()
    s.dump()
    return s.text(), {"deb": deb, "all_writes_queued": True}


def gen_debounce_case(rng):
    """C01 at the level of the handler: the debounce interval is changed by rewriting the configuration file (same
    queue) while items are pending; every pass is judged with the interval in force"""
    import copy as _copy
    d0 = rng.choice([1, 2, 3, 5])
    s = Script()
    cfg = setup_world(s, base_cfg(deb=d0))
    s.start()
    s.exec(3, X + "/vim")
    files = [WATCH + "/inc/a.txt", WATCH + "/n", WATCH + "/inc/b"]
    n = 0
    for _ in range(rng.randint(6, 25)):
        r = rng.random()
        if r < 0.4:
            f = rng.choice(files)
            n += 1
            s.put(f, "content %d" % n)
            s.write(3, f)
        elif r < 0.6:
            s.tick(rng.choice([0, 1, 1, 2, max(cfg.deb - 1, 0), cfg.deb, cfg.deb + 1]))
        elif r < 0.75:
            cfg = _copy.deepcopy(cfg)
            cfg.deb = rng.choice([d for d in [0, 1, 2, 3, 5, 30] if d != cfg.deb])
            s.config(cfg)
            s.write(4, CFG_PATH)       # written by a non-editor: the reload happens, the file itself is not queued
        else:
            s.dump()
            s.timeout()
            s.dump()
    s.tick(cfg.deb + 1)
    s.dump()
    s.timeout()
    s.dump()
    return s.text(), {"deb": d0}


def gen_collision_case(rng):
    """C04: many versions inside one timestamp, pre-existing store content, restarts"""
    s = Script()
    # version patterns as an administrator writes them: plain, with dots (dates), dot-led
    vpat = rng.choice(["v%s", "v%s", "v%s", "r.%s", "%s.d", ".%s"])
    setup_world(s, base_cfg(deb=0, vpat=vpat))
    ver = vpat.replace("%s", str(CLOCK0))
    # (also a file six directories down whose names are 50 characters each: every component is short, the whole store
    # path is not)
    DEEP = WATCH + "/inc/" + "/".join(c * 50 for c in "pqrstu") + "/deep.txt"
    f = rng.choice([WATCH + "/inc/a.txt", WATCH + "/inc/b", WATCH + "/inc/x.tar.gz", WATCH + "/proj/m.c", DEEP])
    rel = f[len(WATCH) + 1:]
    ext = {"a.txt": ".txt", "b": "", "x.tar.gz": ".tar.gz", "m.c": ".c", "deep.txt": ".txt"}[rel.rsplit("/", 1)[1]]
    # pre-seed the store with names the daemon will want
    if rng.random() < 0.08:
        # a long run of taken names: the first free one is far away (-64, -65, -70, -130)
        for k in range(rng.choice([64, 65, 70, 130])):
            s.put("%s/k/store/%s/%s%s%s" % (R, rel, ver, "-%d" % k if k else "", ext), "old %d" % k)
        # ... and the process may hold 40 descriptors: probing any number of taken names must not use them up
        s.add("nofile 40")
    for k in rng.sample(range(0, 6), rng.randint(0, 4)):
        # (an existing version may be EMPTY - the file was saved empty: it is a version like any other)
        s.put("%s/k/store/%s/%s%s%s" % (R, rel, ver, "-%d" % k if k else "", ext), "" if rng.random() < 0.3 else "old %d" % k)
    if rng.random() < 0.3:
        s.mkdirp("%s/k/store/%s/%s-%d%s" % (R, rel, ver, rng.randint(1, 3), ext))   # a directory takes a name
    if rng.random() < 0.2:
        # a symbolic link whose target does not exist takes a name (a hand-made alias, a broken restore): it is an
        # entry of the store like any other - not followed, not replaced
        s.add("symlink %s %s %d" % (hexs("%s/k/store/%s/%s%s%s" % (R, rel, ver, rng.choice(["", "-1", "-2"]), ext)), hexs("/kvnx/gone"), CLOCK0 - 7))
    s.start()
    s.exec(3, X + "/vim")
    s.dump()
    # a second file (same extension) stored in the same timestamps: its names are searched independently
    d_, b_ = f.rsplit("/", 1)
    f2 = d_ + "/" + b_.split(".", 1)[0] + "2" + b_[len(b_.split(".", 1)[0]):]
    for i in range(rng.randint(2, 12)):
        s.put(f, "" if rng.random() < 0.15 else "version %d" % i)
        s.write(3, f)
        if rng.random() < 0.3:
            s.put(f2, "other %d" % i)
            s.write(3, f2)
        # the source may change before the copy while the wanted name is already taken
        change = rng.choice(["none"] * 5 + ["delete", "directory", "unreadable"])
        if change == "delete":
            s.rm(f)
        elif change == "directory":
            s.rm(f)
            s.mkdirp(f)
        elif change == "unreadable":
            s.chmod(f, False)
        s.timeout()
        s.dump()
        if change == "directory":
            s.add("rmdir %s" % hexs(f))
        elif change == "unreadable":
            s.chmod(f, True)
        if rng.random() < 0.15:
            s.restart()
        if rng.random() < 0.1:
            s.tick(1)
    return s.text(), {"vpat": vpat, "ext": ext}


def gen_copy_case(rng):
    """C05: contents of all sizes, every chunking, and every way the source can change before the copy"""
    s = Script()
    setup_world(s, base_cfg(deb=1))
    s.start()
    s.exec(3, X + "/vim")
    if rng.random() < 0.6:
        s.add("chunk %d" % rng.choice([1000, 4095, 4096, 4097, 65536]))
    files = [WATCH + "/inc/a.txt", WATCH + "/inc/deep/er/b.bin", WATCH + "/n"]
    if rng.random() < 0.3:
        # a source so deep that the directory part of its store path passes 255 bytes (NAME_MAX bounds a component,
        # not a path): the clean-up of an abandoned copy must still remove every directory it made
        files.append(WATCH + "/inc/" + "/".join("d%02d" % i + "x" * 20 for i in range(12)) + "/deep.c")
    for f in files:
        size = rng.choice([0, 1, 2, 4095, 4096, 4097, 70000, 12345])
        if size <= 2:
            s.put(f, "xy"[:size])
        else:
            s.putn(f, size, rng.randint(0, 25))
        s.write(3, f)
        change = rng.choice(["none", "none", "rewrite", "delete", "directory", "unreadable", "grow", "parent_file"])
        if change == "rewrite":
            s.put(f, "rewritten")
        elif change == "grow":
            s.putn(f, 80000, 5)
        elif change == "delete":
            s.rm(f)
        elif change == "directory":
            s.rm(f)
            s.mkdirp(f)
        elif change == "unreadable":
            s.chmod(f, False)
        elif change == "parent_file" and f.count("/") > WATCH.count("/") + 1 and \
                not any(g != f and g.startswith(f.rsplit("/", 1)[0] + "/") for g in files):
            # the directory the file lived in is replaced by a regular file: open() says ENOTDIR, the source is gone
            d = f.rsplit("/", 1)[0]
            s.rm(f)
            s.add("rmdir %s" % hexs(d))
            s.put(d, "not a directory any more")
    s.tick(1)
    s.dump()
    s.timeout()
    s.dump()
    return s.text(), {}


def gen_history_case(rng):
    """C08: appends of any sizes to a history path, passes, restarts"""
    s = Script()
    # half of the cases: the history path lies inside a project (history flag and project offset in one entry)
    inproj = rng.random() < 0.5
    setup_world(s, base_cfg(deb=rng.choice([0, 1]), history=[WATCH + "/hist.log", WATCH + "/proj/logs"] + [WATCH + "/hist.log" + x for x in (".tmp", ".1", "~", ".bak")]))
    s.start()
    H = WATCH + ("/proj/logs/a.log" if inproj else "/hist.log")
    s.put(H, "")
    # a second history file next to it whose name extends the first one's (rotated logs, editors' side files): each has
    # its own remembered position
    H2 = H + rng.choice([".tmp", ".1", "~", ".bak"])
    two = rng.random() < 0.4
    if two:
        s.put(H2, "")
    n = 0
    for _ in range(rng.randint(4, 25)):
        r = rng.random()
        if r < 0.45:
            n += 1
            T = H2 if two and rng.random() < 0.5 else H
            s.append(T, "".join(rng.choice("abc\n") for _ in range(rng.choice([0, 1, 10, 60]))))
            s.write(9, T)
        elif r < 0.6:
            s.tick(rng.choice([0, 1, 2]))
        elif r < 0.9:
            if rng.random() < 0.3:
                # every write and transfer of this pass moves at most n bytes: the slice goes out in pieces, and so does
                # the new position when it has more digits than that
                s.oracle("shortall", rng.choice([1, 1, 2, 3]))
            s.timeout()
            s.dump()
        else:
            s.restart()
    s.tick(2)
    s.timeout()
    s.dump()
    return s.text(), {"history_rels": ["hist.log", "proj/logs/a.log"] + ([H2[len(WATCH) + 1:]] if two else [])}


def gen_project_case(rng):
    """C11: writes and deletions at any depth inside projects, non-project files, passes, restarts"""
    if rng.random() < 0.12:
        return gen_project_is_root_case(rng)
    s = Script()
    setup_world(s, base_cfg(deb=rng.choice([0, 1, 2])))
    s.start()
    s.exec(3, X + "/vim")
    if rng.random() < 0.4:
        s.add("ftsrev 1")
    # (m.c~ : an editor's backup copy beside the file - a member like any other, whatever suffix it has)
    files = [WATCH + "/proj/README", WATCH + "/proj/src/m.c", WATCH + "/proj/src/m.c~", WATCH + "/proj/src/deep/x/y.h", WATCH + "/pp/p1/f.c",
             WATCH + "/pp/p1/sub/g.c", WATCH + "/pp/p2/h", WATCH + "/pp/loose.txt", WATCH + "/inc/a.txt"]
    exists = set()
    blockers = set()
    dirs = set()
    unreadable = set()
    n = 0
    if rng.random() < 0.25:
        # the project store is unusable for a while (a stray regular file where its directory belongs): the pass that
        # wants to snapshot fails; after repair and restart the snapshot is still owed
        f = rng.choice(files[:7])
        s.put(R + "/k/projects", "stray")
        s.put(f, "c0")
        exists.add(f)
        a = f.rsplit("/", 1)[0]
        while len(a) > len(WATCH):
            dirs.add(a)
            a = a.rsplit("/", 1)[0]
        s.write(3, f)
        s.tick(3)
        s.dump()
        s.timeout()
        s.dump()
        s.rm(R + "/k/projects")
        s.restart()
        s.exec(3, X + "/vim")
        s.dump()
        s.timeout()
        s.dump()
    for _ in range(rng.randint(6, 30)):
        r = rng.random()
        f = rng.choice(files)
        if r < 0.5:
            n += 1
            for b in sorted(blockers):
                if f.startswith(b + "/"):
                    s.rm(b)
                    blockers.discard(b)
            if f in unreadable:
                s.chmod(f, True)
                unreadable.discard(f)
            s.put(f, "c%d" % n)
            exists.add(f)
            a = f.rsplit("/", 1)[0]
            while len(a) > len(WATCH):
                dirs.add(a)
                a = a.rsplit("/", 1)[0]
            s.write(3, f)
        elif r < 0.55 and f in exists and f not in unreadable:
            # a member that has been written (maybe versioned) becomes unreadable: "forbidden" when its turn comes,
            # but it still exists, so snapshots keep it
            s.write(3, f)
            s.chmod(f, False)
            unreadable.add(f)
        elif r < 0.6 and f in exists:
            if f in unreadable:
                s.chmod(f, True)
                unreadable.discard(f)
            s.rm(f)
            exists.discard(f)
            # sometimes the whole sub-directory goes with its last file
            if rng.random() < 0.5:
                d = f.rsplit("/", 1)[0]
                while d not in (WATCH + "/proj", WATCH + "/pp/p1", WATCH + "/pp/p2", WATCH + "/pp", WATCH + "/inc", WATCH):
                    if any(e.startswith(d + "/") for e in exists) or any(x.startswith(d + "/") for x in dirs | blockers):
                        break      # not empty: files or (empty) sub-directories remain
                    s.add("rmdir %s" % hexs(d))
                    dirs.discard(d)
                    if rng.random() < 0.4:
                        # ... and a regular file takes the directory's name (access() below it: ENOTDIR, not ENOENT)
                        s.put(d, "now a file")
                        blockers.add(d)
                        break
                    d = d.rsplit("/", 1)[0]
        elif r < 0.72:
            s.tick(rng.choice([0, 1, 2, 3]))
        elif r < 0.93:
            s.dump()
            s.timeout()
            s.dump()
        else:
            s.restart()
    s.tick(3)
    s.dump()
    s.timeout()
    s.dump()
    return s.text(), {}


def gen_project_is_root_case(rng):
    """C11: the project root is the watched directory itself (the common parent of the write roots): the queue entry of
    the project is shorter than the common parent, relative paths start inside the project"""
    s = Script()
    setup_world(s, base_cfg(deb=rng.choice([0, 1])))
    s.cpl = len(WATCH + "/proj") + 1
    s.start()
    s.exec(3, X + "/vim")
    files = [WATCH + "/proj/README", WATCH + "/proj/src/m.c", WATCH + "/proj/src/deep/x/y.h"]
    n = 0
    for _ in range(rng.randint(4, 16)):
        r = rng.random()
        f = rng.choice(files)
        if r < 0.5:
            n += 1
            s.put(f, "c%d" % n)
            s.write(3, f)
        elif r < 0.65:
            s.tick(rng.choice([0, 1, 2]))
        elif r < 0.9:
            s.dump()
            s.timeout()
            s.dump()
        else:
            s.restart()
            s.exec(3, X + "/vim")
    s.tick(3)
    s.dump()
    s.timeout()
    s.dump()
    return s.text(), {"wprefix": "/w/proj/"}


# journal stamps as an administrator writes them: none, seconds, constant text, text around the seconds, and
# date-like ones with slashes (what must not contain a slash is a VERSION, which becomes a file name; a journal stamp may)
JPATS = ["", "%s", "x", "t%s-", "d/%s", "1/2/%s %%"]
JPIDS = [3, 4, 3, 4, 99999, 100000, 4194304]      # process ids of one to seven digits (kernel.pid_max goes up to 2^22)


def gen_journal_case(rng):
    """C19: every choice of labels (absent, empty, text) and timestamp patterns, short writes at journal writes"""
    labels = [rng.choice([None, "", "L%d" % i]) for i in range(7)]
    jpat = rng.choice(JPATS)
    cfg = base_cfg(deb=rng.choice([0, 1]), ev=labels, jpat=jpat)
    s = Script()
    setup_world(s, cfg)
    s.start()
    # (projects at two depths: a configured root directly in the watched directory, a child of a project parent)
    files = [WATCH + "/inc/a.txt", WATCH + "/n", WATCH + "/hist.log", WATCH + "/proj/m.c", WATCH + "/pp/p1/sub/g.c"]
    ncalls = 0
    for _ in range(rng.randint(5, 20)):
        r = rng.random()
        rr = rng.random()
        if rr < 0.25:
            s.oracle("short", rng.randint(0, 30), rng.randint(1, 9))
        elif rr < 0.45:
            # every write of the operation is cut: a journal line goes out in three or more pieces
            s.oracle("shortall", rng.choice([1, 2, 3, 5, 9]))
        if r < 0.2:
            s.exec(rng.choice(JPIDS), rng.choice([X + "/vim", X + "/cat"]))
        elif r < 0.6:
            f = rng.choice(files)
            s.put(f, "data%d" % rng.randint(0, 99))
            s.write(rng.choice(JPIDS), f)
            if rng.random() < 0.12 and f.startswith(WATCH + "/inc/"):
                # the file goes away together with its directory, and a regular file takes the directory's name: for
                # whoever opens it now it does not exist (ENOTDIR): 'deleted', not 'forbidden'
                s.rm(f)
                s.add("rmdir %s" % hexs(WATCH + "/inc"))
                s.put(WATCH + "/inc", "now a file")
                s.tick(2)
                s.timeout()
                s.dump()
                s.rm(WATCH + "/inc")
        elif r < 0.7:
            s.tick(1)
        elif r < 0.78:
            # hot reload that keeps the journal where it is but changes how its lines are stamped (and the labels)
            import copy as _copy
            cfg = _copy.deepcopy(cfg)
            cfg.jpat = rng.choice([p for p in JPATS if p != cfg.jpat])
            s.config(cfg)
            s.write(rng.choice([3, 4]), CFG_PATH)
        else:
            s.timeout()
        s.dump()
    return s.text(), {"labels_all": False, "journal_counts": False, "stamps": True}
