"""C10 Failures are reported, never swallowed, and never lose work."""
import world_check as wk


def known(meta, msg):
    import vlib
    for k in vlib.known_findings().get("open", []):
        if k["property"] == "C10" and k.get("signature") == "reload-changes-queue-path" and meta.get("scenario") == "reload_new_queue" and msg.startswith("recovery"):
            return k["id"]
    return None


def main(rep):
    wk.standard_main(rep, fault=True, fault_monitors=["fault_reported", "recovery", "no_partial", "position_kept", "position_not_ahead", "store_immutable", "queue_form"],
                     known=known,
                     rule=("one failing system call at a time: every call index of the implementation's own log of the operation under test in each scenario "
                           "family x plausible errnos of that call (open: EACCES ENOSPC EMFILE EIO ENOENT; mkdir: EACCES ENOSPC; sendfile/write: EIO ENOSPC; "
                           "others EIO/ENOMEM), followed by release, restart, drain; outcome, error trace, call log and disk compared with the model under the "
                           "same fault; every case is non-trivial"))


def replay(rep, path):
    return wk.replay_world(rep, path, ["fault_reported", "recovery", "no_partial", "store_immutable"])
