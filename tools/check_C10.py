"""C10 Failures are reported, never swallowed, and never lose work."""
import world_check as wk


def known(meta, msg):
    import vlib

    for k in vlib.known_findings().get("open", []):
        if k["property"] != "C10":
            continue
        if k.get("signature") == "reload-changes-queue-path" and meta.get("scenario") == "reload_new_queue" and msg.startswith("recovery"):
            return k["id"]
        # K4: a reported failure inside the snapshot walk (after the snapshot directory was created) leaves the partial snapshot
        if k.get("signature") == "partial-snapshot" and msg.startswith("partial_snapshot") and meta.get("call") in ("linkat", "mkdirat", "access", "rmdir", "unlink", "fts_open", "open", "close"):
            return k["id"]
        # K5: a failing access() in the snapshot walk is read as "the member left the project"
        if k.get("signature") == "access-failure-swallowed" and msg.startswith("snapshot_members") and meta.get("call") == "access":
            return k["id"]
    return None


def alloc_phase(rep, exe_impl, exe_model):
    """every allocation of the operation under test fails in turn (thorough: every scenario family; quick: the passes
    over one file, a history file and a project)"""
    only = ["drain_one", "drain_history_offset", "drain_project", "accept_project"] if rep.tier == "quick" else None
    cases = wk.alloc_fault_cases(exe_impl, rep.tier, rep.seed, only=only)
    if not cases:
        return False, 0, 0
    f, v = wk.run_cases_known(rep, exe_impl, None, cases, ["fault_reported", "recovery", "no_partial", "position_kept", "position_not_ahead", "store_immutable", "queue_form"], known,
                                shards=len(cases))
    rep.cov.setdefault("input_distribution", {})
    return f, v, len(cases)


def main(rep):
    wk.standard_main(rep, fault=True, extra=alloc_phase, fault_monitors=["fault_reported", "expected_handled", "completed_exact", "exec_completed", "accepted_is_queued", "partial_snapshot", "snapshot_members", "recovery", "no_partial", "position_kept", "position_not_ahead", "store_immutable", "queue_form"],
                     known=known,
                     rule=("one failing system call at a time: every call index of the implementation's own log of the operation under test in each scenario "
                           "family x plausible errnos of that call (open: EACCES ENOSPC EMFILE EIO ENOENT, EEXIST at an exclusive create; mkdir: EACCES ENOSPC; sendfile/write: EIO ENOSPC; "
                           "others EIO/ENOMEM), followed by release, restart, drain; outcome, error trace, call log and disk compared with the model under the "
                           "same fault; the expected conditions (ENOENT/EACCES at the open of the source, EEXIST at the exclusive create) must not end the operation in an error; every case is non-trivial"))


def replay(rep, path):
    return wk.replay_world(rep, path, ["fault_reported", "expected_handled", "completed_exact", "exec_completed", "accepted_is_queued", "partial_snapshot", "snapshot_members", "recovery", "no_partial", "store_immutable"])
