"""C10 Failures are reported, never swallowed, and never lose work."""
import world_check as wk


def known(meta, msg):
    import vlib

    for k in vlib.known_findings().get("open", []):
        if k["property"] != "C10":
            continue
        if k.get("signature") == "reload-changes-queue-path" and meta.get("scenario") == "reload_new_queue" and msg.startswith("recovery"):
            return k["id"]
        # K4: a reported failure inside the snapshot walk (after the snapshot directory was created) leaves the partial snapshot
        if k.get("signature") == "partial-snapshot" and msg.startswith("partial_snapshot") and meta.get("call") in ("linkat", "mkdirat", "access", "rmdir", "unlink", "fts_open", "open", "close"):
            return k["id"]
        # K5: a failing access() in the snapshot walk is read as "the member left the project"
        if k.get("signature") == "access-failure-swallowed" and msg.startswith("snapshot_members") and meta.get("call") == "access":
            return k["id"]
    return None


def alloc_phase(rep, exe_impl, exe_model):
    """every allocation of the operation under test fails in turn (thorough: every scenario family; quick: the passes
    over one file, a history file and a project)"""
    only = ["drain_one", "drain_history_offset", "drain_project", "accept_project"] if rep.tier == "quick" else None
    cases = wk.alloc_fault_cases(exe_impl, rep.tier, rep.seed, only=only)
    if not cases:
        return False, 0, 0
    f, v = wk.run_cases_known(rep, exe_impl, None, cases, ["fault_reported", "recovery", "no_partial", "position_kept", "position_not_ahead", "store_immutable", "queue_form"], known,
                                shards=len(cases))
    rep.cov.setdefault("input_distribution", {})
    return f, v, len(cases)


def gen_unreadable_tree_case(rng):
    """a sub-directory of the project's tree of links cannot be read when the snapshot is due (its mode was changed, a
    backup tool locked it): the walk cannot descend - the pass either reports that or the snapshot is complete"""
    import world_common as wc
    s = wc.Script()
    W, R = wc.WATCH, wc.R
    wc.setup_world(s, wc.base_cfg(deb=0))
    s.start()
    s.exec(3, wc.X + "/vim")
    root, name = rng.choice([(W + "/proj", "proj"), (W + "/pp/p1", "p1")])
    members = ["a.txt", "sub/b.txt", "sub/deep/c.txt"]
    for m in members:
        s.put(root + "/" + m, "one " + m)
        s.write(3, root + "/" + m)
    s.tick(1)
    s.dump()
    s.timeout()
    s.dump()
    s.put(root + "/a.txt", "two")
    s.write(3, root + "/a.txt")
    locked = "%s/k/var/projects/%s/%s" % (R, name, rng.choice(["sub", "sub/deep"]))
    s.add("chmodx %s %s" % (wc.hexs(locked), rng.choice(["000", "300"])))
    s.tick(1)
    s.dump()
    s.timeout()
    s.dump()
    s.add("chmodx %s 755" % wc.hexs(locked))
    return s.text(), {}


def mon_silent_incomplete_snapshot(steps, meta):
    """'either still completes the operation or reports an error': a pass that reports NO error and created a snapshot
    has put every versioned member that still exists into it"""
    prev = None
    between = []
    seen = {}        # links of the trees of links seen in any earlier listing (a locked directory cannot be listed)
    for st in steps:
        if st.op in wk.HANDLER_OPS:
            between.append(st)
        if st.dump is None:
            continue
        cur = st.dump
        if prev is not None:
            seen.update({p: e for p, e in prev.items() if p.startswith("/k/var/projects/") and e[0] == "file"})
        if prev is not None and len(between) == 1 and between[0].op == "timeout" and (between[0].result or "").startswith("pause"):
            for sdir in [p for p, e in cur.items() if e[0] == "dir" and p not in prev and wk.re.match(r"^/k/projects/[^/]+/[^/]+$", p)]:
                name = sdir.split("/")[3]
                root = wk.PROJECTS.get(name)
                if root is None:
                    continue
                pre = "/k/var/projects/%s/" % name
                for p, e in seen.items():
                    if p.startswith(pre) and e[0] == "file":
                        m = p[len(pre):]
                        if (root + "/" + m) in cur and cur[root + "/" + m][0] == "file" and (sdir + "/" + m) not in cur:
                            return ("the pass reported no error (%s), yet its snapshot %s lacks %s, which was versioned as part of the project and still exists: "
                                    "a failure inside the walk was swallowed" % (between[0].result, sdir, m))
        prev = cur
        between = []
    return None


wk.MONITORS["silent_incomplete_snapshot"] = mon_silent_incomplete_snapshot


def extra_phases(rep, exe_impl, exe_model):
    f, v, n = alloc_phase(rep, exe_impl, exe_model)
    if not f:
        import random
        rng = random.Random(rep.seed + 10)
        cases = []
        for i in range(8 if rep.tier == "quick" else 60):
            t, m = gen_unreadable_tree_case(rng)
            cases.append(("ut%d" % i, t, m))
        # (directory modes are not part of the model's file system: implementation only)
        f2, v2 = wk.run_cases_known(rep, exe_impl, None, cases, ["silent_incomplete_snapshot", "store_immutable", "queue_form"], known)
        f, v, n = f or f2, v + v2, n + len(cases)
    return f, v, n


def main(rep):
    wk.standard_main(rep, fault=True, extra=extra_phases, fault_monitors=["fault_reported", "idle_means_empty", "expected_handled", "completed_exact", "exec_completed", "accepted_is_queued", "partial_snapshot", "snapshot_members", "recovery", "no_partial", "position_kept", "position_not_ahead", "store_immutable", "queue_form"],
                     known=known,
                     rule=("one failing system call at a time: every call index of the implementation's own log of the operation under test in each scenario "
                           "family x plausible errnos of that call (open: EACCES ENOSPC EMFILE EIO ENOENT, EEXIST at an exclusive create; mkdir: EACCES ENOSPC; sendfile/write: EIO ENOSPC; "
                           "others EIO/ENOMEM), followed by release, restart, drain; outcome, error trace, call log and disk compared with the model under the "
                           "same fault; the expected conditions (ENOENT/EACCES at the open of the source, EEXIST at the exclusive create) must not end the operation in an error; every case is non-trivial; plus (implementation only) a sub-directory of a project's tree of links made unreadable before its snapshot is due: a pass that reports no error has a complete snapshot"))


def replay(rep, path):
    return wk.replay_world(rep, path, ["fault_reported", "idle_means_empty", "expected_handled", "completed_exact", "exec_completed", "accepted_is_queued", "partial_snapshot", "snapshot_members", "recovery", "no_partial", "store_immutable", "silent_incomplete_snapshot"])
