"""Generic runner for world-level (handler) checks: correspondence through a
projection, state monitors on the implementation's own dumps, fault and crash
enumeration."""
import json
import os
import random
import shutil
import subprocess

import vlib
import world_common as wc
from vlib import CANON_ROOT, hexs, unhexs


# ------------------------------------------------------------------ parsing

class Step:
    """one script line with the output lines the driver printed for it"""

    def __init__(self, line):
        self.line = line
        self.tok = line.split()
        self.op = self.tok[0] if self.tok else ""
        self.out = []       # output lines belonging to this step
        self.result = None  # for handler ops: text after 'op <name> '
        self.trace = None
        self.calls = None
        self.log = []
        self.dump = None
        self.x = None       # implementation-only counters (fds, live)
        self.crashed = False


HANDLER_OPS = ("start", "stop", "exec", "write", "timeout")


def align(script_lines, out_lines):
    """attach output lines to script steps"""
    steps = [Step(l) for l in script_lines if l.strip()]
    oi = 0
    n = len(out_lines)
    for st in steps:
        if st.op in HANDLER_OPS:
            if oi < n and out_lines[oi].startswith("op %s " % st.op):
                st.result = out_lines[oi][len("op %s " % st.op):]
                oi += 1
                if st.result == "nohandler":
                    continue
                while oi < n and (out_lines[oi].startswith(("trace", "calls ", "X ", "L "))):
                    l = out_lines[oi]
                    if l.startswith("trace"):
                        st.trace = l
                    elif l.startswith("calls "):
                        st.calls = int(l.split()[1])
                    elif l.startswith("X "):
                        t = l.split()
                        st.x = {"fds": int(t[2]), "live": int(t[4])}
                    else:
                        st.log.append(l[2:])
                    oi += 1
            elif oi < n and out_lines[oi].startswith("crashed"):
                st.crashed = True
                st.result = "crashed"
                oi += 1
            elif oi < n and out_lines[oi].startswith("env-error"):
                oi += 1
        elif st.op == "dump":
            d = {}
            while oi < n and out_lines[oi].startswith("D "):
                t = out_lines[oi].split()
                d[unhexs(t[1])] = tuple(t[2:])
                oi += 1
            if oi < n and out_lines[oi] == "dump-end":
                oi += 1
            st.dump = d
        elif st.op in ("put", "append", "putn", "rm", "rmdir", "mkdirp", "chmod"):
            while oi < n and out_lines[oi].startswith("env-error"):
                st.out.append(out_lines[oi])
                oi += 1
        elif st.op == "live":
            if oi < n and out_lines[oi].startswith("X "):
                t = out_lines[oi].split()
                st.x = {"fds": int(t[2]), "live": int(t[4])}
                oi += 1
    return steps


def under(prefix, p):
    return p == prefix or p.startswith(prefix + "/")


LOCS = ["/k/store", "/k/projects", "/k/var/projects", "/k/var/queue", "/k/var/offsets", "/k/var/journal",
        # locations the generated reloads switch to
        "/k/var/queue2", "/k/var/queue3", "/k/var/journal2", "/k/var/journal3"]


def file_sig(ent):
    """(len, hash) of a dumped file entry"""
    return (ent[2], ent[3]) if ent and ent[0] == "file" else None


# ------------------------------------------------------------------ monitors
# each monitor: f(steps, meta) -> None | message

MUTATING = ("mkdir", "mkdirat", "rmdir", "unlink", "unlinkat", "link", "linkat", "symlinkat")


def mon_confined(steps, meta):
    """C09: mutating calls only beneath the configured locations (mkdir/rmdir: or
    their ancestors); watched tree untouched by handler operations"""
    locs = meta.get("locs", LOCS)
    prev_watch = None
    for st in steps:
        for l in st.log:
            t = l.split(" ")
            name = t[1]
            if "FAULT" in t:
                continue
            path = None
            if name in ("mkdir", "rmdir", "unlink"):
                path = t[2]
            elif name == "link":
                path = t[3]
            elif name == "open" and t[3] != "R" and t[3] != "R|DIR":
                path = t[2]
            if path is None:
                continue
            if not path.startswith("$"):
                # outside the sandbox: only ancestors of it may be touched by mkdir/rmdir
                if name in ("mkdir", "rmdir") and CANON_ROOT.startswith(path):
                    continue
                return "call '%s' names a path outside every configured location" % l
            rel = path[1:]
            ok = any(under(loc, rel) for loc in locs)
            if not ok and name in ("mkdir", "rmdir"):
                ok = any(loc.startswith(rel + "/") or rel == "" for loc in locs)
            if not ok:
                return "call '%s' names a path outside every configured location" % l
        if st.dump is not None:
            watch = {p: e for p, e in st.dump.items() if under("/w", p) or under("/x", p) or under("/etc", p)}
            if prev_watch is not None and st.tag_same_env and watch != prev_watch:
                diff = [p for p in set(watch) | set(prev_watch) if watch.get(p) != prev_watch.get(p)]
                # inode class numbers shift when store files appear: compare type/len/hash only
                real = [p for p in diff if (watch.get(p) or ())[:1] + (watch.get(p) or ())[2:] != (prev_watch.get(p) or ())[:1] + (prev_watch.get(p) or ())[2:]]
                if real:
                    return "watched entries changed by the daemon: %s" % real[:3]
            prev_watch = watch
    return None


def tag_env(steps):
    """mark dumps that follow the previous dump with only handler ops in between"""
    clean = False
    for st in steps:
        st.tag_same_env = False
        if st.dump is not None:
            st.tag_same_env = clean
            clean = True
        elif st.op in ("put", "append", "putn", "rm", "rmdir", "mkdirp", "chmod"):
            clean = False


def mon_store_immutable(steps, meta):
    """C04: nothing already in the file store or project store is changed or removed"""
    prev = None
    for st in steps:
        if st.dump is None:
            continue
        cur = {p: e for p, e in st.dump.items() if under("/k/store", p) or under("/k/projects", p)}
        if prev is not None:
            for p, e in prev.items():
                c = cur.get(p)
                if c is None:
                    return "store entry %s disappeared" % p
                if e[0] != c[0] or (e[0] == "file" and file_sig(e) != file_sig(c)):
                    return "store entry %s changed from %s to %s" % (p, e, c)
        prev = cur
    return None


def mon_first_free_name(steps, meta):
    """C04: a new version goes to the first free name: base, then -1, -2, ... before the extension"""
    prev = None
    for st in steps:
        if st.dump is None:
            continue
        cur = st.dump
        if prev is not None:
            new = [p for p in cur if p not in prev and (under("/k/store", p) and cur[p][0] == "file")]
            for p in new:
                d, name = p.rsplit("/", 1)
                # name = version[-k]ext where ext is the extension of the store directory's name
                import re
                m = re.match(r"^(v\d+)(?:-(\d+))?(.*)$", name)
                if not m:
                    continue
                k = int(m.group(2) or 0)
                for j in range(k):
                    cand = "%s/%s%s%s" % (d, m.group(1), "-%d" % j if j else "", m.group(3))
                    if cand not in cur:
                        return "new version %s skipped the free name %s" % (p, cand)
        prev = cur
    return None


MONITORS = {
    "confined": mon_confined,
    "store_immutable": mon_store_immutable,
    "first_free_name": mon_first_free_name,
}


# ------------------------------------------------------------------ runner

def project_default(lines):
    return wc.comparable(lines)


def run_cases(rep, exe_impl, exe_model, cases, monitors, projection=project_default, what="world"):
    """cases: [(cid, script, meta)].  Returns (found_violation, stats)."""
    impl, model, problems = vlib.correspond(exe_impl, exe_model, "world", [(c, s) for c, s, _ in cases], sandbox=True)
    found = False
    diverged = []
    validated = 0
    for cid, script, meta in cases:
        il = impl.get(cid)
        if il is None:
            rep.violation("driver", {"case": cid, "script": script.split("\n"), "what": "no output from the implementation"}, found_input=True)
            return True, validated
        steps = align(script.split("\n"), il)
        tag_env(steps)
        bad = None
        for mname in monitors:
            bad = MONITORS[mname](steps, meta)
            if bad:
                bad = "%s: %s" % (mname, bad)
                break
        if bad:
            rep.violation(what, {"case": cid, "script": script.split("\n"), "implementation": wc.comparable(il),
                                 "model": wc.comparable(model.get(cid)) if exe_model else None, "what": bad, "meta": meta},
                          found_input=True)
            return True, validated
        if exe_model:
            a, b = projection(il), projection(model.get(cid))
            if a != b:
                diverged.append((cid, script, a, b))
                continue
        validated += 1
    if diverged:
        cid, script, a, b = diverged[0]
        first = next((i for i, (x, y) in enumerate(zip(a, b)) if x != y), min(len(a), len(b)))
        rep.violation("correspondence", {"case": cid, "script": script.split("\n"), "implementation": a, "model": b,
                                         "first_difference": {"index": first, "implementation": a[first:first + 3], "model": b[first:first + 3]},
                                         "what": "implementation and model differ on %d case(s) under the property's projection; the monitors found no failing input" % len(diverged),
                                         "broken": "correspondence (world driver)"}, found_input=False)
        found = True
    for p in problems:
        rep.notes.append(p)
        if not found:
            rep.violation("driver", {"what": p}, found_input=False)
            found = True
    return found, validated


def replay_world(rep, path, monitors=()):
    d = json.load(open(path))
    exe_impl, exe_model = vlib.prepare(rep)
    script = "\n".join(d["script"])
    impl, model, _ = vlib.correspond(exe_impl, exe_model, "world", [("replay", script)], sandbox=True)
    a, b = wc.comparable(impl.get("replay")), wc.comparable(model.get("replay"))
    steps = align(d["script"], impl.get("replay") or [])
    tag_env(steps)
    bad = None
    for m in monitors:
        bad = bad or MONITORS[m](steps, d.get("meta") or {})
    print("monitors:", bad or "hold")
    print("correspondence:", "agrees" if a == b else "differs")
    if a != b:
        import difflib
        print("\n".join(list(difflib.unified_diff(a, b, "implementation", "model", lineterm=""))[:80]))
    return 1 if bad or a != b else 0
