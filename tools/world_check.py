"""Generic runner for world-level (handler) checks: correspondence through a
projection, state monitors on the implementation's own dumps, fault and crash
enumeration."""
import json
import os
import random
import shutil
import subprocess

import vlib
import world_common as wc
from vlib import CANON_ROOT, hexs, unhexs


# ------------------------------------------------------------------ parsing

class Step:
    """one script line with the output lines the driver printed for it"""

    def __init__(self, line):
        self.line = line
        self.tok = line.split()
        self.op = self.tok[0] if self.tok else ""
        self.out = []       # output lines belonging to this step
        self.result = None  # for handler ops: text after 'op <name> '
        self.trace = None
        self.calls = None
        self.log = []
        self.dump = None
        self.x = None       # implementation-only counters (fds, live)
        self.crashed = False


HANDLER_OPS = ("start", "stop", "exec", "write", "timeout")


def align(script_lines, out_lines):
    """attach output lines to script steps"""
    steps = [Step(l) for l in script_lines if l.strip()]
    oi = 0
    n = len(out_lines)
    for st in steps:
        if st.op in HANDLER_OPS:
            if oi < n and out_lines[oi].startswith("op %s " % st.op):
                st.result = out_lines[oi][len("op %s " % st.op):]
                oi += 1
                if st.result == "nohandler":
                    continue
                while oi < n and (out_lines[oi].startswith(("trace", "calls ", "X ", "L "))):
                    l = out_lines[oi]
                    if l.startswith("trace"):
                        st.trace = l
                    elif l.startswith("calls "):
                        st.calls = int(l.split()[1])
                    elif l.startswith("X "):
                        t = l.split()
                        st.x = {"fds": int(t[2]), "live": int(t[4]), "allocs": int(t[6]) if len(t) > 6 else 0}
                    else:
                        st.log.append(l[2:])
                    oi += 1
            elif oi < n and out_lines[oi].startswith("crashed"):
                st.crashed = True
                st.result = "crashed"
                oi += 1
            elif oi < n and out_lines[oi].startswith("env-error"):
                oi += 1
        elif st.op == "dump":
            d = {}
            while oi < n and out_lines[oi].startswith("D "):
                t = out_lines[oi].split()
                d[unhexs(t[1])] = tuple(t[2:])
                oi += 1
            if oi < n and out_lines[oi] == "dump-end":
                oi += 1
            st.dump = d
        elif st.op in ("put", "putforeign", "append", "putn", "rm", "rmdir", "mkdirp", "chmod", "symlink"):
            while oi < n and out_lines[oi].startswith("env-error"):
                st.out.append(out_lines[oi])
                oi += 1
        elif st.op == "live":
            if oi < n and out_lines[oi].startswith("X "):
                t = out_lines[oi].split()
                st.x = {"fds": int(t[2]), "live": int(t[4]), "allocs": int(t[6]) if len(t) > 6 else 0}
                oi += 1
    return steps


def under(prefix, p):
    return p == prefix or p.startswith(prefix + "/")


LOCS = ["/k/store", "/k/projects", "/k/var/projects", "/k/var/queue", "/k/var/offsets", "/k/var/journal",
        # locations the generated reloads switch to
        "/k/var/queue2", "/k/var/queue3", "/k/var/journal2", "/k/var/journal3"]


def file_sig(ent):
    """(len, hash) of a dumped file entry"""
    return (ent[2], ent[3]) if ent and ent[0] == "file" else None


# ------------------------------------------------------------------ monitors
# each monitor: f(steps, meta) -> None | message

MUTATING = ("mkdir", "mkdirat", "rmdir", "unlink", "unlinkat", "link", "linkat", "symlinkat")


def mon_confined(steps, meta):
    """C09: mutating calls only beneath the configured locations (mkdir/rmdir: or
    their ancestors); watched tree untouched by handler operations"""
    locs = meta.get("locs", LOCS)
    prev_watch = None
    for st in steps:
        for l in st.log:
            t = l.split(" ")
            name = t[1]
            if "FAULT" in t:
                continue
            path = None
            if name in ("mkdir", "rmdir", "unlink"):
                path = t[2]
            elif name == "link":
                path = t[3]
            elif name == "open" and t[3] != "R" and t[3] != "R|DIR":
                path = t[2]
            if path is None:
                continue
            if not path.startswith("$"):
                # outside the sandbox: only ancestors of it may be touched by mkdir/rmdir
                if name in ("mkdir", "rmdir") and CANON_ROOT.startswith(path):
                    continue
                return "call '%s' names a path outside every configured location" % l
            rel = path[1:]
            ok = any(under(loc, rel) for loc in locs)
            if not ok and name in ("mkdir", "rmdir"):
                ok = any(loc.startswith(rel + "/") or rel == "" for loc in locs)
            if not ok:
                return "call '%s' names a path outside every configured location" % l
        if st.dump is not None:
            watch = {p: e for p, e in st.dump.items() if under("/w", p) or under("/x", p) or under("/etc", p)}
            if prev_watch is not None and st.tag_same_env and watch != prev_watch:
                diff = [p for p in set(watch) | set(prev_watch) if watch.get(p) != prev_watch.get(p)]
                # inode class numbers shift when store files appear: compare type/len/hash only
                real = [p for p in diff if (watch.get(p) or ())[:1] + (watch.get(p) or ())[2:] != (prev_watch.get(p) or ())[:1] + (prev_watch.get(p) or ())[2:]]
                if real:
                    return "watched entries changed by the daemon: %s" % real[:3]
            prev_watch = watch
    return None


def tag_env(steps):
    """mark dumps that follow the previous dump with only handler ops in between"""
    clean = False
    for st in steps:
        st.tag_same_env = False
        if st.dump is not None:
            st.tag_same_env = clean
            clean = True
        elif st.op in ("put", "putforeign", "append", "putn", "rm", "rmdir", "mkdirp", "chmod", "symlink"):
            clean = False


def mon_store_immutable(steps, meta):
    """C04: nothing already in the file store or project store is changed or removed"""
    prev = None
    removed_by_env = set()
    for st in steps:
        if st.op in ("rm", "rmdir") and len(st.tok) > 1:
            removed_by_env.add(unhexs(st.tok[1])[len(CANON_ROOT):])
        if st.dump is None:
            continue
        # files of both stores, and the snapshot directories themselves (an empty snapshot is still a snapshot)
        cur = {p: e for p, e in st.dump.items() if ((under("/k/store", p) or under("/k/projects", p)) and e[0] in ("file", "link"))
               or (e[0] == "dir" and re.match(r"^/k/projects/[^/]+/[^/]+$", p))}
        if prev is not None:
            for p, e in prev.items():
                c = cur.get(p)
                if p in removed_by_env:
                    continue      # the scenario itself removed it (a stray file put there by the scenario)
                if c is None:
                    return "store entry %s disappeared" % p
                if e[0] != c[0] or (e[0] == "file" and file_sig(e) != file_sig(c)) or (e[0] == "link" and e[1] != c[1]):
                    return "store entry %s changed from %s to %s" % (p, e, c)
        prev = cur
        removed_by_env = set()
    return None


def mon_first_free_name(steps, meta):
    """C04: a new version goes to the first free name: base, then -1, -2, ... before the extension"""
    prev = None
    for st in steps:
        if st.dump is None:
            continue
        cur = st.dump
        if prev is not None:
            new = [p for p in cur if p not in prev and (under("/k/store", p) and cur[p][0] == "file")]
            for p in new:
                d, name = p.rsplit("/", 1)
                # name = version[-k]ext where ext is the extension of the store directory's name
                import re
                vre = re.escape(meta.get("vpat", "v%s")).replace("%s", r"\d+").replace("\\%s", r"\d+")
                m = re.match(r"^(" + vre + r")(?:-(\d+))?(.*)$", name)
                if not m:
                    if "vpat" in meta:
                        return "new version %s is not named <version>[-k]<extension> for the version pattern %s" % (p, meta["vpat"])
                    continue
                if "ext" in meta and m.group(3) != meta["ext"]:
                    return "new version %s does not end with the extension %r of its file" % (p, meta["ext"])
                k = int(m.group(2) or 0)
                for j in range(k):
                    cand = "%s/%s%s%s" % (d, m.group(1), "-%d" % j if j else "", m.group(3))
                    if cand not in cur:
                        return "new version %s skipped the free name %s" % (p, cand)
        prev = cur
    return None


MONITORS = {
    "confined": mon_confined,
    "store_immutable": mon_store_immutable,
    "first_free_name": mon_first_free_name,
}


# ------------------------------------------------------------------ runner

def project_default(lines):
    return wc.comparable(lines)


def run_cases(rep, exe_impl, exe_model, cases, monitors, projection=project_default, what="world"):
    """cases: [(cid, script, meta)].  Returns (found_violation, stats)."""
    impl, model, problems = vlib.correspond(exe_impl, exe_model, "world", [(c, s) for c, s, _ in cases], sandbox=True)
    found = False
    diverged = []
    validated = 0
    for cid, script, meta in cases:
        il = impl.get(cid)
        if il is None:
            rep.violation("driver", {"case": cid, "script": script.split("\n"), "what": "no output from the implementation"}, found_input=True)
            return True, validated
        steps = align(script.split("\n"), il)
        tag_env(steps)
        bad = None
        for mname in monitors:
            bad = MONITORS[mname](steps, meta)
            if bad:
                bad = "%s: %s" % (mname, bad)
                break
        if bad:
            rep.violation(what, {"case": cid, "script": script.split("\n"), "implementation": wc.comparable(il),
                                 "model": wc.comparable(model.get(cid)) if exe_model else None, "what": bad, "meta": meta},
                          found_input=True)
            return True, validated
        if exe_model:
            a, b = projection(il), projection(model.get(cid))
            if a != b:
                diverged.append((cid, script, a, b))
                continue
        validated += 1
    if diverged:
        cid, script, a, b = diverged[0]
        first = next((i for i, (x, y) in enumerate(zip(a, b)) if x != y), min(len(a), len(b)))
        rep.defer_divergence({"case": cid, "script": script.split("\n"), "implementation": a, "model": b,
                                         "first_difference": {"index": first, "implementation": a[first:first + 3], "model": b[first:first + 3]},
                                         "what": "implementation and model differ on %d case(s) under the property's projection; the monitors found no failing input" % len(diverged),
                                         "broken": "correspondence (world driver)"})
        # reported by conclude_proofs unless a later phase finds a concrete failing input
    for p in problems:
        rep.notes.append(p)
        if not found:
            rep.violation("driver", {"what": p}, found_input=False)
            found = True
    return found, validated


def replay_world(rep, path, monitors=()):
    d = json.load(open(path))
    exe_impl, exe_model = vlib.prepare(rep)
    script = "\n".join(d["script"])
    impl, model, _ = vlib.correspond(exe_impl, exe_model, "world", [("replay", script)], sandbox=True)
    a, b = wc.comparable(impl.get("replay")), wc.comparable(model.get("replay"))
    steps = align(d["script"], impl.get("replay") or [])
    tag_env(steps)
    bad = None
    for m in monitors:
        bad = bad or MONITORS[m](steps, d.get("meta") or {})
    print("monitors:", bad or "hold")
    print("correspondence:", "agrees" if a == b else "differs")
    if a != b:
        import difflib
        print("\n".join(list(difflib.unified_diff(a, b, "implementation", "model", lineterm=""))[:80]))
    return 1 if bad or a != b else 0


# ------------------------------------------------------------------ crash runs

SETTING_OPS = ("root", "log", "cfg", "cfgbind", "ftsrev", "chunk")


def _run_crash_impl(args):
    """One case on the implementation; when the process dies at the crash point
    (exit 77) a new process continues the script on the same sandbox."""
    exe, exe_model, script, timeout = args
    sb = vlib.mk_sandbox()
    try:
        real = script.replace(hexs(CANON_ROOT)[1:], hexs(sb)[1:])
        lines = [l for l in real.split("\n") if l.strip()]
        out_all = []
        pos = 0          # index of the first line not yet consumed
        first = True
        guard = 0
        while pos < len(lines) and guard < 6:
            guard += 1
            if first:
                chunk = ["case c"] + lines
            else:
                # re-establish settings and the clock, then go on after the crashed operation
                settings = [l for l in lines[:pos] if l.split()[0] in SETTING_OPS]
                clock = wc.CLOCK0 + sum(int(l.split()[1]) for l in lines[:pos] if l.split()[0] == "tick")
                chunk = ["resume"] + settings + ["clock %d" % clock] + lines[pos:]
            rc, out, err = vlib.run_driver(exe, ["world", sb], "\n".join(chunk) + "\n", timeout=timeout)
            olines = out.split("\n")
            if first:
                olines = [l for l in olines if not l.startswith("case ")]
            out_all += [l for l in olines if l != ""]
            if rc != 77:
                if rc != 0:
                    out_all.append("driver-exit %s %s" % (rc, err[-300:].replace("\n", " ")))
                break
            # which operation crashed: count completed handler ops in this chunk's output
            done = sum(1 for l in olines if l.startswith("op "))
            seen = 0
            crashed_at = None
            for idx in range(pos, len(lines)):
                if lines[idx].split()[0] in HANDLER_OPS:
                    if seen == done:
                        crashed_at = idx
                        break
                    seen += 1
            if crashed_at is None:
                out_all.append("driver-exit 77 without a running operation")
                break
            # the crash index is in the preceding oracle line
            k = None
            for idx in range(crashed_at - 1, -1, -1):
                t = lines[idx].split()
                if t[0] == "oracle":
                    k = t[2] if t[1] == "crash" else None
                    break
            out_all.append("crashed %s at %s" % (lines[crashed_at].split()[0], k))
            pos = crashed_at + 1
            first = False
        text = "\n".join(out_all)
        text = text.replace(hexs(sb)[1:], hexs(CANON_ROOT)[1:]).replace(sb, CANON_ROOT)
        mtext = None
        if exe_model:
            # the model continues in-process after a crash (memory lost, disk kept); same root, so that
            # content hashes of files that mention the root agree
            rc, out, err = vlib.run_driver(exe_model, ["world"], "case c\n" + "\n".join(lines) + "\n", timeout=timeout)
            mtext = "\n".join(l for l in out.split("\n") if l and not l.startswith("case "))
            if rc != 0:
                mtext += "\nmodel-exit %s %s" % (rc, err[-300:].replace("\n", " "))
            mtext = mtext.replace(hexs(sb)[1:], hexs(CANON_ROOT)[1:]).replace(sb, CANON_ROOT).split("\n")
        return text.split("\n"), mtext
    finally:
        shutil.rmtree(sb, ignore_errors=True)


def run_crash_cases(rep, exe_impl, exe_model, cases, monitors, projection=project_default, what="crash", known=None):
    """like run_cases, but the implementation really dies at the crash point"""
    jobs = [(exe_impl, exe_model, s, 120) for _, s, _ in cases]
    both = vlib.parallel_map(_run_crash_impl, jobs)
    model = {c[0]: b[1] for c, b in zip(cases, both)}
    problems = []
    found = False
    diverged = []
    validated = 0
    khits = {}
    for (cid, script, meta), (il, _) in zip(cases, both):
        steps = align(script.split("\n"), il)
        tag_env(steps)
        bad = None
        if any(l.startswith("driver-exit") for l in il):
            bad = "the implementation died: %s" % [l for l in il if l.startswith("driver-exit")][0]
        for mname in monitors:
            if bad:
                break
            r = MONITORS[mname](steps, meta)
            if r:
                bad = "%s: %s" % (mname, r)
        if bad:
            kid = known(meta, bad) if known else None
            if kid:
                khits.setdefault(kid, []).append(cid)
            else:
                rep.violation(what, {"case": cid, "script": script.split("\n"), "implementation": wc.comparable(il),
                                     "model": wc.comparable(model.get(cid)) if exe_model else None, "what": bad, "meta": meta,
                                     "runner": "crash"}, found_input=True)
                return True, validated
        if exe_model:
            a, b = projection(il), projection(model.get(cid))
            if a != b:
                diverged.append((cid, script, a, b))
                continue
        validated += 1
    for kid, cids in khits.items():
        rep.known("%s reproduced on %d crash case(s), e.g. %s" % (kid, len(cids), cids[0]))
    if diverged:
        cid, script, a, b = diverged[0]
        first = next((i for i, (x, y) in enumerate(zip(a, b)) if x != y), min(len(a), len(b)))
        rep.defer_divergence({"case": cid, "script": script.split("\n"), "implementation": a, "model": b, "runner": "crash",
                                         "first_difference": {"index": first, "implementation": a[first:first + 3], "model": b[first:first + 3]},
                                         "what": "implementation and model differ on %d crash case(s); the monitors found no failing input" % len(diverged),
                                         "broken": "correspondence (world driver, crash runner)"})
        # reported by conclude_proofs unless a later phase finds a concrete failing input
    for p in problems:
        rep.notes.append(p)
    return found, validated


def count_calls(exe_impl, script_lines):
    """fault-free run of the implementation: per handler op, the list of call names"""
    s = "\n".join(script_lines)
    impl, _, _ = vlib.correspond(exe_impl, None, "world", [("probe", s)], sandbox=True)
    steps = align(script_lines, impl.get("probe") or [])
    res = []
    for i, st in enumerate(steps):
        if st.op in HANDLER_OPS and st.result not in (None, "nohandler"):
            res.append((i, [l.split(" ", 1)[1] for l in st.log]))
    return steps, res


PLAUSIBLE = {
    "open": ["EACCES", "ENOSPC", "EMFILE", "EIO", "ENOENT"],
    "mkdir": ["EACCES", "ENOSPC"], "mkdirat": ["EACCES", "ENOSPC"],
    "sendfile": ["EIO", "ENOSPC", "EINVAL"], "write": ["EIO", "ENOSPC"],
    "close": ["EIO"], "fstat": ["EIO"], "fstatat": ["EIO", "ENOMEM", "ENOENT"], "readlinkat": ["EIO", "ENOMEM", "ENOENT"],      # (ENOENT: a queue link removed under the daemon's feet)
    "symlinkat": ["ENOSPC", "EIO", "EEXIST"], "unlinkat": ["EIO"], "unlink": ["EIO"], "rmdir": ["EIO"],
    "link": ["EMFILE", "ENOSPC"], "linkat": ["ENOSPC"], "ftruncate": ["EIO"], "scandir": ["ENOMEM", "EIO"],
    "read": ["EIO"], "access": ["EIO"], "fts_open": ["ENOMEM"],
}


# ------------------------------------------------------------------ enumeration of fault / crash points

def enumerate_cases(exe_impl, tier, kind, seed=1, only=None):
    """kind 'crash': one case per call index of the operation under test;
    kind 'fault': one case per call index and plausible errno.
    The call indices come from the implementation's own fault-free log."""
    rng = random.Random(seed)
    cases = []
    for sc in wc.scenarios(tier):
        if only and sc["name"] not in only:
            continue
        base = wc.scenario_script(sc, crash=(kind == "crash")).split("\n")
        steps, res = count_calls(exe_impl, base)
        npre = len([l for l in sc["pre"] if l.strip()])
        ops = [(i, c) for i, c in res if i >= npre][:len(sc["ops"])]
        if not ops:
            continue
        names = ops[0][1]
        # phases of a timeout pass over a file head: copy (from the exclusive create to the second close),
        # position (the update of the remembered position), pop (from the readlinkat of pop_head on)
        phases = []
        ph, closes = "head", 0
        for cline in names:
            if "W|CREAT|EXCL" in cline:
                ph, closes = "copy", 0
            elif ph == "copy" and cline.startswith("close"):
                closes += 1
                phases.append(ph)
                if closes == 2:
                    ph = "position"
                continue
            elif ph == "position" and cline.startswith("readlinkat"):
                ph = "pop"
            phases.append(ph)
        for k, cline in enumerate(names):
            cname = cline.split(" ")[0]
            if kind == "crash":
                script = wc.scenario_script(sc, "oracle crash %d" % k, crash=True)
                cases.append(("%s@%d" % (sc["name"], k), script, {"scenario": sc["name"], "k": k, "call": cname, "callline": cline, "phase": phases[k]}))
            else:
                errs = PLAUSIBLE.get(cname, ["EIO"])
                if cname == "open" and not cline.startswith("open $/w/"):
                    # ENOENT is the expected condition "source deleted" at the open of the source; injected at the open
                    # of klunok's own files it would mean "there is no such file" (e.g. no remembered position), which
                    # is a different environment, not a failing call
                    errs = [e for e in errs if e != "ENOENT"]
                if cname == "open" and "W|CREAT|EXCL" in cline and "EEXIST" not in errs and cline.endswith("-> fd"):
                    # the expected condition "name already taken" at the exclusive create of a version
                    errs = errs + ["EEXIST"]
                if tier == "quick" and len(errs) > 2:
                    # the expected conditions at the open of the source (deleted / forbidden) and at the exclusive
                    # create (name taken) are always tried
                    keep = [e for e in errs if (e in ("ENOENT", "EACCES") and cline.startswith("open $/w/")) or (e == "EEXIST" and "W|CREAT|EXCL" in cline)
                            or (e == "EINVAL" and cname == "sendfile")]   # "this file system cannot do sendfile": the error sendfile(2) names first
                    rest = [e for e in errs if e not in keep]
                    errs = keep + rng.sample(rest, max(1, 2 - len(keep)))
                for e in errs:
                    script = wc.scenario_script(sc, "oracle fail %d %s" % (k, e))
                    cases.append(("%s@%d:%s" % (sc["name"], k, e), script, {"scenario": sc["name"], "k": k, "call": cname, "errno": e, "callline": cline, "phase": phases[k]}))
        if kind == "crash":
            # one past the end: the operation completes
            script = wc.scenario_script(sc, "oracle crash %d" % len(names), crash=True)
            cases.append(("%s@%d" % (sc["name"], len(names)), script, {"scenario": sc["name"], "k": len(names), "call": None}))
    return cases


# ------------------------------------------------------------------ more monitors

import re

LABELS = {"xn", "xe", "wn", "we", "del", "forb", "st"}
JOURNALS = ["/k/var/journal", "/k/var/journal2", "/k/var/journal3"]
QUEUES = ["/k/var/queue", "/k/var/queue2", "/k/var/queue3"]
HISTORY_RELS = {"hist.log"}


def hrels(meta):
    """history paths of the case, relative to the common parent (the generator may configure more)"""
    return set(meta.get("history_rels", HISTORY_RELS)) if isinstance(meta, dict) else HISTORY_RELS



def content(ent):
    """bytes of a dumped file (None when too long to be included)"""
    if not ent or ent[0] != "file" or len(ent) < 6 or ent[5] == "-":
        return None
    return unhexs(ent[5])


def decode_target(t):
    """flags and path of a queue link target (the queue codec)"""
    m = 0
    i = 0
    while True:
        if t[i + 1:i + 2] == "/":
            m *= 2
            i += 1
        elif t[i + 1:i + 3] == "./":
            m = m * 2 + 1
            i += 2
        else:
            break
    return m, t[i:]


def queue_of(dump):
    """[(number, path, flags, mtime)] of the (single non-empty) queue directory"""
    out = []
    for q in QUEUES:
        for p, e in dump.items():
            if p.startswith(q + "/") and e[0] == "link":
                m, path = decode_target(unhexs(e[1]))
                name = p[len(q) + 1:]
                # (a link whose name is not a number sorts last: mon_queue_form reports it)
                out.append((q, int(name) if name.isdigit() else 10 ** 9, path, m, int(e[2])))
    out.sort(key=lambda x: (x[0], x[1]))
    return out


def mon_queue_form(steps, meta):
    """C14/C03: every queue directory is a gap-free run of numbered links with decodable targets"""
    for st in steps:
        if st.dump is None:
            continue
        for q in QUEUES:
            names = sorted(int(p[len(q) + 1:]) for p, e in st.dump.items() if p.startswith(q + "/") and p[len(q) + 1:].isdigit())
            other = [p for p in st.dump if p.startswith(q + "/") and not p[len(q) + 1:].isdigit()]
            if other:
                return "queue directory holds a foreign entry %s" % other[0]
            if names and names != list(range(names[0], names[0] + len(names))):
                return "queue directory %s is not a gap-free run: %s" % (q, names)
            for p, e in st.dump.items():
                if p.startswith(q + "/") and (e[0] != "link" or not unhexs(e[1]).startswith("/")):
                    return "queue entry %s is not a link to an absolute path" % p
    return None


def _expand_stamp(pat, clock):
    # (%Z is only used by the run whose time zone has an empty abbreviation: it expands to nothing)
    return pat.replace("%%", "\0").replace("%s", str(clock)).replace("%Z", "").replace("\0", "%")


def mon_journal(steps, meta):
    """C19: journals only grow by whole well-formed lines; stored/deleted labels match what happened; every line is
    stamped by the timestamp pattern of the configuration in force (meta 'stamps')"""
    prev = None
    ops_between = []
    pats = {}           # cfg id -> journal timestamp pattern
    bound = None
    inforce = None
    clock = wc.CLOCK0
    stamps = set()      # stamps the lines since the last dump may carry
    wrong = set()       # stamps of configurations NOT in force
    wlabels = {}        # cfg id -> labels of the two write events
    wexpect = []        # (write step, label its line must carry or None for no line) since the last dump
    dlabels = {}        # cfg id -> {ev4: 'deleted' label, ev5: 'forbidden' label, ev6: 'stored' label}
    qlabels = set()     # labels of the three queue outcomes, of every configuration of the script
    cpl = None          # length of the common parent of the watch roots (from the start line)
    xlabels = {}        # cfg id -> labels of the two execution events
    editors = {}        # cfg id -> configured editor names
    xexpect = []        # (exec step, label) since the last dump
    for st in steps:
        if st.op == "cfg":
            for t in st.tok[2:]:
                if t[:4] in ("ev4=", "ev5=", "ev6=") and t[4:] not in ("-", "h"):
                    qlabels.add(unhexs(t[4:]))
                    dlabels.setdefault(st.tok[1], {})[t[:3]] = unhexs(t[4:])
                if t.startswith("ev0=") or t.startswith("ev1="):
                    xlabels.setdefault(st.tok[1], {})[t[:3]] = None if t[4:] == "-" else unhexs(t[4:])
                if t.startswith("editors="):
                    editors[st.tok[1]] = set(unhexs(x) for x in t[8:].split(",") if x)
                if t.startswith("jpat="):
                    pats[st.tok[1]] = unhexs(t[5:])
                if t.startswith("ev2=") or t.startswith("ev3="):
                    wlabels.setdefault(st.tok[1], {})[t[:3]] = None if t[4:] == "-" else unhexs(t[4:])
        elif st.op == "cfgbind":
            bound = st.tok[1]
        elif st.op == "tick":
            clock += int(st.tok[1])
        if st.op in HANDLER_OPS:
            ops_between.append(st)
            if st.op == "start" and st.result == "ok":
                inforce = st.tok[1]
                cpl = int(st.tok[2]) if len(st.tok) > 2 and st.tok[2].isdigit() else None
            if inforce in pats:
                # an operation is stamped by the pattern in force when it began (a reload's own event included)
                stamps.add(_expand_stamp(pats[inforce], clock))
                for c, p in pats.items():
                    if p != pats[inforce]:
                        wrong.add(_expand_stamp(p, clock))
            if st.op == "write" and st.result == "ok" and inforce in wlabels and len(st.tok) > 2:
                # the write event is labelled by what was decided: "by editor" iff the file was queued for versioning
                # (a queue link was created), "not by editor" otherwise; no label, no line
                queued = any(l.split(" ")[1:2] == ["symlinkat"] for l in st.log)
                wexpect.append((st, wlabels[inforce].get("ev3" if queued else "ev2"), queued))
            if st.op == "exec" and st.result == "ok" and inforce in xlabels and inforce in editors and len(st.tok) > 2:
                # an execution is labelled by the executed file's name alone: one of the configured editors or not -
                # however often, and by whichever process, it is executed
                is_ed = unhexs(st.tok[2]).rsplit("/", 1)[-1] in editors[inforce]
                xexpect.append((st, xlabels[inforce].get("ev1" if is_ed else "ev0"), is_ed, dict(xlabels[inforce])))
            if st.op == "write" and st.result == "ok" and len(st.tok) > 2 and unhexs(st.tok[2]) == CANON_ROOT + "/w/cfg/klunok.lua" and bound in pats:
                inforce = bound
        if st.dump is None:
            continue
        cur = st.dump
        if prev is None:
            wexpect, xexpect = [], []      # (lines written before the first dump cannot be told from what was there)
        if prev is not None:
            newlines = []
            for j in JOURNALS:
                a, b = content(prev.get(j)), content(cur.get(j))
                if j in prev and j not in cur:
                    return "journal %s disappeared" % j
                if a is None and j in prev:
                    continue
                if b is None:
                    continue
                a = a or ""
                if not b.startswith(a):
                    return "journal %s: existing content was not kept as a prefix" % j
                add = b[len(a):]
                if add and not add.endswith("\n"):
                    return "journal %s: torn line %r" % (j, add[-40:])
                newlines += add.split("\n")[:-1]
            for l in newlines:
                f = l.split("\t")
                # [ts] [label] [pid] path
                if not (1 <= len(f) <= 4) or f[-1] == "":
                    return "malformed journal line %r" % l
                if "" in f:
                    return "journal line %r has an empty field (an empty timestamp or label is omitted together with its tab)" % l
                if meta.get("stamps"):
                    # the last field is the path of the event: the absolute path of an exec / write event, or the
                    # path of a queue event relative to the common parent (a project: its directory)
                    known_abs = set()
                    for x in steps:
                        if x.op in ("exec", "write") and len(x.tok) > 2:
                            a = unhexs(x.tok[2])
                            while a.count("/") > 2:
                                known_abs.add(a)
                                a = a.rsplit("/", 1)[0]
                    last = f[-1]
                    if not (last in known_abs or any(a.endswith("/" + last) for a in known_abs)):
                        return "journal line %r does not end with the path of an event (fields must be separated by tabs)" % l
                    # a queue outcome (stored / deleted / forbidden: a label of these three, no process id) names the
                    # queued path - a file, or a project's directory - relative to the common parent, whole
                    if cpl is not None and qlabels & set(f[:-1]) and not (xlabels.get(inforce) and set(x for x in xlabels[inforce].values() if x) & set(f[:-1])) \
                            and not any(x.isdigit() for x in f[:-1]) and not any(a[cpl:] == last for a in known_abs if len(a) >= cpl):
                        cands = sorted(a[cpl:] for a in known_abs if len(a) >= cpl and a.endswith("/" + last))
                        return "journal line %r: the path of a queue outcome is the queued path relative to the common parent of the watch roots (%s), not %r" % (l, cands[:2] or "?", last)
                    # 'forbidden' means: it is there and may not be read.  A queue outcome labelled forbidden (by the
                    # configuration in force, whose three outcome labels differ) for a path of which nothing exists any more
                    # - not the file, not its directory - is mislabelled: that is 'deleted'
                    dl = dlabels.get(inforce, {})
                    if dl.get("ev5") and dl.get("ev5") not in (dl.get("ev4"), dl.get("ev6")) and dl["ev5"] in f[:-1] \
                            and not any(x.isdigit() for x in f[:-1]) and not (xlabels.get(inforce) and dl["ev5"] in xlabels[inforce].values()) \
                            and not (wlabels.get(inforce) and dl["ev5"] in wlabels[inforce].values()):
                        full = "/w/" + last
                        if full not in cur and not any(p.startswith(full + "/") for p in cur):
                            return "journal line %r says access to %s was forbidden, but nothing of that name exists (it was deleted, its directory is gone too)" % (l, last)
                    if len(f) >= 2 and not f[-2].isdigit() and len(f) >= 3 and f[-2] == "":
                        return "journal line %r has an empty field" % l
                if meta.get("stamps") and stamps:
                    good = [x for x in stamps if (x == "" or l.startswith(x + "\t"))]
                    bad = [x for x in wrong - stamps if x != "" and l.startswith(x + "\t") and not any(g != "" for g in good)]
                    if not good or (bad and "" in stamps and all(g == "" for g in good)):
                        return "journal line %r is not stamped by the timestamp pattern in force (expected one of %s)" % (l, sorted(stamps))
                if meta.get("labels_all", True) and ("del" in f[:-1] or "forb" in f[:-1]) and st.tag_same_env:
                    # "labelled stored, deleted or forbidden according to what actually happened"
                    src = cur.get("/w/" + f[-1])
                    if "del" in f[:-1] and src is not None and src[0] == "file" and src[4] == "r":
                        return "journal says %r was deleted, but it is there and readable (%s bytes)" % (f[-1], src[2])
                    if "forb" in f[:-1] and src is not None and src[0] == "file" and src[4] == "r":
                        return "journal says access to %r was forbidden, but it is a readable regular file" % f[-1]
                    if "forb" in f[:-1] and src is None and not any(p.startswith("/w/" + f[-1] + "/") for p in cur) and not f[-1].rsplit("/", 1)[-1] in PROJECTS:
                        return "journal says access to %r was forbidden, but nothing of that name exists any more (it was deleted - with its directory)" % f[-1]
                if len(f) >= 2 and not any(x in LABELS for x in f[:-1]) and meta.get("labels_all", True):
                    return "journal line without a configured label: %r" % l
            if not any(o.result in ("error", "crashed", None) for o in ops_between):
                for (wst, lab, queued) in wexpect:
                    wpath, wpid = unhexs(wst.tok[2]), wst.tok[1]
                    mine = [l.split("\t") for l in newlines if l.split("\t")[-1] == wpath and wpid in l.split("\t")[:-1]]
                    others = set(v for v in wlabels.get(inforce, {}).values() if v not in (None, "", lab))
                    if lab is None and others and any(set(f[:-1]) & others for f in mine):
                        return ("the write '%s' (%s) has no label configured, yet the journal got the line %r"
                                % (wst.line, "queued" if queued else "not queued", "\t".join(mine[0])))
                    if lab not in (None, "") and not any(lab in f[:-1] for f in mine):
                        return ("the write '%s' was %s: its journal line must carry the label %r, the journal got %s"
                                % (wst.line, "queued" if queued else "not queued", lab, ["\t".join(f) for f in mine] or "nothing"))
                for (xst, lab, is_ed, labs) in xexpect:
                    xpath, xpid = unhexs(xst.tok[2]), xst.tok[1]
                    mine = [l.split("\t") for l in newlines if l.split("\t")[-1] == xpath and xpid in l.split("\t")[:-1]]
                    others = set(v for v in labs.values() if v not in (None, "", lab))
                    if lab is None and others and any(set(f[:-1]) & others for f in mine):
                        return ("the execution '%s' (%s) has no label configured, yet the journal got the line %r"
                                % (xst.line, "an editor" if is_ed else "not an editor", "\t".join(mine[0])))
                    if lab not in (None, "") and not any(lab in f[:-1] for f in mine):
                        return ("the execution '%s' is that of %s: its journal line must carry the label %r, the journal got %s"
                                % (xst.line, "a configured editor" if is_ed else "a program that is no editor", lab, ["\t".join(f) for f in mine] or "nothing"))
            wexpect = []
            xexpect = []
            stamps, wrong = set(), set()
            if st.tag_same_env and meta.get("journal_counts", True) and not any(o.result in ("error", "crashed", None) for o in ops_between):
                nw = sum(1 for o in ops_between if o.op == "write")
                nx = sum(1 for o in ops_between if o.op == "exec")
                cw = sum(1 for l in newlines if "\twe\t" in "\t" + l or "\twn\t" in "\t" + l)
                cx = sum(1 for l in newlines if "\txe\t" in "\t" + l or "\txn\t" in "\t" + l)
                if (nw, nx) != (cw, cx):
                    return "%d write and %d exec events were handled but the journal got %d and %d lines for them" % (nw, nx, cw, cx)
                # stored lines must correspond to new versions / snapshots
                for l in newlines:
                    f = l.split("\t")
                    if "st" in f[:-1]:
                        rel = f[-1]
                        base = rel.rsplit("/", 1)[-1]
                        grew = any((p.startswith("/k/store/%s/" % rel) or p.startswith("/k/projects/%s/" % base)) and p not in prev for p in cur)
                        if not grew:
                            return "journal says %r was stored but nothing new is in the store" % rel
                    if "del" in f[:-1] or "forb" in f[:-1]:
                        rel = f[-1]
                        grew = [p for p in cur if p.startswith("/k/store/%s/" % rel) and p not in prev]
                        if grew:
                            return "journal says %r was abandoned but %s appeared in the store" % (rel, grew[0])
        prev = cur
        ops_between = []
        wexpect = []
    return None


def mon_faithful(steps, meta):
    """C05: a new version is byte-for-byte its source; an abandoned copy leaves no file and no empty directory"""
    prev = None
    for st in steps:
        if st.dump is None:
            continue
        cur = st.dump
        if prev is not None and st.tag_same_env:
            for p, e in cur.items():
                if not p.startswith("/k/store/") or p in prev:
                    continue
                if e[0] == "dir":
                    if not any(q.startswith(p + "/") and cur[q][0] == "file" for q in cur):
                        return "empty directory %s was left in the store" % p
                elif e[0] == "file":
                    rel = p[len("/k/store/"):].rsplit("/", 1)[0]
                    src = cur.get(meta.get("wprefix", "/w/") + rel)
                    if rel in hrels(meta):
                        continue
                    if src is None or src[0] != "file":
                        return "version %s exists but its source is not a regular file" % p
                    if file_sig(src) != file_sig(e):
                        return "version %s (%s bytes) differs from its source (%s bytes)" % (p, e[2], src[2])
        prev = cur
    return None


def version_key(name):
    m = re.match(r"^v(\d+)(?:-(\d+))?", name)
    return (int(m.group(1)), int(m.group(2) or 0)) if m else (0, 0)


def mon_history(steps, meta):
    """C08: concatenating the versions of an append-only path reproduces it up to the remembered position"""
    allow_dup = meta.get("allow_duplicate_slice", False)
    for st in steps:
        if st.dump is None:
            continue
        d = st.dump
        for rel in hrels(meta):
            src = content(d.get("/w/" + rel))
            if src is None:
                continue
            vers = sorted((p for p in d if p.startswith("/k/store/%s/" % rel) and d[p][0] == "file"),
                          key=lambda p: version_key(p.rsplit("/", 1)[1]))
            parts = [content(d[p]) for p in vers]
            if any(x is None for x in parts):
                continue
            cat = "".join(parts)
            offc = content(d.get("/k/var/offsets/" + rel))
            off = int(re.match(r"\d*", offc or "").group(0) or 0) if offc is not None else 0
            if off > len(src):
                return "remembered position %d is beyond the file (%d bytes)" % (off, len(src))
            if cat != src[:off]:
                if allow_dup and all(x in src for x in parts) and len(cat) >= off and src[:off] in cat + src:
                    continue
                return "versions of %s concatenate to %r, the file up to position %d is %r" % (rel, cat[-60:], off, src[:off][-60:])
    return None


def simulate_pass(queue, now, deb):
    """which paths a timeout pass must hand to the store (reference FIFO semantics)"""
    q = list(queue)
    stored = []
    while q:
        _, num, path, m, mt = q[0]
        if now - mt < deb:
            break
        if any(x[2] == path for x in q[1:]):
            q.pop(0)
            continue
        stored.append((path, m))
        q.pop(0)
    return stored, q


def mon_bursts(steps, meta):
    """C02: a pass stores exactly one version of each due file with its current content, nothing else, and asks for the right wait"""
    deb = meta.get("deb")
    if deb is None:
        return None
    clock = wc.CLOCK0
    prev = None
    between = []
    debs, bound = {}, None       # the debounce in force follows accepted rewrites of the configuration file
    for st in steps:
        if st.op == "cfg":
            for t in st.tok[2:]:
                if t.startswith("deb="):
                    debs[st.tok[1]] = int(t[4:])
        elif st.op == "cfgbind":
            bound = st.tok[1]
        elif st.op == "start" and st.result == "ok" and st.tok[1] in debs:
            deb = debs[st.tok[1]]
        elif st.op == "write" and st.result == "ok" and len(st.tok) > 2 and unhexs(st.tok[2]) == CANON_ROOT + "/w/cfg/klunok.lua" and bound in debs:
            deb = debs[bound]
        if st.op == "tick":
            clock += int(st.tok[1])
        if st.op in HANDLER_OPS:
            between.append(st)
        if st.dump is None:
            continue
        cur = st.dump
        if prev is not None and st.tag_same_env and len(between) == 1 and between[0].op == "timeout" and (between[0].result or "").startswith("pause"):
            due, rest = simulate_pass(queue_of(prev), clock, deb)
            new = {}
            for p, e in cur.items():
                if p.startswith("/k/store/") and p not in prev and e[0] == "file":
                    new.setdefault(p[len("/k/store/"):].rsplit("/", 1)[0], []).append(p)
            expect = {}
            for path, m in due:
                if m & 1:
                    continue
                rel = path[len(CANON_ROOT + "/w/"):]
                src = cur.get("/w/" + rel)
                expect[rel] = bool(src and src[0] == "file" and src[4] == "r")
            for rel, want in expect.items():
                got = len(new.get(rel, []))
                if want and got != 1:
                    return "%s was due and readable: %d new versions instead of exactly one" % (rel, got)
                if not want and got:
                    return "%s could not be copied but a version appeared" % rel
            for rel in new:
                if rel not in expect:
                    return "a version of %s appeared although it was not due" % rel
            pause = int(between[0].result.split()[1])
            qa = queue_of(cur)
            if [x[1:] for x in qa] != [x[1:] for x in rest]:
                return "pending queue after the pass is %s, expected %s" % ([x[2] for x in qa], [x[2] for x in rest])
            if not rest and pause != -1:
                return "nothing pending but a wait of %d was requested" % pause
            if rest:
                exp = rest[0][4] + deb - clock
                if pause != exp:
                    return "wait %d requested, the earliest pending item is due in %d" % (pause, exp)
        prev = cur
        between = []
    return None


PROJECTS = {"proj": "/w/proj", "p1": "/w/pp/p1", "p2": "/w/pp/p2", "proj2": "/w/hd/proj2"}


def mon_projects(steps, meta):
    """C11: a new snapshot holds hard links to the latest version of every versioned member that still exists;
    a project entry leaves the pending queue only with its snapshot taken (exactly one per entry)"""
    prev = None
    between = []
    for st in steps:
        if st.op in HANDLER_OPS:
            between.append(st)
        if st.dump is None:
            continue
        cur = st.dump
        if prev is not None and st.tag_same_env and len(between) == 1 and between[0].op == "timeout":
            left = {x[1] for x in queue_of(cur)}
            qp = queue_of(prev)
            for qi, (_, num, path, m, mt) in enumerate(qp):
                if not (m & 1) or num in left:
                    continue
                if any(x[2] == path for x in qp[qi + 1:]):
                    continue      # coalesced: a later entry of the same project stands for it
                name = path.rstrip("/").rsplit("/", 1)[1]
                root = PROJECTS.get(name)
                if root is None or root not in cur or cur[root][0] != "dir":
                    continue
                nsn = [p for p, e in cur.items() if e[0] == "dir" and p not in prev and re.match(r"^/k/projects/%s/[^/]+$" % re.escape(name), p)]
                if len(nsn) != 1:
                    return ("the pass (%s) removed the pending entry of project %s, which still exists, and created %d snapshot directories instead of exactly one"
                            % (between[0].result, name, len(nsn)))
        between = []
        if prev is not None and st.tag_same_env:
            snaps = [p for p, e in cur.items() if e[0] == "dir" and p not in prev and re.match(r"^/k/projects/[^/]+/[^/]+$", p)]
            for sdir in snaps:
                name = sdir.split("/")[3]
                root = PROJECTS.get(name)
                if root is None:
                    continue
                members = {p[len(sdir) + 1:]: e for p, e in cur.items() if p.startswith(sdir + "/") and e[0] == "file"}
                unstable = {p[len("/k/var/projects/%s/" % name):] for p, e in prev.items()
                            if p.startswith("/k/var/projects/%s/" % name) and e[0] == "file"}
                unstable |= {p[len("/k/var/projects/%s/" % name):] for p, e in cur.items()
                             if p.startswith("/k/var/projects/%s/" % name) and e[0] == "file"}
                for m, e in members.items():
                    if (root + "/" + m) not in cur:
                        return "snapshot %s contains %s which no longer exists in the project" % (sdir, m)
                    vdir = "/k/store/%s/" % (root + "/" + m)[len(meta.get("wprefix", "/w/")):]
                    vers = sorted((p for p in cur if p.startswith(vdir)), key=lambda p: version_key(p.rsplit("/", 1)[1]))
                    if not vers:
                        return "snapshot member %s has no stored version" % m
                    if cur[vers[-1]][1] != e[1]:
                        return "snapshot member %s is not a hard link to the latest version %s" % (m, vers[-1])
                for m in unstable:
                    if (root + "/" + m) in cur and cur[root + "/" + m][0] == "file" and m not in members:
                        return "versioned member %s still exists but is missing from snapshot %s" % (m, sdir)
        prev = cur
    return None


def mon_project_quiet(steps, meta):
    """C01 for projects: a snapshot of a project appears only in a pass that runs at least the debounce in force after
    the most recent accepted write to ANY file below the project's root (judged from the write events themselves, not
    from the queue the daemon built)"""
    deb = None
    debs, bound = {}, None
    clock = wc.CLOCK0
    last = {}          # project name -> (time, path) of the latest accepted write below its root
    prev = None
    for st in steps:
        if st.op == "cfg":
            for t in st.tok[2:]:
                if t.startswith("deb="):
                    debs[st.tok[1]] = int(t[4:])
        elif st.op == "cfgbind":
            bound = st.tok[1]
        elif st.op == "start" and st.result == "ok" and st.tok[1] in debs:
            deb = debs[st.tok[1]]
        elif st.op == "write" and st.result == "ok" and len(st.tok) > 2:
            path = unhexs(st.tok[2])
            if path == CANON_ROOT + "/w/cfg/klunok.lua" and bound in debs:
                deb = debs[bound]
            rel = path[len(CANON_ROOT):]
            if any(l.split(" ")[1:2] == ["symlinkat"] for l in st.log):       # the write was accepted (queued)
                for name, root in PROJECTS.items():
                    if rel.startswith(root + "/"):
                        last[name] = (clock, rel)
        if st.op == "tick":
            clock += int(st.tok[1])
        if st.dump is None:
            continue
        cur = st.dump
        if prev is not None and st.tag_same_env and deb is not None:
            for sdir in [p for p, e in cur.items() if e[0] == "dir" and p not in prev and re.match(r"^/k/projects/[^/]+/[^/]+$", p)]:
                name = sdir.split("/")[3]
                if name in last and clock - last[name][0] < deb:
                    return ("snapshot %s of project %s was taken at %d, only %d s after the write of %s at %d: the quiet period in force is %d s"
                            % (sdir, name, clock, clock - last[name][0], last[name][1], last[name][0], deb))
        prev = cur
    return None


def _snapshot_complete(cur, sdir, name, root):
    """every versioned member of the project that still exists is in the snapshot as a link to one of its versions"""
    pre = "/k/var/projects/%s/" % name
    for p, e in cur.items():
        if p.startswith(pre) and e[0] == "file":
            m = p[len(pre):]
            src = cur.get(root + "/" + m)
            if not (src and src[0] == "file"):
                continue
            got = cur.get(sdir + "/" + m)
            vdir = "/k/store/%s/%s/" % (root[len("/w/"):], m)
            vers = sorted((q for q in cur if q.startswith(vdir)), key=lambda q: version_key(q.rsplit("/", 1)[1]))
            # after a crash between the pop of a member and the update of its link in the unstable tree the
            # snapshot legitimately holds the previous version (no property quantifies crashes over C11's
            # "latest"); what recovery owes is a snapshot with every surviving member linked to a stored version
            if not got or not vers or got[1] not in [cur[v][1] for v in vers]:
                return False
    return True


def mon_recovery(steps, meta):
    """C03/C10: after the disturbed operation and a restart + drain, every file that was pending and still is a
    readable regular file has a complete version; the queue reloads"""
    dumps = [st.dump for st in steps if st.dump is not None]
    if len(dumps) < 2:
        return None
    pre, last = dumps[0], dumps[-1]
    cl = meta.get("callline", "")
    if meta.get("errno") in ("ENOENT", "EACCES") and cl.startswith("open $/w/") and cl.split(" ")[2] == "R":
        # the failing call is the open of the source: "deleted" / "permission denied" are expected
        # conditions, handled by dropping the item
        return None
    # every start after the disturbance must succeed
    disturbed = 0
    for st in steps:
        if st.op == "oracle":
            disturbed = 1
            continue
        if disturbed == 1 and st.op in HANDLER_OPS:
            disturbed = 2      # this is the disturbed operation itself
            continue
        if disturbed == 2 and st.op == "start" and st.result not in ("ok", None, "crashed"):
            return "restart after the disturbance failed: %s" % st.trace
    for (_, num, path, m, mt) in queue_of(pre):
        if m & 1:
            # a pending project: unless the project is gone, recovery must produce a complete snapshot of it
            name = path.rstrip("/").rsplit("/", 1)[1]
            root = PROJECTS.get(name)
            if root is None or root not in last or last[root][0] != "dir":
                continue
            snaps = [p for p, e in last.items() if e[0] == "dir" and p not in pre and re.match(r"^/k/projects/%s/[^/]+$" % re.escape(name), p)]
            if not any(_snapshot_complete(last, sd, name, root) for sd in snaps):
                return ("project %s was pending before the disturbance and still exists, but recovery produced no complete snapshot of it (new snapshot directories: %s)"
                        % (name, snaps))
            continue
        rel = path[len(CANON_ROOT + "/w/"):]
        src = last.get("/w/" + rel)
        if not (src and src[0] == "file" and src[4] == "r"):
            continue
        vers = [p for p in last if p.startswith("/k/store/%s/" % rel) and last[p][0] == "file"]
        if rel in hrels(meta):
            parts = [content(last[p]) for p in vers]
            sc = content(src)
            if sc is not None and all(x is not None for x in parts):
                if not all(any(i < len(x) + o and o <= i for (o, x) in _positions(sc, parts)) for i in range(len(sc))):
                    return "bytes of history path %s are missing from its versions after recovery" % rel
            continue
        if not any(file_sig(last[p]) == file_sig(src) for p in vers):
            return "%s was pending before the disturbance and still exists, but no complete version of it was stored" % rel
    return None


def _positions(src, parts):
    """best-effort placement of version slices inside the source"""
    out = []
    pos = 0
    for x in parts:
        i = src.find(x, max(0, pos - len(x))) if x else pos
        if i < 0:
            i = src.find(x)
        if i < 0:
            continue
        out.append((i, x))
        pos = i + len(x)
    return out


def mon_no_partial(steps, meta):
    """C10: no partial version stays in the store after a reported failure"""
    dumps = [st.dump for st in steps if st.dump is not None]
    if len(dumps) < 2:
        return None
    pre, last = dumps[0], dumps[-1]
    # a copy whose failure was reported (fault between the exclusive create and the close of the new file)
    # must not leave the file it was writing: its completeness is unknown and the item, still pending,
    # will be stored again
    if meta.get("phase") == "copy":
        seen_oracle = False
        for i, st in enumerate(steps):
            if st.op == "oracle":
                seen_oracle = True
            elif seen_oracle and st.op in HANDLER_OPS:
                if st.result == "error":
                    after = next((x.dump for x in steps[i + 1:] if x.dump is not None), None)
                    # the file being written: the last successful exclusive create before the failing call
                    dest = None
                    for l in ([] if "W|CREAT|EXCL" in meta.get("callline", "") else st.log[:meta.get("k", 0)]):
                        t = l.split(" ")
                        if len(t) >= 6 and t[1] == "open" and t[3] == "W|CREAT|EXCL" and t[-1] == "fd":
                            dest = t[2].replace("$", "", 1)
                    if after is not None and dest and dest in after and dest not in pre and after[dest][0] == "file":
                        return ("the copy failed (%s at call %s '%s', error reported) but the version file %s it was writing stays in the store"
                                % (meta.get("errno"), meta.get("k"), meta.get("callline"), dest))
                break
    for p, e in last.items():
        if p.startswith("/k/store/") and e[0] == "file" and p not in pre:
            rel = p[len("/k/store/"):].rsplit("/", 1)[0]
            if rel in hrels(meta):
                continue
            src = last.get("/w/" + rel)
            if src and src[0] == "file" and file_sig(src) != file_sig(e):
                return "version %s (%s bytes) is not a complete copy of its source (%s bytes)" % (p, e[2], src[2])
    return None


def _disturbed(steps):
    """(index, step) of the operation that ran under the oracle"""
    seen = False
    for i, st in enumerate(steps):
        if st.op == "oracle":
            seen = True
        elif seen and st.op in HANDLER_OPS:
            return i, st
    return None, None


def mon_partial_snapshot(steps, meta):
    """C10: 'no partial version in the store' for project snapshots: when the disturbed pass reported an error, no
    snapshot directory that did not exist before may stay in the project store (the entry, still pending, will be
    snapshotted again under the next free name, and the partial one would pass for a snapshot)"""
    i, st = _disturbed(steps)
    if st is None or st.result != "error":
        return None
    pre = next((x.dump for x in reversed(steps[:i]) if x.dump is not None), None)
    after = next((x.dump for x in steps[i + 1:] if x.dump is not None), None)
    if pre is None or after is None:
        return None
    for p, e in after.items():
        if e[0] == "dir" and p not in pre and re.match(r"^/k/projects/[^/]+/[^/]+$", p):
            root = PROJECTS.get(p.split("/")[3])
            lacks = _snapshot_lacks(after, p, root) if root else []
            if not lacks:
                continue      # complete (the failure came after the walk): a duplicate after the restart, not a partial one
            inside = sorted(q[len(p) + 1:] for q in after if q.startswith(p + "/"))
            return ("the pass failed (%s at call %s '%s', error reported) but the snapshot directory %s it was filling stays in the project store with %s (lacking %s)"
                    % (meta.get("errno"), meta.get("k"), meta.get("callline"), p, inside or "nothing in it", lacks))
    return None


def _snapshot_lacks(d, sd, root):
    """members of the project at `root` that have a stored version and still exist but are not in the snapshot sd"""
    vroot = "/k/store/%s/" % root[len("/w/"):]
    members = sorted(set(q[len(vroot):].rsplit("/", 1)[0] for q, e in d.items() if q.startswith(vroot) and e[0] == "file"))
    return [m for m in members if (d.get(root + "/" + m) or ("",))[0] == "file" and (sd + "/" + m) not in d]


def mon_snapshot_members(steps, meta):
    """C10: 'either still completes the operation or reports an error': when the disturbed pass does NOT report an
    error and a project entry left the queue in it, the snapshot it took holds every member of the project that has a
    stored version and still exists"""
    i, st = _disturbed(steps)
    if st is None or st.result in ("error", "crashed", None):
        return None
    pre = next((x.dump for x in reversed(steps[:i]) if x.dump is not None), None)
    after = next((x.dump for x in steps[i + 1:] if x.dump is not None), None)
    if pre is None or after is None:
        return None
    for (_, num, path, m, mt) in queue_of(pre):
        if not (m & 1) or any(x[2] == path and x[3] & 1 for x in queue_of(after)):
            continue
        name = path.rstrip("/").rsplit("/", 1)[1]
        root = PROJECTS.get(name)
        if root is None or root not in after or after[root][0] != "dir":
            continue
        snaps = [p for p, e in after.items() if e[0] == "dir" and p not in pre and re.match(r"^/k/projects/%s/[^/]+$" % re.escape(name), p)]
        for sd in snaps:
            for mem in _snapshot_lacks(after, sd, root):
                if True:
                    return ("the pass did not report an error (%s injected at call %s '%s') and the project entry %s left the queue, but its snapshot %s lacks the member %s, "
                            "which has a stored version and still exists" % (meta.get("errno"), meta.get("k"), meta.get("callline"), name, sd, mem))
    return None


def mon_fault_reported(steps, meta):
    """C10: a disturbed operation either completes or reports an error; it never crashes the daemon"""
    for st in steps:
        if st.op in HANDLER_OPS and st.op != "stop" and st.result is None:
            return "operation '%s' produced no result (the daemon crashed?)" % st.line
        if st.op in HANDLER_OPS and st.result == "error" and (st.trace in (None, "trace ok")):
            return "operation '%s' failed without reporting an error" % st.line
    return None


def mon_failed_pass_keeps_queue(steps, meta):
    """C02 / C10: a pass that ends in an error has not taken anything off the queue whose version it did not store: every
    entry that was pending before it and for which nothing new is in the store is still pending after it"""
    prev = None
    between = []
    for st in steps:
        if st.op in HANDLER_OPS:
            between.append(st)
        if st.dump is None:
            continue
        cur = st.dump
        if prev is not None and st.tag_same_env and len(between) == 1 and between[0].op == "timeout" and between[0].result == "error":
            left = {(x[1], x[2]) for x in queue_of(cur)}
            for (_, num, path, m, mt) in queue_of(prev):
                if (num, path) in left or (m & 1):
                    continue
                rel = path[len(CANON_ROOT + "/w/"):]
                new = [p for p in cur if p.startswith("/k/store/%s/" % rel) and p not in prev]
                if not new:
                    return ("the pass failed (%s) and yet took the pending entry of %s off the queue without having stored a version of it: after the restart the write is lost"
                            % (" <- ".join(unhexs(t.split(":", 1)[1]) for t in (between[0].trace or "").split()[1:])[:160], rel))
        prev = cur
        between = []
    return None


def mon_idle_means_empty(steps, meta):
    """C10 'either still completes the operation or reports an error' for the pass itself: a pass that answers "nothing
    is pending, wait indefinitely" without an error has left no entry in the queue directory"""
    if isinstance(meta, dict) and meta.get("scenario") in ("reload_new_queue", "accept_after_queue_move"):
        return None      # (K3: entries stranded in a queue directory that is no longer in force)
    for i, st in enumerate(steps):
        if st.op == "timeout" and st.result == "pause -1":
            nxt = next((x for x in steps[i + 1:] if x.dump is not None or x.op in HANDLER_OPS), None)
            if nxt is not None and nxt.dump is not None:
                q = queue_of(nxt.dump)
                if q:
                    return ("the pass answered 'nothing pending' (wait indefinitely) and reported no error, but %d entr%s still in the queue directory (first: %s)%s"
                            % (len(q), "y is" if len(q) == 1 else "ies are", q[0][2][len(CANON_ROOT):],
                               " - under %s %s" % (meta.get("callline"), meta.get("errno")) if isinstance(meta, dict) and meta.get("errno") else ""))
    return None


def mon_expected_handled(steps, meta):
    """C10: the expected conditions - source deleted (ENOENT at the open of the source), permission denied (EACCES
    there), name already taken (EEXIST at the exclusive create) - are handled without stopping: the disturbed
    operation does not end in an error"""
    cl = meta.get("callline", "") if isinstance(meta, dict) else ""
    e = meta.get("errno") if isinstance(meta, dict) else None
    expected = ((e in ("ENOENT", "EACCES") and cl.startswith("open $/w/") and cl.split(" ")[2] == "R")
                or (e == "EEXIST" and cl.startswith("open $/k/store/") and "W|CREAT|EXCL" in cl))
    if not expected or not cl.endswith("-> fd"):
        return None      # (a call that fails in the undisturbed run too belongs to a scenario that is meant to fail)
    disturbed = False
    for st in steps:
        if st.op == "oracle":
            disturbed = True
            continue
        if disturbed and st.op in HANDLER_OPS:
            if st.result == "error":
                return ("the expected condition %s at '%s' made '%s' end in an error (the daemon would stop): %s"
                        % (e, cl, st.line.split()[0], st.trace))
            return None
    return None


def mon_completed_exact(steps, meta):
    """C10: 'either still completes the operation or reports an error': when the disturbed operation does not end in
    an error, what it left must be what a completed operation leaves - for a history path the versions concatenate
    to the file up to the remembered position (no slice twice, none missing, position not rewound)"""
    disturbed = False
    judge = False
    if isinstance(meta, dict) and meta.get("scenario") == "drain_history_collision":
        return None      # (the store holds a version of an earlier life there: the versions do not start at position 0)
    for i, st in enumerate(steps):
        if st.op == "oracle":
            disturbed = True
            continue
        if disturbed and st.op in HANDLER_OPS and not judge:
            if st.result in ("error", "crashed", None):
                return None
            judge = True
            continue
        if judge and st.dump is not None:
            r = mon_history([st], meta)
            return ("the operation under a failing call (%s %s) did not report an error, but: %s" % (meta.get("callline", ""), meta.get("errno", ""), r)) if r else None
    return None


def mon_exec_completed(steps, meta):
    """C10 for execution events (scenario exec_then_loader): 'either still completes the operation or reports an
    error' - if the disturbed exec of an editor binary did not report an error, its loader was learnt: the process
    then executes that loader and writes a plain file, and that write is queued"""
    if not isinstance(meta, dict) or meta.get("scenario") != "exec_then_loader":
        return None
    i, st = _disturbed(steps)
    if st is None or st.result != "ok":
        return None
    later = [x for x in steps[i + 1:] if x.op in HANDLER_OPS][:2]
    if len(later) < 2 or any(x.result != "ok" for x in later):
        return None
    after = next((x.dump for x in steps[i + 1:] if x.dump is not None), None)
    if after is None:
        return None
    if not any(p.startswith("/k/var/queue/") and e[0] == "link" for p, e in after.items()):
        return ("the exec of the editor binary under a failing call (%s %s at call %s) reported no error, but its loader was not learnt: after executing the loader "
                "the process is no longer an editor and its write was not queued" % (meta.get("callline"), meta.get("errno"), meta.get("k")))
    return None


def mon_post_restart_ok(steps, meta):
    """C03: after the crash the daemon starts again and goes on: the passes of the new process do not end in an error
    (whatever the crash left half-written, an empty position file included, is something the next start copes with)"""
    i, st = _disturbed(steps)
    if st is None:
        return None
    started = False
    for x in steps[i + 1:]:
        if x.op == "start":
            started = x.result == "ok"
        elif started and x.op in HANDLER_OPS and x.result == "error":
            msgs = [unhexs(t.split(":", 1)[1]) for t in (x.trace or "").split()[1:]]
            return ("after the crash (before call %s of '%s', %s) and the restart, '%s' stops the daemon again: %s"
                    % (meta.get("k"), st.line.split()[0], meta.get("callline", ""), x.line.split()[0], " <- ".join(msgs)[:200]))
    return None


def mon_accepted_is_queued(steps, meta):
    """C10 / C14 for write events (scenarios accept_*): 'either still completes the operation or reports an error' -
    a qualifying write whose handling under a failing call did not report an error is in the queue: a link for the
    written path exists afterwards"""
    if not isinstance(meta, dict) or not str(meta.get("scenario", "")).startswith("accept_"):
        return None
    i, st = _disturbed(steps)
    if st is None or st.op != "write" or st.result != "ok":
        return None
    pre = next((x.dump for x in reversed(steps[:i]) if x.dump is not None), None)
    after = next((x.dump for x in steps[i + 1:] if x.dump is not None), None)
    if pre is None or after is None:
        return None
    path = unhexs(st.tok[2])
    new = [(num, p_, m) for (_, num, p_, m, mt) in queue_of(after) if (_, num, p_, m, mt) not in queue_of(pre)]
    if not any(p_ == path for (_, p_, m) in new):
        return ("the write of %s under a failing call (%s %s at call %s) reported no error, but no queue entry for it exists: the write is silently lost"
                % (path[len(CANON_ROOT):], meta.get("callline"), meta.get("errno"), meta.get("k")))
    return None


def mon_writes_queued(steps, meta):
    """histories in which every write qualifies (meta 'all_writes_queued': an editor writing visible, non-excluded
    files): each write event that is handled without an error adds a link of its own to the queue - also when the
    same file was written just before (the new link is what restarts the quiet period)"""
    if not (isinstance(meta, dict) and meta.get("all_writes_queued")):
        return None
    for st in steps:
        if st.op == "write" and st.result == "ok" and len(st.tok) > 2 and unhexs(st.tok[2]) != CANON_ROOT + "/w/cfg/klunok.lua":
            if not any(l.split(" ")[1:2] == ["symlinkat"] for l in st.log):
                return "the qualifying write '%s' (%s) was handled without an error but created no queue link" % (st.line, unhexs(st.tok[2])[len(CANON_ROOT):])
    return None


def mon_resources(steps, meta):
    """C20: with a handler loaded exactly two descriptors are open (queue directory, journal) after every
    operation, none after release"""
    loaded = False
    for st in steps:
        if st.op == "start" and st.result == "ok":
            loaded = True
        if st.op == "stop":
            loaded = False
        if st.op in HANDLER_OPS and st.result == "error":
            return None      # the daemon stops here (main exits): what the script does afterwards is not its life
        if st.x is None or st.result in ("error", "crashed", None):
            continue
        want = 2 if loaded else 0
        if st.op in HANDLER_OPS and st.x["fds"] != want:
            return "after '%s' %d descriptors are open, expected %d" % (st.line.split()[0], st.x["fds"], want)
    return None


MONITORS.update({
    "queue_form": mon_queue_form, "journal": mon_journal, "faithful": mon_faithful, "history": mon_history,
    "bursts": mon_bursts, "projects": mon_projects, "recovery": mon_recovery, "no_partial": mon_no_partial,
    "fault_reported": mon_fault_reported, "resources": mon_resources, "expected_handled": mon_expected_handled,
    "completed_exact": mon_completed_exact, "exec_completed": mon_exec_completed, "accepted_is_queued": mon_accepted_is_queued, "project_quiet": mon_project_quiet, "idle_means_empty": mon_idle_means_empty, "failed_pass_keeps_queue": mon_failed_pass_keeps_queue, "writes_queued": mon_writes_queued, "post_restart_ok": mon_post_restart_ok, "partial_snapshot": mon_partial_snapshot, "snapshot_members": mon_snapshot_members,
})


# ------------------------------------------------------------------ standard main for world properties

def standard_main(rep, cases=None, monitors=(), crash_monitors=None, fault_monitors=None, crash=False, fault=False,
                  rule="", only=None, known=None, nontrivial=None, extra=None):
    """cases: [(cid, script, meta)] random / structured histories.
    crash / fault: also enumerate every call index of the scenario families.
    known: f(case meta, message) -> finding id or None (open known findings)."""
    exe_impl, exe_model = vlib.prepare(rep)
    found = False
    total = 0
    validated = 0
    dist = {}
    samples = []
    if exe_impl:
        if extra:
            # a property-specific phase (pure driver cases, ...): returns (found, validated, total)
            f, v, t = extra(rep, exe_impl, exe_model)
            found = found or f
            validated += v
            total += t
        if cases:
            f, v = run_cases_known(rep, exe_impl, exe_model, cases, list(monitors), known)
            found = found or f
            validated += v
            total += len(cases)
            dist["histories"] = len(cases)
            samples.append(cases[0][1].split("\n")[-14:])
        if crash and not found:
            cc = enumerate_cases(exe_impl, rep.tier, "crash", rep.seed, only=only)
            f, v = run_crash_cases(rep, exe_impl, exe_model, cc, list(crash_monitors or monitors), known=known)
            found = found or f
            validated += v
            total += len(cc)
            dist["crash_points"] = len(cc)
            samples.append({"crash case": cc[len(cc) // 2][0], "tail": cc[len(cc) // 2][1].split("\n")[-9:]})
        if fault and not found:
            fc = enumerate_cases(exe_impl, rep.tier, "fault", rep.seed, only=only)
            keep, kf = [], []
            f, v = run_cases_known(rep, exe_impl, exe_model, fc, list(fault_monitors or monitors), known)
            found = found or f
            validated += v
            total += len(fc)
            dist["single_faults"] = len(fc)
            samples.append({"fault case": fc[len(fc) // 2][0], "tail": fc[len(fc) // 2][1].split("\n")[-10:]})
    rep.cov["evaluations"] = total
    rep.cov["distinct_nontrivial"] = total if nontrivial is None else nontrivial
    rep.cov["traces_validated_against_impl"] = validated
    rep.cov["input_distribution"] = dist
    rep.cov["rule"] = rule
    rep.cov["samples"] = samples
    rep.cov["monitors"] = list(monitors)
    vlib.conclude_proofs(rep, found)


def run_cases_known(rep, exe_impl, exe_model, cases, monitors, known, shards=None):
    """run_cases, but a monitor failure that matches an open known finding is
    reported as KNOWN-FINDING and the remaining cases are still judged"""
    if known is None:
        return run_cases(rep, exe_impl, exe_model, cases, monitors)
    impl, model, problems = vlib.correspond(exe_impl, exe_model, "world", [(c, s) for c, s, _ in cases], sandbox=True, shards=shards)
    if shards:
        problems = []      # one process per case: a crashed case is judged by the monitors (no result), not as a driver problem
    found = False
    validated = 0
    diverged = []
    hits = {}
    for cid, script, meta in cases:
        il = impl.get(cid)
        if il is None:
            rep.violation("driver", {"case": cid, "script": script.split("\n"), "what": "no output from the implementation"})
            return True, validated
        steps = align(script.split("\n"), il)
        tag_env(steps)
        bad = None
        for mname in monitors:
            r = MONITORS[mname](steps, meta)
            if r:
                bad = "%s: %s" % (mname, r)
                break
        if bad:
            kid = known(meta, bad)
            if kid:
                hits.setdefault(kid, []).append(cid)
            else:
                rep.violation("world", {"case": cid, "script": script.split("\n"), "implementation": wc.comparable(il),
                                        "what": bad, "meta": meta})
                return True, validated
        if exe_model:
            a, b = project_default(il), project_default(model.get(cid))
            if a != b:
                diverged.append((cid, script, a, b))
                continue
        validated += 1
    for kid, cids in hits.items():
        rep.known("%s reproduced on %d case(s), e.g. %s" % (kid, len(cids), cids[0]))
    if diverged:
        cid, script, a, b = diverged[0]
        first = next((i for i, (x, y) in enumerate(zip(a, b)) if x != y), min(len(a), len(b)))
        rep.defer_divergence({"case": cid, "script": script.split("\n"), "implementation": a, "model": b,
                                         "first_difference": {"index": first, "implementation": a[first:first + 3], "model": b[first:first + 3]},
                                         "what": "implementation and model differ on %d case(s); the monitors found no failing input" % len(diverged),
                                         "broken": "correspondence (world driver)"})
        # reported by conclude_proofs unless a later phase finds a concrete failing input
    for p in problems:
        rep.notes.append(p)
        if not found:
            rep.violation("driver", {"what": p}, found_input=False)
            found = True
    return found, validated


def mon_position_kept(steps, meta):
    """C08/C10: a copy of a history path that fails or is abandoned leaves the remembered position where it was"""
    dumps = [st.dump for st in steps if st.dump is not None]
    if len(dumps) < 2:
        return None
    pre, after = dumps[0], dumps[1]
    for rel in hrels(meta):
        newv = [p for p in after if p.startswith("/k/store/%s/" % rel) and after[p][0] == "file" and p not in pre]
        a, b = pre.get("/k/var/offsets/" + rel), after.get("/k/var/offsets/" + rel)
        if not newv and (a or ())[2:] != (b or ())[2:] and (a is None or a[0] == "file"):
            ca, cb = content(a), content(b)
            return "no version of %s was stored but its remembered position changed from %r to %r" % (rel, ca, cb)
    return None


MONITORS["position_kept"] = mon_position_kept


def mon_event_fd_kept(steps, meta):
    """C17 / C20: the descriptor that comes with a notification is borrowed by the handler and closed by the event loop
    afterwards - exactly once: when handle_open_exec / handle_close_write return it must still be open"""
    for st in steps:
        if st.op in ("exec", "write") and any("eventfd-closed-by-handler" in l for l in st.log):
            return ("the handler closed the notification's descriptor during '%s' (%s): the event loop's close afterwards hits a dead - or by then re-used - descriptor number"
                    % (st.op, unhexs(st.tok[2])[len(CANON_ROOT):] if len(st.tok) > 2 else "?"))
    return None


MONITORS["event_fd_kept"] = mon_event_fd_kept


def mon_no_error(steps, meta):
    """without injected failures and with valid configurations no operation may stop the daemon with an error"""
    if any(st.op == "oracle" and st.tok[1] in ("fail", "crash") for st in steps):
        return None
    if any(st.line.startswith("cfgbind invalid") for st in steps):
        return None
    if isinstance(meta, dict) and meta.get("errors_expected"):
        return None     # the scenario puts a stored version where a directory is needed: stopping with an error is right
    blocked = False     # the scenario made the (project) store unusable (stray file): an error is the right answer
    def store_place(p):
        return p in (CANON_ROOT + "/k/projects", CANON_ROOT + "/k/store") or p.startswith(CANON_ROOT + "/k/store/")
    for st in steps:
        if st.op == "put" and store_place(unhexs(st.tok[1])):
            blocked = True
        if st.op == "rm" and store_place(unhexs(st.tok[1])):
            blocked = False
        if st.op in HANDLER_OPS and st.result == "error" and not blocked:
            msgs = [unhexs(t.split(":", 1)[1]) for t in (st.trace or "").split()[1:]]
            return "operation '%s' stopped the daemon: %s" % (st.line.split()[0], " <- ".join(msgs)[:200])
    return None


MONITORS["no_error"] = mon_no_error


def mon_position_not_ahead(steps, meta):
    """C03/C08: in every state left on disk the remembered position of a history path is not ahead of the bytes stored
    for it (a position ahead of the store means appended bytes will be skipped)"""
    for st in steps:
        if st.dump is None:
            continue
        for rel in hrels(meta):
            o = st.dump.get("/k/var/offsets/" + rel)
            if o is None or o[0] != "file":
                continue
            c = content(o)
            if c is None:
                continue
            digits = ""
            for ch in c:
                if not ch.isdigit():
                    break
                digits += ch
            pos = int(digits) if digits else 0
            stored = sum(int(e[2]) for p, e in st.dump.items() if p.startswith("/k/store/%s/" % rel) and e[0] == "file")
            if pos > stored:
                return "the remembered position of %s is %d but only %d bytes of it are in the store" % (rel, pos, stored)
    return None


MONITORS["position_not_ahead"] = mon_position_not_ahead


def alloc_fault_cases(exe_impl, tier, seed=1, only=None):
    """one case per allocation of the operation under test in each scenario family: that allocation fails (ENOMEM).
    Implementation only: the model does not allocate; the monitors judge the outcome."""
    cases = []
    for sc in wc.scenarios(tier):
        if only and sc["name"] not in only:
            continue
        base = wc.scenario_script(sc).split("\n")
        impl, _, _ = vlib.correspond(exe_impl, None, "world", [("probe", "\n".join(base))], sandbox=True)
        steps = align(base, impl.get("probe") or [])
        npre = len([l for l in sc["pre"] if l.strip()])
        ops = [st for i, st in enumerate(steps) if i >= npre and st.op in HANDLER_OPS and st.x][:len(sc["ops"])]
        if not ops:
            continue
        n = ops[0].x.get("allocs", 0)
        for k in range(n):
            script = wc.scenario_script(sc, "oracle afail %d" % k)
            cases.append(("%s@alloc%d" % (sc["name"], k), script, {"scenario": sc["name"], "k": k, "call": "malloc", "errno": "ENOMEM", "callline": "allocation %d" % k, "phase": "alloc"}))
    return cases
