"""C04 Stored versions are immutable; a taken name is never reused."""
import random

import world_check as wk
import world_common as wc

MON = ["store_immutable", "first_free_name", "faithful", "fault_reported", "no_error"]


def main(rep):
    rng = random.Random(rep.seed)
    n = 200 if rep.tier == "quick" else 4000
    cases = []
    for i in range(n):
        t, m = wc.gen_collision_case(rng)
        cases.append(("c%d" % i, t, m))
    for i in range(n // 2):
        cases.append(("w%d" % i, wc.gen_world_case(rng, dump_around=True), {}))
    # quick: every crash point and every single fault of the passes that run into a taken name (and of a plain
    # pass); thorough: of every scenario family
    only = ["drain_collision", "snapshot_collision", "drain_one", "drain_directory"] if rep.tier == "quick" else None
    wk.standard_main(rep, cases=cases, monitors=MON, crash=True, fault=True, only=only,
                     crash_monitors=["store_immutable"], fault_monitors=["store_immutable", "fault_reported"],
                     rule=("up to 12 versions of one file inside one version timestamp, with 0-4 of the wanted names (base, -1 .. -5) already taken by "
                           "pre-existing files or a directory, restarts in between; plus random mixed histories; every crash point and single fault of the passes that meet a taken name (thorough: "
                           "of all scenario families); monitors: no store file changes or disappears between consecutive dumps, every new version took the first free name"))


def replay(rep, path):
    return wk.replay_world(rep, path, MON)
