"""C04 Stored versions are immutable; a taken name is never reused."""
import random

import world_check as wk
import world_common as wc

MON = ["store_immutable", "first_free_name", "faithful", "fault_reported", "no_error"]


def gen_type_flip_case(rng):
    """a file is versioned; later it is replaced by a DIRECTORY that holds an entry named exactly like that version (a
    restored backup, a copy of the store), and that entry is saved: its own store directory would be the stored version.
    Whatever the daemon answers, the version stays what it was"""
    s = wc.Script()
    W, R = wc.WATCH, wc.R
    wc.setup_world(s, wc.base_cfg(deb=0))
    s.start()
    s.exec(3, wc.X + "/vim")
    name = rng.choice(["notes", "notes.txt", "a.tar.gz", ".rc"])
    ext = {"notes": "", "notes.txt": ".txt", "a.tar.gz": ".tar.gz", ".rc": ""}[name]
    sub = rng.choice(["inc", "inc/deep/er"])
    F = "%s/%s/%s" % (W, sub, name)
    clock = wc.CLOCK0
    s.put(F, "first life")
    s.write(3, F)
    k = rng.randint(0, 3)
    s.tick(k)
    clock += k
    s.dump()
    s.timeout()
    s.dump()
    V = "v%d%s" % (clock, ext)
    if rng.random() < 0.5:
        s.restart()
        s.exec(3, wc.X + "/vim")
    s.rm(F)
    s.mkdirp(F)
    s.put(F + "/" + V, "a file named like the version")
    s.write(3, F + "/" + V)
    other = W + "/n"
    s.put(other, "bystander")
    s.write(3, other)
    s.tick(1)
    s.dump()
    s.timeout()
    s.dump()
    return s.text(), {"errors_expected": True}


def gen_snapshot_name_taken_case(rng):
    """the name of a project's next snapshot is taken - by an earlier snapshot, or by something that is no directory at
    all (a stray file, a link to an archive that is not mounted): the holder stays what it is, the snapshot goes to the
    next free name"""
    s = wc.Script()
    W, R = wc.WATCH, wc.R
    wc.setup_world(s, wc.base_cfg(deb=0))
    s.start()
    s.exec(3, wc.X + "/vim")
    root, name = rng.choice([(W + "/proj", "proj"), (W + "/pp/p1", "p1")])
    k = rng.randint(0, 2)
    s.put(root + "/a.c", "int a;")
    s.write(3, root + "/a.c")
    s.tick(k)
    for j in range(rng.randint(1, 3)):
        holder = "%s/k/projects/%s/v%d%s" % (R, name, wc.CLOCK0 + k, "" if j == 0 else "-%d" % j)
        kind = rng.choice(["file", "dir", "link"])
        if kind == "file":
            s.put(holder, "not a snapshot")
        elif kind == "dir":
            s.mkdirp(holder)
        else:
            s.add("symlink %s %s %d" % (wc.hexs(holder), wc.hexs("/kvnx/archive/gone"), wc.CLOCK0 - 9))
    s.dump()
    s.timeout()
    s.dump()
    return s.text(), {}


def main(rep):
    rng = random.Random(rep.seed)
    n = 200 if rep.tier == "quick" else 4000
    cases = []
    for i in range(max(8, n // 20)):
        t, m = gen_type_flip_case(rng)
        cases.append(("f%d" % i, t, m))
    for i in range(max(8, n // 20)):
        t, m = gen_snapshot_name_taken_case(rng)
        cases.append(("sn%d" % i, t, m))
    for i in range(n):
        t, m = wc.gen_collision_case(rng)
        cases.append(("c%d" % i, t, m))
    for i in range(n // 2):
        cases.append(("w%d" % i, wc.gen_world_case(rng, dump_around=True), {}))
    # quick: every crash point and every single fault of the passes that run into a taken name (and of a plain
    # pass); thorough: of every scenario family
    only = ["drain_collision", "drain_history_collision", "snapshot_collision", "drain_one", "drain_directory"] if rep.tier == "quick" else None
    wk.standard_main(rep, cases=cases, monitors=MON, crash=True, fault=True, only=only,
                     crash_monitors=["store_immutable"], fault_monitors=["store_immutable", "fault_reported"],
                     rule=("up to 12 versions of one file inside one version timestamp, with 0-4 of the wanted names (base, -1 .. -5) already taken by "
                           "pre-existing files or a directory, restarts in between; snapshot names taken by directories, stray files and dangling links; a versioned file replaced by a directory holding an entry named like that version, which is then saved (the stored version is where a directory would be needed); plus random mixed histories; every crash point and single fault of the passes that meet a taken name (thorough: "
                           "of all scenario families); monitors: no store file changes or disappears between consecutive dumps, every new version took the first free name"))


def replay(rep, path):
    return wk.replay_world(rep, path, MON)
