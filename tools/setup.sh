#!/bin/sh
# Build the framework from files on disk only (offline): full .vo build of the
# Coq development, extraction, OCaml model driver.
set -e
cd "$(dirname "$0")/.."
mkdir -p build evidence replays
python3 tools/gen_all.py
cd coq
coq_makefile -f _CoqProject -o Makefile >/dev/null
timeout 3000 make -j16
cd ../extract
timeout 600 coqc -Q ../coq K Extract.v
ocamlfind ocamlopt -package zarith -linkpkg -w -a model.mli model.ml common.ml drivers.ml world.ml main.ml -o ../build/modeldrv
echo setup-ok
