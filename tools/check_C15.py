"""C15 The string multiset counts exactly."""
import itertools
import random

import vlib
from vlib import hexs

M64 = 1 << 64


def py_hash(s):
    h = 0
    for b in s.encode("latin-1"):
        c = b if b < 128 else b - 256
        h = (c + (h << 6) + (h << 16) - h) % M64
    return h


class RefSet:
    """Reference multiset: the property's own wording."""

    def __init__(self):
        self.m = {}

    def add(self, v):
        self.m[v] = self.m.get(v, 0) + 1

    def pop(self, v):
        if self.m.get(v, 0) > 0:
            self.m[v] -= 1

    def count(self, v):
        return self.m.get(v, 0)

    def empty(self):
        return all(c == 0 for c in self.m.values())


def monitor(script_lines, out_lines):
    """Evaluate the property on the implementation's observations.
    Returns None if it holds, else a description."""
    ref = RefSet()
    oi = 0
    buf = ""
    for l in script_lines:
        t = l.split()
        if not t:
            continue
        if t[0] == "new":
            ref = RefSet()
        elif t[0] == "add":
            ref.add(t[1])
        elif t[0] == "addf":
            if oi >= len(out_lines) or out_lines[oi] not in ("addf ok", "addf err"):
                return "missing observation after addf (driver died?)"
            if out_lines[oi] == "addf ok":
                ref.add(t[2])        # a failed insertion leaves the multiset as it was
            oi += 1
        elif t[0] == "pop":
            ref.pop(t[1])
        elif t[0] == "q":
            if oi >= len(out_lines):
                return "missing observation (driver died?)"
            exp = "cnt " + " ".join(str(ref.count(v)) for v in t[1:]) + " emp %d" % (1 if ref.empty() else 0)
            if out_lines[oi] != exp:
                return "observed '%s', reference multiset says '%s'" % (out_lines[oi], exp)
            oi += 1
        elif t[0] == "hash":
            exp = "hash %d" % py_hash(vlib.unhexs(t[1]))
            if oi >= len(out_lines) or out_lines[oi] != exp:
                return "observed '%s', expected '%s'" % (out_lines[oi] if oi < len(out_lines) else None, exp)
            oi += 1
        elif t[0] == "bnew":
            buf = ""
        elif t[0] == "bchar" or t[0] == "bstr":
            buf += vlib.unhexs(t[1])
        elif t[0] == "bset":
            buf = buf[:min(int(t[1]), len(buf))]
        elif t[0] == "bhash":
            exp = "bh %d" % py_hash(buf)
            if oi >= len(out_lines) or out_lines[oi] != exp:
                return "the buffer holds %r: hash observed '%s', expected '%s'" % (buf, out_lines[oi] if oi < len(out_lines) else None, exp)
            oi += 1
        elif t[0] == "bq":
            exp = "bc %d" % ref.count(hexs(buf))
            if oi >= len(out_lines) or out_lines[oi] != exp:
                return "query with the buffer %r as key: observed '%s', reference multiset says '%s'" % (buf, out_lines[oi] if oi < len(out_lines) else None, exp)
            oi += 1
    return None


def gen_cases(tier, seed):
    rng = random.Random(seed)
    cases = []
    alpha = ["a", "c", "e"]  # a,c collide mod 2; a,e collide mod 4
    hx = [hexs(s) for s in alpha]
    opsyms = [("add", h) for h in hx] + [("pop", h) for h in hx]
    q = "q " + " ".join(hx)
    maxlen = 6 if tier == "quick" else 7
    n = 0
    for g in (0, 1):
        for seq in itertools.product(range(len(opsyms)), repeat=maxlen):
            lines = ["new %d" % g, q]
            for i in seq:
                lines.append("%s %s" % opsyms[i])
                lines.append(q)
            cases.append(("x%d_%d" % (g, n), "\n".join(lines), "exhaustive"))
            n += 1
    # random long sequences over random byte strings
    nrand = 300 if tier == "quick" else 4000
    for k in range(nrand):
        pool = []
        for _ in range(rng.randint(2, 12)):
            ln = rng.choice([0, 1, 1, 2, 3, 8, 40])
            pool.append("".join(chr(rng.choice([rng.randint(1, 127), rng.randint(128, 255)])) for _ in range(ln)))
        g = rng.choice([0, 0, 1, 2, 5, 60])
        lines = ["new %d" % g]
        for _ in range(rng.randint(50, 400)):
            v = hexs(rng.choice(pool))
            lines.append("%s %s" % (rng.choice(["add", "add", "pop"]), v))
            lines.append("q " + " ".join(hexs(rng.choice(pool)) for _ in range(3)))
        cases.append(("r%d" % k, "\n".join(lines), "random"))
    # insertions during which an allocation fails (judged by the monitor only: the model does not allocate)
    for k in range(150 if tier == "quick" else 1500):
        pool = ["a", "c", "e", "zz", "".join(chr(rng.randint(97, 122)) for _ in range(rng.randint(1, 6)))]
        if k % 3 == 0:
            pool.append("")      # the empty string is a string like any other (and what a buffer holds before it is filled)
        lines = ["new %d" % rng.choice([0, 1, 2])]
        qq = "q " + " ".join(hexs(v) for v in pool)
        for _ in range(rng.randint(3, 25)):
            r = rng.random()
            v = hexs(rng.choice(pool))
            if r < 0.3:
                lines.append("addf %d %s" % (rng.choice([0, 1, 2, 3, 4, 5, 6]), v))
            elif r < 0.65:
                lines.append("add " + v)
            else:
                lines.append("pop " + v)
            lines.append(qq)
        cases.append(("f%d" % k, "\n".join(lines), "alloc"))
    # distinct strings of equal length with the SAME full 64-bit hash (the hash is a polynomial in the bytes, so a
    # colliding pair stays one under a common prefix / suffix and under a common shift of all bytes): only the
    # final string comparison tells them apart
    CA, CB = "sqpqjslgoipqkm", "gjkjqgoskrkion"
    assert py_hash(CA) == py_hash(CB) and CA != CB
    for k in range(120 if tier == "quick" else 1500):
        t = rng.randint(-5, 5)
        a = "".join(chr(ord(c) + t) for c in CA)
        b = "".join(chr(ord(c) + t) for c in CB)
        pre = rng.choice(["", "/", "/tmp/", "/home/u/.config/"])
        suf = rng.choice(["", ".txt", "/x"])
        pool = [pre + a + suf, pre + b + suf, pre + a, "z"]
        lines = ["new %d" % rng.choice([0, 1, 2, 60])]
        qq = "q " + " ".join(hexs(v) for v in pool)
        for _ in range(rng.randint(4, 40)):
            lines.append("%s %s" % (rng.choice(["add", "add", "pop"]), hexs(rng.choice(pool))))
            lines.append(qq)
        cases.append(("k%d" % k, "\n".join(lines), "collision"))
    # strings of arbitrary length: around and far beyond 4096 bytes (PATH_MAX is a property of paths, not of this
    # table), sharing their first 4096 bytes and differing only after them
    for k in range(24 if tier == "quick" else 200):
        base = "".join(chr(rng.randint(97, 122)) for _ in range(4096))
        pool = [base[:4095], base, base + "a", base + "b", base + "a" * rng.randint(2, 2000), base + "b" + "c" * rng.randint(1, 50)]
        lines = ["new %d" % rng.choice([0, 1, 2, 60])]
        qq = "q " + " ".join(hexs(v) for v in pool)
        if rng.random() < 0.5:
            lines.append("hash " + hexs(rng.choice(pool[2:])))
        for _ in range(rng.randint(4, 30)):
            lines.append("%s %s" % (rng.choice(["add", "add", "pop"]), hexs(rng.choice(pool))))
            lines.append(qq)
        cases.append(("l%d" % k, "\n".join(lines), "long"))
    # hash and hash-cache sequences: a growable buffer is appended to, truncated (by 0, 1, 2, ... characters, the
    # boundary of the cached-hash invalidation) and re-hashed; its view is also used as the key of set queries
    for k in range(300 if tier == "quick" else 3000):
        lines = []
        for _ in range(5):
            s = "".join(chr(rng.randint(1, 255)) for _ in range(rng.randint(0, 30)))
            lines.append("hash " + hexs(s))
        pool = ["".join(chr(rng.choice([97, 98, 99, 200])) for _ in range(rng.randint(1, 4))) for _ in range(4)]
        pool += [p[:-1] for p in pool if len(p) > 1]
        lines.append("new %d" % rng.choice([0, 1, 4]))
        for p in pool:
            if rng.random() < 0.7:
                lines.append("add " + hexs(p))
        lines.append("bnew")
        cur = 0
        for _ in range(rng.randint(3, 30)):
            r = rng.random()
            if r < 0.2:
                lines.append("bchar " + hexs(chr(rng.choice([97, 98, 99, 200, rng.randint(1, 255)]))))
                cur += 1
            elif r < 0.4:
                w = rng.choice(pool + ["".join(chr(rng.randint(1, 255)) for _ in range(rng.randint(0, 9)))])
                lines.append("bstr " + hexs(w))
                cur += len(w)
            elif r < 0.6:
                n = max(0, cur - rng.choice([0, 1, 1, 1, 2, 3, cur]))
                lines.append("bset %d" % n)
                cur = n
            elif r < 0.8:
                lines.append("bhash")
            else:
                lines.append("bq")
        lines.append("bhash")
        lines.append("bq")
        lines.append("bend")
        cases.append(("h%d" % k, "\n".join(lines), "hash"))
    return cases


def nontrivial(script):
    """a case is non-trivial if some string is added twice or a collision bucket is shared, and something is removed"""
    return " pop " in script or "\npop " in script


def main(rep):
    exe_impl, exe_model = vlib.prepare(rep)
    cases = gen_cases(rep.tier, rep.seed)
    found = False
    if exe_impl:
        impl, model, problems = vlib.correspond(exe_impl, exe_model, "set", [(c, s) for c, s, _ in cases])
        rep.cov["evaluations"] = len(cases)
        kinds = {}
        distinct = set()
        for cid, script, kind in cases:
            kinds[kind] = kinds.get(kind, 0) + 1
            if nontrivial(script):
                distinct.add(hash(script))
        rep.cov["distinct_nontrivial"] = len(distinct)
        rep.cov["input_distribution"] = kinds
        rep.cov["exhaustive"] = False
        rep.cov["rule"] = ("all add/pop sequences of length %d over 3 strings colliding in 2- and 4-bucket tables (size guess 0 and 1), "
                           "counts of all 3 strings and is_empty observed after every step; random 50-400 step sequences over pools of "
                           "random byte strings (bytes >= 128 included), size guesses {0,1,2,5,60}; hash and hash-cache sequences; pairs of distinct strings with the same full 64-bit hash; strings of 4095 to 6100 bytes that agree on their first 4096; insertions with a failing allocation (monitor only); one string inserted and removed 70 000 times, observed around 255 / 256 / 65 535 / 65 536 (monitor only). "
                           "non-trivial = contains at least one removal; distinct by script text") % (6 if rep.tier == "quick" else 7)
        rep.cov["samples"] = [cases[0][1].split("\n")[:8], cases[-1][1].split("\n")[:8]]
        # multiplicities beyond the small: one string inserted 70 000 times (a path queued again and again before the
        # queue drains), observed around 255 / 256 / 65 535 / 65 536, then removed again (monitor only: the reference
        # is a dictionary)
        hot, other = hexs("/home/u/hot.log"), hexs("/home/u/other")
        ql = "q %s %s" % (hot, other)
        lines = ["new 1", "add %s" % other]
        marks = {254, 255, 256, 257, 65534, 65535, 65536, 65537, 70000}
        for i in range(1, 70001):
            lines.append("add %s" % hot)
            if i in marks:
                lines.append(ql)
        for i in range(1, 70001):
            lines.append("pop %s" % hot)
            if (70000 - i) in marks or i == 70000:
                lines.append(ql)
        lines += ["pop %s" % other, ql]
        longcase = ("long0", "\n".join(lines), "long")
        limpl, _, lproblems = vlib.correspond(exe_impl, None, "set", [(longcase[0], longcase[1])])
        bad = monitor(longcase[1].split("\n"), limpl.get("long0") or [])
        if bad is not None:
            rep.violation("counts", {"case": "long0", "script": ["new 1", "add %s" % other, "add %s   (70000 times, '%s' after 254, 255, 256, 257, 65534, 65535, 65536, 65537, 70000 insertions)" % (hot, ql), "pop ... (70000 times)"],
                                     "implementation": limpl.get("long0"), "what": "one string inserted 70 000 times: " + bad}, found_input=True)
            found = True
        rep.cov["evaluations"] = len(cases) + 1
        validated = 0
        # first pass: the monitor on every case (a concrete failing input wins); second: model against implementation
        for cid, script, kind in cases:
            il = impl.get(cid)
            bad = "no output from implementation" if il is None else monitor(script.split("\n"), il)
            if bad is not None:
                rep.violation("counts", {"case": cid, "script": script.split("\n"), "implementation": il, "model": model.get(cid) if exe_model else None,
                                         "what": bad, "replay": "./check C15 --replay <this file>"}, found_input=True)
                found = True
                break
        if not found:
            for cid, script, kind in cases:
                il = impl.get(cid)
                ml = model.get(cid) if exe_model else None
                if kind != "alloc" and ml is not None and il != ml:
                    rep.defer_divergence({"case": cid, "script": script.split("\n"), "implementation": il, "model": ml,
                                          "what": "implementation and model differ"})
                    continue
                validated += 1
        rep.cov["traces_validated_against_impl"] = validated
        for p in problems:
            rep.notes.append(p)
            if not found:
                rep.violation("driver", {"what": p}, found_input=False)
                found = True
    vlib.conclude_proofs(rep, found)


def replay(rep, path):
    import json
    d = json.load(open(path))
    exe_impl, exe_model = vlib.prepare(rep)
    script = "\n".join(d["script"])
    impl, model, problems = vlib.correspond(exe_impl, exe_model, "set", [("replay", script)])
    print("implementation:", impl.get("replay"))
    print("model:         ", model.get("replay"))
    bad = monitor(d["script"], impl.get("replay") or [])
    print("monitor:", bad or "holds")
    return 1 if bad or impl.get("replay") != model.get("replay") else 0
