"""C19 The journal gets one well-formed line per labelled event, append-only."""
import random

import world_check as wk
import world_common as wc

MON = ["journal", "fault_reported", "no_error"]


def empty_stamp_phase(rep, exe_impl, exe_model):
    """implementation only: a timestamp pattern that is not empty but EXPANDS to nothing (%Z in a time zone whose
    abbreviation is the empty string): 'an empty timestamp ... being omitted' is about the expansion"""
    import os
    import vlib
    zone = os.path.join(vlib.BUILD, "emptyzone")
    with open(zone, "wb") as f:
        # TZif version 1, one local time type: offset 0, not DST, abbreviation "" (index 0 of a 1-byte string table)
        f.write(b"TZif" + b"\0" * 16 + b"\0\0\0\0" * 4 + b"\0\0\0\1" + b"\0\0\0\1" + b"\0\0\0\0" + b"\0" + b"\0" + b"\0")
    rng = random.Random(rep.seed + 19)
    cases = []
    for i in range(12 if rep.tier == "quick" else 100):
        s = wc.Script()
        wc.setup_world(s, wc.base_cfg(deb=0, jpat="%Z"))
        s.start()
        files = [wc.WATCH + "/inc/a.txt", wc.WATCH + "/n"]
        for _ in range(rng.randint(3, 10)):
            r = rng.random()
            if r < 0.3:
                s.exec(rng.choice([3, 4]), rng.choice([wc.X + "/vim", wc.X + "/cat"]))
            elif r < 0.7:
                f = rng.choice(files)
                s.put(f, "data%d" % rng.randint(0, 99))
                s.write(rng.choice([3, 4]), f)
            else:
                s.timeout()
            s.dump()
        cases.append(("z%d" % i, s.text(), {"stamps": True}))
    impl, _, problems = vlib.correspond(exe_impl, None, "world", [(c, t) for c, t, _ in cases], sandbox=True, env={"KDRV_TZ": ":" + zone})
    found = False
    validated = 0
    for cid, script, meta in cases:
        il = impl.get(cid)
        if il is None:
            continue
        steps = wk.align(script.split("\n"), il)
        wk.tag_env(steps)
        for mname in ("journal", "fault_reported"):
            r = wk.MONITORS[mname](steps, meta)
            if r:
                rep.violation("world", {"case": cid, "script": script.split("\n"), "env": {"KDRV_TZ": ":" + zone + " (a TZif file whose only abbreviation is empty)"},
                                        "implementation": wc.comparable(il), "what": "%s: %s" % (mname, r)})
                return True, validated, len(cases)
        validated += 1
    return found, validated, len(cases)


def mon_only_stored(steps, meta):
    """configuration with ONLY the 'stored' outcome labelled (label S, no stamp; the shipped defaults have this shape):
    every journal line is 'S<TAB>path', and each one corresponds to a version or snapshot that appeared in that pass;
    a deleted / unreadable / non-regular source has no label, hence no line"""
    if not meta.get("only_stored"):
        return None
    prev = None
    for st in steps:
        if st.dump is None:
            continue
        cur = st.dump
        if prev is not None:
            a, b = wk.content(prev.get("/k/var/journal")) or "", wk.content(cur.get("/k/var/journal")) or ""
            for l in b[len(a):].split("\n")[:-1]:
                f = l.split("\t")
                if f[0] != "S" or len(f) != 2:
                    return "journal line %r: only the stored outcome has a label (S) in this configuration" % l
                rel = f[1]
                base = rel.rsplit("/", 1)[-1]
                if not any((p.startswith("/k/store/%s/" % rel) or p.startswith("/k/projects/%s/" % base)) and p not in prev for p in cur):
                    return "journal says %r was stored, but nothing new is in the store for it (its source: %s)" % (rel, cur.get("/w/" + rel, ("absent",))[0])
        prev = cur
    return None


wk.MONITORS["only_stored"] = mon_only_stored


def gen_only_stored_case(rng):
    s = wc.Script()
    wc.setup_world(s, wc.base_cfg(deb=0, jpat="", ev=[None, None, None, None, None, None, "S"]))
    s.start()
    s.exec(3, wc.X + "/vim")
    files = [wc.WATCH + "/inc/a.txt", wc.WATCH + "/n", wc.WATCH + "/proj/m.c"]
    for i in range(rng.randint(2, 6)):
        f = rng.choice(files)
        s.put(f, "c%d" % i)
        s.write(3, f)
        change = rng.choice(["none", "none", "delete", "directory", "unreadable"])
        if change == "delete":
            s.rm(f)
        elif change == "directory":
            s.rm(f)
            s.mkdirp(f)
        elif change == "unreadable":
            s.chmod(f, False)
        s.dump()
        s.timeout()
        s.dump()
        if change == "directory":
            s.add("rmdir %s" % wc.hexs(f))
        elif change == "unreadable":
            s.chmod(f, True)
    return s.text(), {"only_stored": True, "labels_all": False, "journal_counts": False}


def main(rep):
    rng = random.Random(rep.seed)
    n = 250 if rep.tier == "quick" else 5000
    cases = []
    for i in range(n):
        t, m = wc.gen_journal_case(rng)
        cases.append(("j%d" % i, t, m))
    for i in range(n // 3):
        cases.append(("w%d" % i, wc.gen_world_case(rng, dump_around=True), {}))
    for i in range(max(6, n // 25)):
        # the store cannot take the version (a stray file sits where the directory of the versions belongs) while the
        # source is perfectly readable: whatever the pass does, it must not journal the file as deleted or forbidden
        s = wc.Script()
        wc.setup_world(s, wc.base_cfg(deb=0))
        s.start()
        f = rng.choice([wc.WATCH + "/inc/a.txt", wc.WATCH + "/inc/b"])
        s.put(f, "readable %d" % i)
        s.put(wc.R + "/k/store" + f[len(wc.WATCH):], "stray")
        s.write(3, f)
        s.dump()
        s.timeout()
        s.dump()
        cases.append(("b%d" % i, s.text(), {"journal_counts": False}))
    for i in range(max(8, n // 20)):
        t, m = gen_only_stored_case(rng)
        cases.append(("s%d" % i, t, m))
    wk.standard_main(rep, cases=cases, monitors=["only_stored"] + MON, extra=empty_stamp_phase,
                     rule=("every label independently absent / empty / text, timestamp patterns {'' (expands to nothing), %s, x, t%s-, with slashes; and, implementation only, %Z in a time zone whose abbreviation is empty: a non-empty pattern that expands to nothing}, exec / write / pass events, "
                           "a short-write oracle (1-9 bytes) at a random call of ~30% of the operations, dump after every operation; monitors: each journal only grows, "
                           "by whole well-formed lines; with the default labels also line counts per event and stored/deleted labels against the store"))


def replay(rep, path):
    return wk.replay_world(rep, path, ["only_stored"] + MON)
