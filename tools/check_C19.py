"""C19 The journal gets one well-formed line per labelled event, append-only."""
import random

import world_check as wk
import world_common as wc

MON = ["journal", "fault_reported", "no_error"]


def main(rep):
    rng = random.Random(rep.seed)
    n = 250 if rep.tier == "quick" else 5000
    cases = []
    for i in range(n):
        t, m = wc.gen_journal_case(rng)
        cases.append(("j%d" % i, t, m))
    for i in range(n // 3):
        cases.append(("w%d" % i, wc.gen_world_case(rng, dump_around=True), {}))
    wk.standard_main(rep, cases=cases, monitors=MON,
                     rule=("every label independently absent / empty / text, timestamp patterns {'' (expands to nothing), %s, x, t%s-}, exec / write / pass events, "
                           "a short-write oracle (1-9 bytes) at a random call of ~30% of the operations, dump after every operation; monitors: each journal only grows, "
                           "by whole well-formed lines; with the default labels also line counts per event and stored/deleted labels against the store"))


def replay(rep, path):
    return wk.replay_world(rep, path, MON)
