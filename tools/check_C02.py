"""C02 Every qualifying write is versioned exactly once per burst, with final content."""
import random

import world_check as wk
import world_common as wc

MON = ["bursts", "failed_pass_keeps_queue", "writes_queued", "faithful", "store_immutable", "queue_form", "fault_reported", "no_error"]


def main(rep):
    rng = random.Random(rep.seed)
    n = 250 if rep.tier == "quick" else 5000
    cases = []
    for i in range(n):
        t, m = wc.gen_burst_case(rng)
        cases.append(("b%d" % i, t, m))
    # a file whose POLICY changed (it was an append-only history path, the configuration now in force makes it an
    # ordinary file - or the other way round) is written as a whole and left alone: one version with its content
    import check_C05
    for i in range(max(10, n // 20)):
        t, m = check_C05.gen_policy_change_case(rng)
        cases.append(("pc%d" % i, t, m))
    wk.standard_main(rep, cases=cases, monitors=MON,
                     rule=("random histories of bursts (1-3 writes) to 5 files (plain, extension-less, nested, history), clock steps {0,1,2,d,d+1}, "
                           "timeout passes with dumps before and after, restarts; debounce in {0,1,2,3}; the burst monitor recomputes from the queue directory "
                           "which paths are due (reference FIFO) and demands exactly one new version with the current content for each readable one, none otherwise, "
                           "the expected remaining queue and the expected wait; every case contains at least one pass over a non-empty queue; plus a path whose policy changes between history and ordinary by a reload and which is then rewritten as a whole: the version holds its content"))


def replay(rep, path):
    import json
    d = json.load(open(path))
    return wk.replay_world(rep, path, MON)
