"""C14 The persistent queue behaves as a coalescing FIFO and round-trips its data."""
import json

import linq_common as lc
import vlib

PID = "C14"


def cases_for(tier, seed):
    cases = list(lc.gen_exhaustive(4 if tier == "quick" else 6))
    cases += list(lc.gen_random(400 if tier == "quick" else 6000, seed))
    return cases


def is_nontrivial(script):
    return script.count("lq_push") >= 2 and ("lq_head" in script or "lq_drain" in script)


def main(rep, pid=PID, handler_style=False, extra=None):
    exe_impl, exe_model = vlib.prepare(rep, tag=pid)
    found = False
    if exe_impl:
        if handler_style:
            cases = list(lc.gen_exhaustive(4 if rep.tier == "quick" else 6, deb0=2, handler_style=True))
            cases += list(lc.gen_random(600 if rep.tier == "quick" else 8000, rep.seed, handler_style=True))
        else:
            cases = cases_for(rep.tier, rep.seed)
        unn = list(lc.gen_unnormal()) if not handler_style else []
        allc = cases + unn
        impl, model, problems = vlib.correspond(exe_impl, exe_model, "linq", [(c, s) for c, s, _ in allc], sandbox=True)
        kinds = {}
        distinct = set()
        for cid, script, kind in allc:
            kinds[kind] = kinds.get(kind, 0) + 1
            if is_nontrivial(script):
                distinct.add(hash(script))
        rep.cov["evaluations"] = len(allc)
        rep.cov["distinct_nontrivial"] = len(distinct)
        rep.cov["input_distribution"] = kinds
        rep.cov["rule"] = ("all sequences of length %d over {push a, push b (flags 5), push a (flags 2), head, pop, tick 1, redebounce 0/3, reload}, "
                           "directory dumped after every step, then a drain; random 20-200 step scripts over pools of 1-6 paths "
                           "(up to 3900 bytes, bytes >= 128), flags up to 2^30-1 in every bit length, debounce in {0,1,2,5,7}, restarts; "
                           "non-trivial = at least two enqueues and one look at the head; distinct by script text"
                           % (4 if rep.tier == "quick" else 6))
        rep.cov["samples"] = [cases[7][1].split("\n"), cases[-1][1].split("\n")[:12]]
        validated = 0
        mode = "debounce" if handler_style else "fifo"
        diverged = []
        for cid, script, kind in cases:
            il = impl.get(cid)
            ml = model.get(cid) if exe_model else None
            bad = "no output from implementation" if il is None else lc.check_trace(script.split("\n"), il, mode)
            if bad is not None:
                rep.violation(mode, {"case": cid, "script": script.split("\n"), "implementation": il, "model": ml,
                                     "what": bad}, found_input=True)
                found = True
                break
            if ml is not None and il != ml:
                diverged.append((cid, script, il, ml))
            else:
                validated += 1
        if diverged and not found:
            cid, script, il, ml = diverged[0]
            # the theorems are about the model: a behaviour that differs from it is no longer covered
            rep.defer_divergence({"case": cid, "script": script.split("\n"), "implementation": il, "model": ml,
                                  "what": "implementation and model differ on %d case(s); the property's monitor found no failing input" % len(diverged),
                                  "broken": "correspondence linq driver (projection: every output line)"})
        rep.cov["traces_validated_against_impl"] = validated
        # known finding F8 (API level): un-normal paths do not round-trip
        kf = [k for k in vlib.known_findings().get("open", []) if k["property"] == pid]
        for cid, script, kind in unn:
            il = impl.get(cid)
            ml = model.get(cid) if exe_model else None
            bad = lc.check_trace(script.split("\n"), il or [])
            if il is not None and ml is not None and il != ml and not found:
                rep.violation("fifo", {"case": cid, "script": script.split("\n"), "implementation": il, "model": ml,
                                       "what": "implementation and model differ on an un-normal path"}, found_input=False)
                found = True
            if bad:
                sig = [k for k in kf if k.get("signature") == "unnormal-path"]
                if sig:
                    rep.known("%s: %s" % (sig[0]["id"], bad))
                elif not found:
                    rep.violation("codec", {"case": cid, "script": script.split("\n"), "implementation": il, "what": bad})
                    found = True
        for p in problems:
            rep.notes.append(p)
            if not found:
                rep.violation("driver", {"what": p}, found_input=False)
                found = True
    if extra and exe_impl and not found:
        found = extra(rep, exe_impl, exe_model) or found
    vlib.conclude_proofs(rep, found)


def replay(rep, path, pid=PID):
    d = json.load(open(path))
    exe_impl, exe_model = vlib.prepare(rep, tag=pid)
    script = "\n".join(d["script"])
    impl, model, problems = vlib.correspond(exe_impl, exe_model, "linq", [("replay", script)], sandbox=True)
    print("implementation:", impl.get("replay"))
    print("model:         ", model.get("replay"))
    bad = lc.check_trace(d["script"], impl.get("replay") or [], "debounce" if pid == "C01" else "fifo")
    print("monitor:", bad or "holds")
    return 1 if bad or impl.get("replay") != model.get("replay") else 0
