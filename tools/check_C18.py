"""C18 Command line, watch roots, common parent and mounts behave as documented."""
import itertools
import json
import random

import main_common as mc
import vlib
from vlib import hexs, unhexs

TOKENS = ["-c", "-d", "-w", "-e", "-h", "-v", "-x", "--", "x", "", "-wx"]


def ref_parse(args):
    """the documented grammar: [-h | -v | -c PATH | -d PATH | -w PATH | -e PATH]..."""
    cfg = drop = None
    w, e = [], []
    i = 0
    help_ = version = False
    while i < len(args):
        a = args[i]
        if not (len(a) == 2 and a[0] == "-"):
            return ("error", "An unknown option has been passed")
        o = a[1]
        if o == "h":
            help_ = True
            break
        if o == "v":
            version = True
            break
        if o not in "cdwe":
            return ("error", "An unknown option has been passed")
        if i + 1 >= len(args):
            return ("error", "An option without a required value has been passed")
        v = args[i + 1]
        if o == "c":
            if cfg is not None:
                return ("error", "An option has been passed more than once, but it cannot have multiple values")
            cfg = v
        elif o == "d":
            if drop is not None:
                return ("error", "An option has been passed more than once, but it cannot have multiple values")
            drop = v
        elif o == "w":
            w.append(v)
        else:
            e.append(v)
        i += 2
    return ("ok", help_, version, cfg, drop if drop is not None else ".", list(reversed(w)) or ["."], list(reversed(e)) or ["/"])


def render(r):
    if r[0] == "error":
        return "params error " + hexs(r[1])
    _, h, v, cfg, drop, w, e = r
    return "params ok help=%d version=%d c=%s d=%s w=%s e=%s" % (h, v, hexs(cfg) if cfg is not None else "-", hexs(drop),
                                                                  "".join(hexs(x) + "," for x in w), "".join(hexs(x) + "," for x in e))


def deepest_common(a, b):
    """offset of paths relative to the deepest directory containing both"""
    ca = [] if a == "/" else a[1:].split("/")
    cb = [] if b == "/" else b[1:].split("/")
    k = 0
    while k < len(ca) and k < len(cb) and ca[k] == cb[k]:
        k += 1
    d = "/" + "/".join(ca[:k])
    return 1 if d == "/" else len(d) + 1


def main(rep):
    exe_impl, exe_model = vlib.prepare(rep)
    found = False
    rng = random.Random(rep.seed)
    pcases = []
    n = 0
    maxlen = 4 if rep.tier == "quick" else 5
    for ln in range(0, maxlen + 1):
        for combo in itertools.product(TOKENS[:10] if ln >= 4 else TOKENS, repeat=ln):
            # the C driver cannot pass an empty argv element through its hex tokens unless encoded: 'h' alone is the empty string
            pcases.append(("a%d" % n, "params " + " ".join(hexs(t) for t in combo), ("params", list(combo))))
            n += 1
    paths = ["/", "/a", "/a/b", "/a/bc", "/a/b/c", "/ab", "/abc/def", "/abc/de", "/abc/def/ghi", "/d", "/a/b/c/d/e"]
    for a, b in itertools.product(paths, repeat=2):
        pcases.append(("a%d" % n, "cpp %s %s" % (hexs(a), hexs(b)), ("cpp", a, b)))
        n += 1
    mcases = []
    roots = ["/", "/a", "/a/b", "/a/c", "/d"]
    m = 0
    for k in (1, 2, 3):
        for combo in itertools.product(roots, repeat=k):
            if k == 3 and rep.tier == "quick" and rng.random() < 0.6:
                continue
            mounted = [r for r in roots if rng.random() < 0.4]
            if rng.random() < 0.3:
                # a long mount table (more than one page): the roots of interest are listed after the first 4 KiB
                mounted = ["/mnt/filler-%03d-%s" % (i, "x" * 60) for i in range(70)] + mounted
            # the same directory may be spelled in several ways on the command line (".", "..", relative):
            # what counts is the directory it resolves to
            def spell(r):
                if rng.random() < 0.7:
                    return r
                return rng.choice([r.rstrip("/") + "/.", "/x/.." + (r if r != "/" else "/"), "." + r])
            real = {r: r for r in roots}
            real["."] = "/cwd"
            args = []
            for r in combo:
                sp = spell(r)
                real[sp] = r
                args += ["-w", sp]
            eroots = rng.choice([[], ["/a"], ["/", "/d"]])
            for r in eroots:
                sp = spell(r)
                real[sp] = r
                args += ["-e", sp]
            mcases.append(("m%d" % m, mc.main_case(args=args, real=real, mounted=mounted, slots=[]), (list(combo), eroots, mounted)))
            m += 1
    # a root that is NOT a mount point while the mount table lists another directory of the same length and the same
    # 64-bit hash (the table is looked up through a hash set): it is mounted like any other
    CA, CB = "/sqpqjslgoipqkm", "/gjkjqgoskrkion"
    for wr, mnt in (([CB], ["/", CA]), ([CA], ["/", CB]), ([CA, CB], ["/", CA]), (["/x" + CB], ["/", "/x" + CA])):
        real = {r: r for r in roots + wr}
        real["."] = "/cwd"
        args = []
        for r in wr:
            args += ["-w", r]
        mcases.append(("m%d" % m, mc.main_case(args=args, real=real, mounted=mnt, slots=[]), (list(wr), [], mnt)))
        m += 1
    # mount points whose names hold the characters the kernel escapes in /proc/self/mounts (space, tab, newline,
    # backslash are written \040 \011 \012 \134), and a directory whose NAME is literally `a\040b`: a root that is listed
    # is a mount point and is not mounted again, one that is not listed is
    odd = ["/mnt/a b", "/mnt/tab\there", "/mnt/back\\slash", "/mnt/a\\040b", "/mnt/nl\nx", "/mnt/ends ", "/mnt/\\", "/mnt/a  b"]
    for i in range(len(odd) * (2 if rep.tier == "quick" else 6)):
        wr = [odd[i % len(odd)]] + rng.sample(odd + ["/a"], rng.randint(0, 2))
        mnt = ["/"] + [r for r in odd if rng.random() < 0.5]
        if i < len(odd):
            mnt = ["/", wr[0]]
        real = {r: r for r in roots + odd}
        real["."] = "/cwd"
        args = []
        for r in wr:
            args += ["-w", r]
        mcases.append(("m%d" % m, mc.main_case(args=args, real=real, mounted=mnt, slots=[]), (list(wr), [], mnt)))
        m += 1
    # mount tables that are not what the kernel writes (no second field, empty lines, no final newline, a backslash not
    # followed by three octal digits, an escape at the very end): read without harm, the well-formed lines count
    RAW = [("", []), ("\n", []), ("onlyonefield\n", []), ("dev /a type rw 0 0", ["/a"]), ("\n\ndev /a x\n\n", ["/a"]), ("dev /a\n", ["/a"]),
           ("dev /mnt/x\\04 t\ndev /a t\n", ["/mnt/x\\04", "/a"]), ("dev /mnt/x\\ t\n", ["/mnt/x\\"]), ("dev /mnt/q\\0401 t\n", ["/mnt/q 1"]),
           ("dev /mnt/x\\777 t\n", ["/mnt/x\\777"]), ("dev /mnt/e\\04", ["/mnt/e\\04"]), ("a b\nc d\ne f", ["b", "d", "f"]), (" /a t\n", ["/a"]),
           ("dev  /a t\n", [""]), ("dev /d\\134\\134 t\n", ["/d\\\\"])]
    for text, mpoints in RAW:
        wr = [r for r in mpoints if r.startswith("/")][:2] + ["/a", "/mnt/x"]
        real = {r: r for r in roots + wr}
        real["."] = "/cwd"
        args = []
        for r in wr:
            args += ["-w", r]
        mcases.append(("m%d" % m, mc.main_case(args=args, real=real, mounted=[], mounts_raw=text, slots=[]), (list(wr), [], mpoints)))
        m += 1
    # malformed command lines: nothing may be mounted or watched
    for bad in (["-w"], ["-x", "/a"], ["-c", "a", "-c", "b"], ["-w", "/a", "w"], ["-d", "x", "-d", "y", "-w", "/a"]):
        mcases.append(("m%d" % m, mc.main_case(args=bad, real={r: r for r in roots}, mounted=[], slots=[]), ("malformed", bad)))
        m += 1
    # "relative names in configuration ... are taken relative to the deepest directory containing all write-watched
    # roots": the offset computed for pairs of roots, and relative rule names of one, two and more characters (a root
    # itself, a file in a root) looked up at that offset by the real sieve()
    import check_C06 as c6
    scases = []
    for ra, rb in (("/srv/a", "/srv/bb"), ("/srv/a", "/srv/a"), ("/a", "/b"), ("/srv/x/y", "/srv/x/z"), ("/", "/srv")):
        off = deepest_common(ra, rb)
        for root in (ra, rb):
            for fname in ("note.txt", "n", "d/e"):
                path = (root.rstrip("/") + "/" + fname)
                if len(path) <= off:
                    continue
                rel = path[off:]
                comps = rel.split("/")
                for j in range(1, len(comps) + 1):
                    name = "/".join(comps[:j])
                    for kind in c6.KINDS[:4]:
                        scases.append(("s%d" % len(scases), path, off, {kind: [name]}))
    validated = 0
    if exe_impl:
        simpl, smodel, sproblems = vlib.correspond(exe_impl, exe_model, "sieve", [(c, c6.sv_line(p, o, st)) for c, p, o, st in scases])
        for cid, path, off, sets in scases:
            bad = c6.sieve_monitor(path, off, sets, simpl.get(cid))
            if bad:
                rep.violation("relative", {"case": cid, "script": [c6.sv_line(path, off, sets)], "driver": "sieve", "implementation": simpl.get(cid),
                                           "what": "path %s, names relative to offset %d, rule %s: %s" % (path, off, sets, bad)})
                found = True
                break
            validated += 1
        impl, model, problems = vlib.correspond(exe_impl, exe_model, "pure", [(c, s) for c, s, _ in pcases])
        problems += sproblems
        for cid, script, meta in pcases:
            il = impl.get(cid)
            exp = render(ref_parse(meta[1])) if meta[0] == "params" else "cpp %d" % deepest_common(meta[1], meta[2])
            if not il or il[0] != exp:
                rep.violation("cli", {"case": cid, "script": [script], "driver": "pure", "input": meta, "implementation": il,
                                      "what": "got '%s', the documentation says '%s'" % (il[0] if il else None, exp)})
                found = True
                break
            if exe_model and il != model.get(cid):
                # a divergence is reported only if no monitor fires on any case (a concrete failing input wins)
                rep.defer_divergence({"case": cid, "script": [script], "driver": "pure", "implementation": il, "model": model.get(cid),
                                                 "what": "implementation and model differ"})
                continue
            validated += 1
        if not found:
            impl, model, problems2 = vlib.correspond(exe_impl, exe_model, "main", [(c, s) for c, s, _ in mcases], sandbox=True)
            problems += problems2
            for cid, script, meta in mcases:
                il = impl.get(cid) or []
                bad = None
                if meta[0] == "malformed":
                    if any(l.split()[0] in ("faninit", "mount", "mark", "load") for l in il) or not il or il[-1] != "exit 1 parse":
                        bad = "a malformed command line %s was not rejected before mounting/watching: %s" % (meta[1], il)
                else:
                    wroots, eroots, mounted = meta
                    eroots = eroots or ["/"]
                    seen = set(mounted)
                    exp = ["faninit"]
                    for kind, rs in (("w", list(reversed(wroots))), ("e", list(reversed(eroots)))):
                        for r in rs:
                            if r not in seen:
                                exp.append("mount " + hexs(r))
                                seen.add(r)
                            exp.append("mark %s %s" % (kind, hexs(r)))
                    cpl = min([deepest_common(a, b) for a in wroots for b in wroots])
                    got = [l for l in il if l.split()[0] in ("faninit", "mount", "mark")]
                    if got != exp:
                        bad = "mounts/marks were %s, documented behaviour is %s" % ([(l.split()[0], unhexs(l.split()[-1])) for l in got[1:]],
                                                                                      [(l.split()[0], unhexs(l.split()[-1])) for l in exp[1:]])
                    else:
                        ld = [l for l in il if l.startswith("load ")]
                        if not ld or int(ld[0].split()[2]) != cpl:
                            bad = "relative paths start at offset %s, the deepest common directory of %s gives %d" % (ld[0].split()[2] if ld else None, wroots, cpl)
                if bad:
                    rep.violation("roots", {"case": cid, "script": script.split("\n"), "driver": "main", "implementation": il, "what": bad})
                    found = True
                    break
                if exe_model and il != model.get(cid):
                    # a divergence is reported only if no monitor fires on any case (a concrete failing input wins)
                    rep.defer_divergence({"case": cid, "script": script.split("\n"), "driver": "main", "implementation": il, "model": model.get(cid),
                                                     "what": "implementation and model differ"})
                    continue
                validated += 1
        for p in problems:
            rep.notes.append(p)
            if not found:
                rep.violation("driver", {"what": p}, found_input=False)
                found = True
    rep.cov["evaluations"] = len(pcases) + len(mcases) + len(scases)
    rep.cov["distinct_nontrivial"] = len(pcases) + len(mcases)
    rep.cov["traces_validated_against_impl"] = validated
    rep.cov["input_distribution"] = {"argv": sum(1 for c in pcases if c[2][0] == "params"), "path pairs": sum(1 for c in pcases if c[2][0] == "cpp"),
                                     "root sets on main()": len(mcases)}
    rep.cov["rule"] = ("every argv up to length %d over {-c,-d,-w,-e,-h,-v,-x,--,x,'',-wx} through the real parse_params, judged by a reference parser written from the "
                       "documented grammar; all pairs of 11 canonical paths through get_common_parent_path_length against 'deepest common directory'; the real main() on every "
                       "sequence of 1-3 write roots from {/, /a, /a/b, /a/c, /d} (equal, nested, disjoint, the root directory; about a third spelled non-canonically, e.g. '/a/.', '/x/../a') with random mount tables (some longer than a page, read in whole records as from /proc) and exec roots: "
                       "a directory is bind-mounted exactly when not yet a mount point, every root marked, offset of relative paths = deepest common directory; mount points whose names hold the characters the kernel escapes in /proc/self/mounts "
                       "(space, tab, newline, backslash: the table is written the kernel's way by the harness, and by MountParse.render_mounts on the model side) and a directory literally named a\\\\040b; "
                       "15 mount tables that are not what the kernel writes (one field, empty lines, no final newline, truncated or out-of-range escapes); malformed "
                       "command lines rejected before anything is mounted or watched" % maxlen)
    rep.cov["samples"] = [pcases[100][1], mcases[10][1].split("\n")[:3]]
    vlib.conclude_proofs(rep, found)


def replay(rep, path):
    d = json.load(open(path))
    exe_impl, exe_model = vlib.prepare(rep)
    drv = d.get("driver", "pure")
    impl, model, _ = vlib.correspond(exe_impl, exe_model, drv, [("replay", "\n".join(d["script"]))], sandbox=(drv == "main"))
    print("implementation:", impl.get("replay"))
    print("model:         ", model.get("replay"))
    return 1 if impl.get("replay") != model.get("replay") else 0
