#!/bin/sh
# developer helper: run checks against /repo with a seeded breaking change applied
#   tools/seeded.sh <seeded dir name> [check id ...]      (default: every check)
# The patch is applied to /repo's working tree with `git apply` and always undone
# with `git checkout -- .`; evidence and replays of these runs go to /tmp/seedrun_<name>.
name=$1; shift
dir=/verif/seeded/$name
[ -f $dir/patch.diff ] || { echo "no $dir/patch.diff"; exit 2; }
ids="$@"
[ -n "$ids" ] || ids="C01 C02 C03 C04 C05 C06 C07 C08 C09 C10 C11 C12 C13 C14 C15 C16 C17 C18 C19 C20"
out=/tmp/seedrun_$name
rm -rf $out; mkdir -p $out
[ -z "$(git -C /repo status --porcelain --untracked-files=no)" ] || { echo "/repo is not clean"; exit 2; }
git -C /repo apply $dir/patch.diff || exit 2
trap 'git -C /repo checkout -- .' EXIT INT TERM
for id in $ids; do
  VERIF_OUT=$out /verif/check $id > $out/$id.log 2>&1
  rc=$?
  v=$(grep -c '^VIOLATION' $out/$id.log)
  nf=$(grep '^VIOLATION' $out/$id.log | grep -c 'no-failing-input-found')
  echo "$name $id exit=$rc violations=$v no-failing-input=$nf"
done | tee $out/summary.txt
