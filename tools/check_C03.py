"""C03 Pending work and stored versions survive a crash at any point."""
import world_check as wk


def known(meta, msg):
    import vlib
    for k in vlib.known_findings().get("open", []):
        if k["property"] == "C03" and k.get("signature") == "reload-changes-queue-path" and meta.get("scenario") == "reload_new_queue" and msg.startswith("recovery"):
            return k["id"]
    return None


def mon_link_source_versioned(steps, meta):
    """a pending file that, by the time of the drain, is a symbolic link to a readable regular file still exists as far
    as a reader is concerned: draining yields a complete version of it (the bytes a reader gets)"""
    want = meta.get("link_source") if isinstance(meta, dict) else None
    if not want:
        return None
    dumps = [st.dump for st in steps if st.dump is not None]
    if not dumps:
        return None
    last = dumps[-1]
    rel, text = want
    vers = [p for p, e in last.items() if p.startswith("/k/store/%s/" % rel) and e[0] == "file"]
    if not any(wk.content(last[p]) == text for p in vers):
        pend = [x[2] for x in wk.queue_of(last)]
        return ("%s was pending, was replaced by a symbolic link to a readable file while the daemon was down, and restart + drain stored no version holding what it reads as "
                "(versions: %s; still pending: %s; last results: %s)" % (rel, [p.rsplit("/", 1)[1] for p in vers], [p[len(wk.CANON_ROOT):] for p in pend],
                                                                        [st.result for st in steps if st.op in ("start", "timeout")][-3:]))
    return None


wk.MONITORS["link_source_versioned"] = mon_link_source_versioned


def link_source_phase(rep, exe_impl, exe_model):
    """implementation only (the model's watched tree has no symbolic links): accepted, the daemon is stopped before the
    drain, the file is moved away and a link left in its place, restart, drain"""
    import random
    import world_common as wc
    rng = random.Random(rep.seed + 3)
    cases = []
    for i in range(6 if rep.tier == "quick" else 40):
        s = wc.Script()
        wc.setup_world(s, wc.base_cfg(deb=rng.choice([0, 2])))
        s.start()
        s.exec(3, wc.X + "/vim")
        A, B = wc.WATCH + "/inc/a%d.txt" % i, wc.WATCH + "/n"
        text = "moved to the archive %d" % i
        s.put(A, "before the move")
        s.write(3, A)
        s.put(B, "bystander")
        s.write(3, B)
        s.add("stop")
        s.rm(A)
        s.put(wc.WATCH + "/archive/a%d.txt" % i, text)
        s.add("symlink %s %s %d" % (wc.hexs(A), wc.hexs(wc.WATCH + "/archive/a%d.txt" % i), wc.CLOCK0))
        s.tick(3)
        s.add("start %s %d %s" % (s.cfgid, wc.CPL, wc.hexs(wc.CFG_PATH)))
        s.timeout()
        s.dump()
        s.timeout()
        s.dump()
        cases.append(("ls%d" % i, s.text(), {"link_source": ("inc/a%d.txt" % i, text)}))
    f, v = wk.run_cases_known(rep, exe_impl, None, cases, ["link_source_versioned", "store_immutable", "queue_form"], known)
    return f, v, len(cases)


def main(rep):
    wk.standard_main(rep, crash=True, known=known, extra=link_source_phase, crash_monitors=["recovery", "post_restart_ok", "store_immutable", "queue_form", "fault_reported", "position_not_ahead"],
                     rule=("every system-call boundary (crash before call k, for every k of the implementation's own call log, and after the last) of the "
                           "operation under test in each scenario family: accepting a write (plain / project), timeout pass over one, duplicated, colliding, "
                           "history (first / with offset / first name taken / formerly history, now ordinary), project (first / second snapshot), deleted, unreadable, directory sources, configuration reload to a "
                           "new queue and journal, a write accepted after a reload that moved the empty queue, loading an existing queue, editor exec; the implementation really dies (_exit) and a new process restarts "
                           "and drains; crashed and recovered disks compared with the model under the same crash index; every case is non-trivial; plus (implementation only) a pending file replaced by a symbolic link to a readable file while the daemon is down: restart and drain store what it reads as"))


def replay(rep, path):
    return wk.replay_world(rep, path, ["recovery", "post_restart_ok", "store_immutable", "queue_form", "position_not_ahead"])
