"""C03 Pending work and stored versions survive a crash at any point."""
import world_check as wk


def known(meta, msg):
    import vlib
    for k in vlib.known_findings().get("open", []):
        if k["property"] == "C03" and k.get("signature") == "reload-changes-queue-path" and meta.get("scenario") == "reload_new_queue" and msg.startswith("recovery"):
            return k["id"]
    return None


def main(rep):
    wk.standard_main(rep, crash=True, known=known, crash_monitors=["recovery", "post_restart_ok", "store_immutable", "queue_form", "fault_reported", "position_not_ahead"],
                     rule=("every system-call boundary (crash before call k, for every k of the implementation's own call log, and after the last) of the "
                           "operation under test in each scenario family: accepting a write (plain / project), timeout pass over one, duplicated, colliding, "
                           "history (first / with offset / first name taken / formerly history, now ordinary), project (first / second snapshot), deleted, unreadable, directory sources, configuration reload to a "
                           "new queue and journal, a write accepted after a reload that moved the empty queue, loading an existing queue, editor exec; the implementation really dies (_exit) and a new process restarts "
                           "and drains; crashed and recovered disks compared with the model under the same crash index; every case is non-trivial"))


def replay(rep, path):
    return wk.replay_world(rep, path, ["recovery", "post_restart_ok", "store_immutable", "queue_form", "position_not_ahead"])
