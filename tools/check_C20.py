"""C20 Steady-state resource use does not grow with the number of events."""
import random

import vlib
import world_check as wk
import world_common as wc
from world_common import WATCH, X, R

MON = ["resources", "fault_reported", "no_error"]


def cycle(s, rng, i):
    """one round of a mixed history: files, history path, project, collision, deleted source, exec events"""
    A, B, H, P = WATCH + "/inc/a.txt", WATCH + "/n", WATCH + "/hist.log", WATCH + "/proj/src/m.c"
    s.exec(3, X + "/elf/vim")
    s.exec(6, X + "/elf/vim")     # the same editor started again: its loader is already known
    s.exec(6, X + "/ld.so")
    s.exec(4, X + "/cat")
    # editor-named executables whose image is damaged: every rejection path of the ELF reader
    s.exec(5, X + "/cut/vim")        # ends inside the PT_INTERP segment
    s.exec(5, X + "/cut2/vim")       # ends inside the program header table
    s.exec(5, X + "/nonul/vim")      # interpreter string without terminator
    s.exec(5, X + "/short/vim")      # shorter than an ELF header
    s.put(A, "a%d" % i)
    s.write(3, A)
    s.put(B, "b%d" % i)
    s.write(3, B)
    s.write(4, B)
    # names with the characters a line-oriented record has to think about (tab, backslash, newline)
    for odd in (WATCH + "/inc/tab\tname %d.txt" % (i % 2), WATCH + "/inc/back\\slash.txt", WATCH + "/inc/two\nlines.txt"):
        s.put(odd, "o%d" % i)
        s.write(3, odd)
    s.append(H, "line %d\n" % i)
    s.write(4, H)
    if i % 2 == 1:
        # the remembered position of the history path is an empty file (what an interrupted update leaves: truncated,
        # not yet rewritten); reading it ends at once and must cost nothing
        s.put(R + "/k/var/offsets/hist.log", "")
    s.put(P, "p%d" % i)
    s.write(3, P)
    s.timeout()          # same second: collisions from the second round on
    s.put(A, "again%d" % i)
    s.write(3, A)
    s.rm(A)              # deleted source
    D = WATCH + "/inc/d.txt"
    s.put(D, "d%d" % i)
    s.write(3, D)
    s.rm(D)
    s.mkdirp(D)          # source replaced by a directory
    U = WATCH + "/inc/u.txt"
    s.put(U, "u%d" % i)
    s.write(3, U)
    s.chmod(U, False)    # unreadable source
    # an editor's probe file in a project of which nothing has ever been stored (vim's 4913): written, deleted before
    # its turn - the project's turn then finds no tree of links to walk
    G = WATCH + "/pp/ghost/4913"
    s.put(G, "probe")
    s.write(3, G)
    s.rm(G)
    s.timeout()
    s.add("rmdir %s" % wc.hexs(D))
    s.chmod(U, True)
    s.tick(1)
    s.timeout()
    # a deleted source whose (already existing, empty) store directory cannot be removed: the clean-up after the
    # abandoned copy fails with EACCES, which is nobody's business - and must not cost anything either
    E = WATCH + "/inc/e.txt"
    SE = R + "/k/store/inc/e.txt"
    s.put(E, "e%d" % i)
    s.write(3, E)
    s.rm(E)
    s.mkdirp(SE)
    s.add("chmodx %s 555" % wc.hexs(R + "/k/store/inc"))
    s.timeout()
    s.add("chmodx %s 755" % wc.hexs(R + "/k/store/inc"))
    s.add("rmdir %s" % wc.hexs(SE))
    # a restart with an entry still pending: the queue is loaded from a non-empty directory
    s.put(B, "pending%d" % i)
    s.write(3, B)
    s.restart()


def soak_script(rounds, seed):
    rng = random.Random(seed)
    s = wc.Script(log=False)
    wc.setup_world(s, wc.base_cfg(deb=0))
    s.put(WATCH + "/hist.log", "")
    img = wc.elf_image(X + "/ld.so")
    s.put(X + "/cut/vim", img[:-3])
    s.put(X + "/cut2/vim", img[:100])
    s.put(X + "/nonul/vim", wc.elf_image(X + "/ld.so", nul=False))
    s.put(X + "/short/vim", img[:20])
    s.start()
    for i in range(rounds):
        cycle(s, rng, i)
    s.add("live")
    s.add("stop")
    s.add("live")
    return s.text()


def burst_script(nfiles):
    """one burst of nfiles distinct files, all due in the same pass (a mass save, a checkout, a restart over a long
    queue): what is held afterwards must not depend on how many there were"""
    s = wc.Script(log=False)
    wc.setup_world(s, wc.base_cfg(deb=0))
    s.start()
    s.exec(3, X + "/vim")
    for i in range(nfiles):
        f = WATCH + "/inc/burst/f%04d.txt" % i
        s.put(f, "b%d" % i)
        s.write(3, f)
    s.tick(1)
    s.timeout()
    s.timeout()
    s.add("live")
    s.add("stop")
    s.add("live")
    return s.text()


def debounce_script(rounds):
    """rounds of: save, wait out the debounce, save again, a pass (the due head is superseded by the second save, which
    is not due yet: the pass asks to wait), wait, a pass that stores; with a second file in between"""
    s = wc.Script(log=False)
    wc.setup_world(s, wc.base_cfg(deb=2))
    s.start()
    s.exec(3, X + "/vim")
    A, B = WATCH + "/inc/a.txt", WATCH + "/n"
    for i in range(rounds):
        s.put(A, "a%d" % i)
        s.write(3, A)
        s.tick(2)
        s.put(A, "again%d" % i)
        s.write(3, A)
        s.timeout()
        s.put(B, "b%d" % i)
        s.write(3, B)
        s.write(3, A)
        s.tick(1)
        s.timeout()
        s.tick(2)
        s.timeout()
    s.add("live")
    s.add("stop")
    s.add("live")
    return s.text()


def main(rep):
    exe_impl, exe_model = vlib.prepare(rep)
    found = False
    total = 0
    validated = 0
    if exe_impl:
        rng = random.Random(rep.seed)
        n = 120 if rep.tier == "quick" else 2500
        cases = [("w%d" % i, wc.gen_world_case(rng, dump_around=False), {}) for i in range(n)]
        f, v = wk.run_cases(rep, exe_impl, exe_model, cases, MON)
        found = found or f
        validated += v
        total += len(cases)
        # rewrites of the configuration file of every kind (valid, invalid Lua, ill-typed, a journal that cannot be
        # opened, a new queue): whatever an operation answers, if it did not stop the daemon it holds the two
        # descriptors it held before
        if not found:
            import check_C16 as c16
            rcases = c16.reload_cases(rep.tier, rep.seed)[:80 if rep.tier == "quick" else 1200]
            f, v = wk.run_cases(rep, exe_impl, exe_model, rcases, ["resources", "fault_reported"], what="reloads")
            found = found or f
            validated += v
            total += len(rcases)
            n += len(rcases)
        # soak: the same round x1, x10, x100 must end with the same number of live blocks and descriptors
        rounds = [1, 10, 100] if rep.tier == "quick" else [1, 10, 100, 400]
        soak = [("soak%d" % r, soak_script(r, rep.seed)) for r in rounds]
        bursts = [20, 140, 300] if rep.tier == "quick" else [20, 127, 128, 129, 300, 1100]
        soak += [("burst%d" % b, burst_script(b)) for b in bursts]
        soak += [("wait%d" % r, debounce_script(r)) for r in rounds]
        impl, _, problems = vlib.correspond(exe_impl, None, "world", soak, sandbox=True, shards=len(soak))
        figures = {}
        for cid, script in soak:
            xs = [l for l in (impl.get(cid) or []) if l.startswith("X ")]
            lives = [l.split() for l in xs][-3:]
            # last three X lines: after `live` (handler loaded), after stop, after `live`
            figures[cid] = [(int(t[2]), int(t[4])) for t in lives]
        rep.cov["soak_figures_fds_live"] = figures
        base = figures.get("soak1")
        bbase = figures.get("burst%d" % bursts[0])
        total += len(soak)
        if not found:     # (a divergence of the histories is deferred: the soak still decides)
            for cid, fig in figures.items():
                ref = bbase if cid.startswith("burst") else figures.get("wait1") if cid.startswith("wait") else base
                if fig != ref:
                    scr = burst_script(int(cid[5:])) if cid.startswith("burst") else debounce_script(int(cid[4:])) if cid.startswith("wait") else soak_script(int(cid[4:]), rep.seed)
                    rep.violation("soak", {"what": "descriptors / live heap blocks after %s are %s, after %s %s: resource use grows with the number of events"
                                           % (cid, fig, "the smallest burst" if cid.startswith("burst") else "one round", ref), "script": scr.split("\n")[:60] + ["..."] + scr.split("\n")[-8:], "figures": figures})
                    found = True
                    break
            else:
                validated += len(soak)
            if not found and base and base[-1][1] > base[0][1]:
                pass
        # the event loop of main(): every notification carries a descriptor; however many events of whatever kind are
        # handled (editor exec, write, the daemon's own writes, events with neither or both bits), each of these
        # descriptors is closed exactly once
        import main_common as mc
        kinds = [dict(exe=1), dict(wr=1), dict(wr=1, pid=mc.SELF), dict(exe=1, wr=1), dict(), dict(exe=1, pid=mc.SELF)]
        lcases = []
        for ci, nslots in enumerate([5, 20, 60, 60] if rep.tier == "quick" else [5, 20, 60, 60, 60, 60, 60, 60]):
            slots = []
            for i in range(nslots):
                kw = dict(rng.choice(kinds))
                kw["fd"] = 1005 + i
                kw["timeout"] = rng.choice([0, 3, -1])
                slots.append(mc.slot(**kw))
            lcases.append(("loop%d" % ci, mc.main_case(slots=slots), slots))
        limpl, lmodel, lproblems = vlib.correspond(exe_impl, exe_model, "main", [(c, t) for c, t, _ in lcases], sandbox=True)
        total += len(lcases)
        for cid, script, slots in lcases:
            il = limpl.get(cid) or []
            closed = sorted(int(l.split()[1]) for l in il if l.startswith("close "))
            want = sorted(sl[7] for sl in slots)
            if not found and closed != want:
                left = sorted(set(want) - set(closed))
                twice = sorted(x for x in set(closed) if closed.count(x) > 1)
                rep.violation("loop-descriptors", {"case": cid, "script": script.split("\n"), "driver": "main", "implementation": il[-12:],
                                                   "what": "after %d events the event loop has not closed the descriptors of %d of them (first: event %s) and closed %d twice: "
                                                           "descriptor use grows with the number of events" % (len(slots), len(left), (left[0] - 1005) if left else None, len(twice))})
                found = True
                break
            if exe_model and il != lmodel.get(cid):
                rep.defer_divergence({"case": cid, "script": script.split("\n"), "driver": "main", "implementation": il, "model": lmodel.get(cid),
                                      "what": "implementation and model differ on the event loop"})
                continue
            validated += 1
        problems += lproblems
        for p in problems:
            rep.notes.append(p)
    rep.cov["evaluations"] = total
    rep.cov["distinct_nontrivial"] = total
    rep.cov["traces_validated_against_impl"] = validated
    nsoak = len(soak) if exe_impl else 0
    rep.cov["input_distribution"] = {"histories": n if exe_impl else 0, "soak_and_burst_runs": nsoak, "event_loop_scripts": total - nsoak - (n if exe_impl else 0)}
    rep.cov["rule"] = ("random mixed histories with the number of descriptors opened by klunok and not closed (wrapped open/close) checked after every operation: "
                       "2 with a handler loaded, 0 after release; the same over reload histories (valid, invalid, ill-typed rewrites, a journal that cannot be opened, a moved queue); soak: one round of a mixed history (editor exec with ELF interpreter, four damaged editor-named ELF images, plain files, sources replaced by a directory / made unreadable, a history path, "
                       "files whose names hold a tab, a backslash, a newline, a project file, a probe file written and deleted in a project of which nothing was ever stored, a collision, an emptied position file of the history path, a deleted source, a deleted source whose clean-up fails with EACCES, four passes) repeated 1, 10 and 100 times must end with identical counts of live heap "
                       "blocks (wrapped malloc/calloc/realloc/strdup/free) and descriptors, before and after releasing the handler; single bursts of 20 / 140 / 300 (thorough: up to 1100) distinct files due in one pass, and 1 / 10 / 100 rounds of passes that have to wait (a due head superseded by a later save that is not due), must end with identical counts too; the real main() loop over 5-60 scripted events of every "
                       "kind (the daemon's own included): the descriptor of each event is closed exactly once")
    rep.cov["samples"] = [soak_script(1, rep.seed).split("\n")[-25:]]
    vlib.conclude_proofs(rep, found)


def replay(rep, path):
    import json
    d = json.load(open(path))
    if d.get("driver") == "main":
        exe_impl, exe_model = vlib.prepare(rep)
        impl, model, _ = vlib.correspond(exe_impl, exe_model, "main", [("replay", "\n".join(d["script"]))], sandbox=True)
        print("implementation:", (impl.get("replay") or [])[-12:])
        return 1 if impl.get("replay") != model.get("replay") else 0
    return wk.replay_world(rep, path, MON)
