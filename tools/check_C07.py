"""C07 Editor attribution follows the process's executions."""
import json
import random

import vlib
import world_check as wk
import world_common as wc
from world_common import WATCH, X


def bm_cases(tier, seed):
    rng = random.Random(seed)
    cases = []
    for i in range(1500 if tier == "quick" else 20000):
        g = rng.choice([0, 0, 1, 2, 8, 8, 64, 32768 if i % 50 == 0 else 16])
        pool = [0, 1, 2, g - 1 if g > 0 else 0, g, g + 1, 2 * g, 2 * g + 1, (70001 if i % 40 == 0 else 601), rng.randint(0, 100000 if i % 40 == 0 else 3000)]
        ops = []
        for _ in range(rng.randint(1, 25)):
            b = rng.choice(pool)
            ops.append(rng.choice("sug") + str(b))
        ops += ["g%d" % b for b in pool]
        cases.append(("m%d" % i, "bm %d %s" % (g, " ".join(ops)), (g, ops)))
    big = ["s4194304", "g4194304", "g4194303", "g0", "u4194304", "g4194304"]
    cases.append(("mbig", "bm 4 " + " ".join(big), (4, big)))
    return cases


def bm_monitor(meta, out):
    g, ops = meta
    s = set()
    exp = []
    for o in ops:
        b = int(o[1:])
        if o[0] == "s":
            s.add(b)
        elif o[0] == "u":
            s.discard(b)
        else:
            exp.append("1" if b in s else "0")
    e = "bm" + "".join(" " + x for x in exp)
    if not out or out[0] != e:
        return "bit table reported '%s', a set of process ids says '%s'" % (out[0] if out else None, e)
    return None


LONG_LD = X + "/" + "d" * 100 + "/" + "e" * 100 + "/" + "f" * 100 + "/ld4.so"     # a loader path longer than NAME_MAX (not than PATH_MAX)
EXES = {X + "/elf3/vim": (True, LONG_LD), LONG_LD: (False, None), X + "/vim": (True, None), X + "/ed": (True, None), X + "/cat": (False, None), X + "/elf/vim": (True, X + "/ld.so"),
        X + "/ld.so": (False, None), X + "/elf/nano": (False, X + "/ld2.so"), X + "/ld2.so": (False, None),
        X + "/elf2/ed": (True, X + "/ld3.so"), X + "/ld3.so": (False, None),
        # an editor whose program header table is not where a fresh link puts it (e_phoff != 64)
        X + "/reloc/vim": (True, X + "/ld5.so"), X + "/ld5.so": (False, None),
        # a configured editor name and a program that is NOT an editor whose name has the same length and the same
        # 64-bit hash (names are looked up through a hash set)
        X + "/sqpqjslgoipqkm": (True, None), X + "/gjkjqgoskrkion": (False, None)}


def gen_attr_case(rng):
    s = wc.Script()
    cfg = wc.setup_world(s, wc.base_cfg(deb=5, editors=["vim", "ed", "sqpqjslgoipqkm"]))
    s.put(X + "/ed", "#!ed")
    s.put(X + "/sqpqjslgoipqkm", "#!twin editor")
    s.put(X + "/gjkjqgoskrkion", "#!twin, no editor")
    s.put(X + "/elf/nano", wc.elf_image(X + "/ld2.so"))
    s.put(X + "/ld2.so", "loader2")
    s.put(X + "/elf2/ed", wc.elf_image(X + "/ld3.so"))
    s.put(X + "/ld3.so", "loader3")
    s.put(X + "/elf3/vim", wc.elf_image(LONG_LD))
    s.put(LONG_LD, "loader4")
    s.put(X + "/reloc/vim", wc.elf_image_relocated(X + "/ld5.so", phnum=rng.choice([1, 2, 3, 5]), pad=rng.choice([0, 8, 40, 4000])))
    s.put(X + "/ld5.so", "loader5")
    files = [WATCH + "/a.txt", WATCH + "/inc/i.txt", WATCH + "/.h/c.txt", WATCH + "/.x", WATCH + "/inc/secret", WATCH + "/n",
             WATCH + "/proj/m.c", WATCH + "/pp/p1/x.c"]   # inside a project root / below a project parent: still the default policy
    for f in files:
        s.put(f, "x")
    s.start()
    pids = [1, 2, 3, 4, 100000, 4194303]
    if rng.random() < 0.4:
        # directed: one process runs an editor, then a second editor binary with another loader, then that loader
        # (what a dynamically linked editor started from another editor does), then writes
        p = rng.choice(pids)
        first, second = rng.sample([X + "/vim", X + "/elf/vim", X + "/elf2/ed", X + "/elf3/vim", X + "/reloc/vim"], 2)
        s.exec(p, first)
        s.exec(p, second)
        if EXES[second][1]:
            s.exec(p, EXES[second][1])
        s.write(p, rng.choice(files))
    for _ in range(rng.randint(5, 40)):
        r = rng.random()
        if r < 0.06:
            # the configuration is rewritten with other sizing hints (and the same policy): who is an editor does
            # not change by that
            import copy
            cfg = copy.deepcopy(cfg)
            cfg.maxpid = rng.choice([1, 4, 64, 32768, 4194304])
            cfg.elfguess = rng.choice([1, 2, 8])
            s.config(cfg)
            s.write(rng.choice(pids), wc.CFG_PATH)
        elif r < 0.55:
            s.exec(rng.choice(pids), rng.choice(list(EXES)))
        else:
            s.write(rng.choice(pids), rng.choice(files))
    s.dump()
    return s.text()


def mon_attribution(steps, meta):
    """exec events labelled editor / not editor, and default-policy writes queued iff the writer is an editor,
    by the property's own wording"""
    editors = set()
    loaders = set()
    for st in steps:
        if st.op == "exec" and st.result == "ok":
            pid, path = int(st.tok[1]), vlib.unhexs(st.tok[2])
            is_ed, interp = EXES[path]
            lab = None
            for l in st.log:
                pass
            if is_ed:
                editors.add(pid)
                if interp:
                    loaders.add(interp)
            elif path not in loaders:
                editors.discard(pid)
            st.expect_label = "xe" if is_ed else "xn"
        if st.op == "write" and st.result == "ok":
            pid, path = int(st.tok[1]), vlib.unhexs(st.tok[2])
            rel = path[len(wc.WATCH) + 1:]
            queued = any(l.split(" ")[1] == "symlinkat" for l in st.log)
            if rel in ("a.txt", "n", "proj/m.c", "pp/p1/x.c") and queued != (pid in editors):
                return "write by process %d (%s) to %s was %squeued" % (pid, "an editor" if pid in editors else "not an editor", rel, "" if queued else "not ")
            if rel == "inc/i.txt" and not queued:
                return "write to a force-included path was not queued"
            if rel in (".x", "inc/secret") and queued:
                return "write to a hidden / excluded path was queued"
            if rel == ".h/c.txt" and queued != (pid in editors):
                return "write to an editor-only (cluded) path by process %d was %squeued" % (pid, "" if queued else "not ")
    # journal labels of exec events
    dumps = [st.dump for st in steps if st.dump is not None]
    if dumps:
        j = wk.content(dumps[-1].get("/k/var/journal"))
        if j is not None:
            got = [l.split("\t")[1] for l in j.split("\n") if "\tx" in l]
            exp = [st.expect_label for st in steps if st.op == "exec" and st.result == "ok"]
            if got != exp:
                return "exec events were labelled %s, the property says %s" % (got, exp)
    return None


wk.MONITORS["attribution"] = mon_attribution


def main(rep):
    exe_impl, exe_model = vlib.prepare(rep)
    found = False
    total = 0
    validated = 0
    if exe_impl:
        bc = bm_cases(rep.tier, rep.seed)
        impl, model, problems = vlib.correspond(exe_impl, exe_model, "pure", [(c, s) for c, s, _ in bc])
        for cid, script, meta in bc:
            bad = bm_monitor(meta, impl.get(cid))
            if bad:
                rep.violation("bitmap", {"case": cid, "script": [script], "driver": "pure", "implementation": impl.get(cid), "what": bad})
                found = True
                break
            if exe_model and impl.get(cid) != model.get(cid):
                # a divergence is reported only if no monitor fires on any case (a concrete failing input wins)
                rep.defer_divergence({"case": cid, "script": [script], "driver": "pure", "implementation": impl.get(cid),
                                                 "model": model.get(cid), "what": "implementation and model differ"})
                continue
            validated += 1
        total += len(bc)
        rng = random.Random(rep.seed)
        n = 250 if rep.tier == "quick" else 5000
        wcases = [("a%d" % i, gen_attr_case(rng), {}) for i in range(n)]
        if not found:
            f, v = wk.run_cases(rep, exe_impl, exe_model, wcases, ["attribution", "fault_reported", "no_error"])
            found = found or f
            validated += v
        total += len(wcases)
        # the images the harness feeds as editors are the images C07_elf_image_roundtrip / C13_elf_truncated_rejected
        # speak about: ElfSpec.mk_elf (evaluated in the extracted model) must produce byte for byte what
        # world_common.elf_image produces, and the layout specification must return the interpreter
        if exe_model:
            import world_common as wc2
            icases = []
            for interp in (wc2.X + "/ld.so", "/lib64/ld-linux-x86-64.so.2", "/" + "l" * 300, "relative/ld.so", "/x"):
                for phnum in (2, 3, 5, 9):
                    icases.append(("i%d" % len(icases), "elfimg %s %d" % (vlib.hexs(interp), phnum), (interp, phnum)))
            mo, _, iproblems = vlib.correspond(exe_model, None, "pure", [(c, t) for c, t, _ in icases])
            problems += iproblems
            for cid, script, (interp, phnum) in icases:
                got = (mo.get(cid) or [""])[0].split()
                want = wc2.elf_image(interp, phnum=phnum)
                if len(got) != 3 or vlib.unhexs(got[1]) != want or vlib.unhexs(got[2]) != interp:
                    rep.defer_divergence({"case": cid, "script": [script], "driver": "pure (model only)", "model": got, "harness_image": vlib.hexs(want),
                                          "what": "ElfSpec.mk_elf does not build the image the harness feeds (or the specification does not return its interpreter): the image theorems do not speak about the tested inputs"})
                    continue
                validated += 1
            total += len(icases)
        rep.cov["samples"] = [bc[0][1], wcases[0][1].split("\n")[-12:]]
        for p in problems:
            rep.notes.append(p)
    rep.cov["evaluations"] = total
    rep.cov["distinct_nontrivial"] = total
    rep.cov["traces_validated_against_impl"] = validated
    rep.cov["input_distribution"] = {"bit_table_sequences": total - (250 if rep.tier == "quick" else 5000), "exec_write_histories": 250 if rep.tier == "quick" else 5000}
    rep.cov["rule"] = ("bit table: random set/unset/get sequences over pids {0,1,2,size-1,size,size+1,2size,2size+1,2^22,random}, initial sizes {0,1,2,8,32768}; "
                       "attribution: 5-40 exec/write events over pids {1,2,3,4,100000,4194303} and executables {editor script, editor ELF with PT_INTERP, its loader, "
                       "non-editor, non-editor ELF, its loader, a second editor ELF with a different loader, that loader}; 40% start with one process running two editors with different loaders in turn, writes to default / included / cluded / hidden / excluded paths; the monitor recomputes editor status from the property text")
    vlib.conclude_proofs(rep, found)


def replay(rep, path):
    d = json.load(open(path))
    if d.get("driver") == "pure":
        exe_impl, exe_model = vlib.prepare(rep)
        impl, model, _ = vlib.correspond(exe_impl, exe_model, "pure", [("replay", "\n".join(d["script"]))])
        print("implementation:", impl.get("replay"), "model:", model.get("replay"))
        return 1 if impl.get("replay") != model.get("replay") else 0
    return wk.replay_world(rep, path, ["attribution"])
