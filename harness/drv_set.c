/* set / buffer driver (C15) */
#include "kdrv.h"

int drv_set(void) {
  struct trace *trace = create_trace();
  struct set *set = create_set(0, trace);
  struct buffer *buf = NULL;
  char *line = NULL;
  size_t cap = 0;
  char *t[64];
  while (getline(&line, &cap, stdin) > 0) {
    int n = split(line, t, 64);
    if (!n) {
      continue;
    }
    if (!strcmp(t[0], "case")) {
      printf("case %s\n", n > 1 ? t[1] : "");
    } else if (!strcmp(t[0], "new")) {
      free_set(set);
      set = create_set(strtoul(t[1], NULL, 10), trace);
    } else if (!strcmp(t[0], "add")) {
      char *v = unhex(t[1]);
      add(v, set, trace);
      free(v);
    } else if (!strcmp(t[0], "addf")) {
      /* addf <k> <v>: add with the k-th allocation inside it failing (if it makes that many) */
      char *v = unhex(t[2]);
      W.alloc_fail_at = W.nallocs + atol(t[1]);
      add(v, set, trace);
      W.alloc_fail_at = -1;
      printf(ok(trace) ? "addf ok\n" : "addf err\n");
      clear_trace(trace);
      free(v);
    } else if (!strcmp(t[0], "pop")) {
      char *v = unhex(t[1]);
      struct buffer_view *view = create_buffer_view(v, trace);
      pop(view, set);
      free_buffer_view(view);
      free(v);
    } else if (!strcmp(t[0], "q")) {
      printf("cnt");
      for (int i = 1; i < n; ++i) {
        char *v = unhex(t[i]);
        struct buffer_view *view = create_buffer_view(v, trace);
        printf(" %zu", get_count(view, set));
        /* is_within must agree with get_count */
        if (is_within(view, set) != (get_count(view, set) != 0)) {
          printf("!");
        }
        free_buffer_view(view);
        free(v);
      }
      printf(" emp %d\n", is_empty(set) ? 1 : 0);
    } else if (!strcmp(t[0], "hash")) {
      char *v = unhex(t[1]);
      struct buffer_view *view = create_buffer_view(v, trace);
      printf("hash %zu\n", get_hash(view));
      free_buffer_view(view);
      free(v);
    } else if (!strcmp(t[0], "bnew")) {
      free_buffer(buf);
      buf = create_buffer(trace);
    } else if (!strcmp(t[0], "bchar")) {
      char *v = unhex(t[1]);
      concat_char(v[0], buf, trace);
      free(v);
    } else if (!strcmp(t[0], "bstr")) {
      char *v = unhex(t[1]);
      concat_string(v, buf, trace);
      free(v);
    } else if (!strcmp(t[0], "bset")) {
      size_t len = strtoul(t[1], NULL, 10);
      size_t cur = get_length(get_view(buf));
      set_length(len < cur ? len : cur, buf);
    } else if (!strcmp(t[0], "bhash")) {
      printf("bh %zu\n", get_hash(get_view(buf)));
    } else if (!strcmp(t[0], "bq")) {
      /* the buffer's own view, with whatever hash it has cached, as the key of a query */
      printf("bc %zu\n", get_count(get_view(buf), set));
    } else if (!strcmp(t[0], "bend")) {
      free_buffer(buf);
      buf = NULL;
    } else {
      fprintf(stderr, "set: bad line %s\n", t[0]);
      return 2;
    }
    if (!ok(trace)) {
      printf("trace-not-ok\n");
      clear_trace(trace);
    }
  }
  free_set(set);
  free(trace);
  fflush(stdout);
  return 0;
}
