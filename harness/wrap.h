#ifndef KVERIF_WRAP_H
#define KVERIF_WRAP_H
#include <stdio.h>
#include <sys/stat.h>
#include <sys/types.h>
#include <time.h>

struct wrap_state {
  time_t clock;       /* virtual whole-second clock */
  long crash_at;      /* _exit(77) before call with this index */
  long fail_at;       /* fail call with this index ... */
  int fail_errno;     /* ... with this errno */
  long short_at;      /* shorten write/sendfile with this index ... */
  size_t short_n;     /* ... to this many bytes */
  long shrink_at;   /* oracle shrink k n: just before call k (a sendfile) the source file is truncated to n bytes */
  size_t shrink_n;
  long grow_at;     /* oracle grow k n: just before call k (a sendfile) n bytes are appended to the source file */
  size_t grow_n;
  long relink_at;   /* oracle relink k n: just before call k (a readlinkat) the link is replaced by one whose target is n + 1 bytes longer */
  size_t relink_n;
  size_t short_all; /* oracle shortall n: every write / sendfile of the operation moves at most n bytes */
  size_t chunk;       /* if non-zero: every sendfile moves at most chunk bytes */
  long alloc_fail_at; /* fail allocation with this index */
  long ncalls;        /* index of the next file-system call */
  long nallocs;
  long live_blocks;   /* heap blocks allocated by klunok and not yet freed */
  long open_fds;      /* descriptors opened by klunok and not yet closed */
  int fault_hit;
  int fts_reverse;
  int fts_null_read;
  FILE *log;          /* call log (NULL: off) */
  const char *root;   /* sandbox root, stripped from logged paths */
  ssize_t (*read_hook)(int, void *, size_t);
  ssize_t (*readlink_hook)(const char *, char *, size_t);
  int (*stat_hook)(const char *, struct stat *);
  off_t (*lseek_hook)(int, off_t, int);
  char *(*realpath_hook)(const char *, char *);
  /* called at the start of every interposed call with its name (open with O_CREAT: "open-creat"); a non-zero
     answer is the errno the call fails with, without being made (main driver: nothing is really done as root) */
  int (*gate_hook)(const char *name, const char *path);
  int (*close_hook)(int);
  const char *open_from; /* redirect open(open_from) to open_to */
  const char *open_to;
  int capture_stderr;
  size_t stderr_len;
  char stderr_buf[65536];
};
extern struct wrap_state W;
void wrap_reset(void);
#endif
