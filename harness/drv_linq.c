#include "kdrv.h"
int drv_linq(void) { return 2; }
