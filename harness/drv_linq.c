/* linq driver (C14, C01): the real queue on a real directory, virtual clock */
#include "kdrv.h"

static int name_cmp(const void *a, const void *b) {
  long x = strtol(*(char *const *)a, NULL, 10), y = strtol(*(char *const *)b, NULL, 10);
  return x < y ? -1 : x > y;
}

static int dir_count(const char *path) {
  DIR *d = opendir(path);
  if (!d) {
    return 0;
  }
  int n = 0;
  struct dirent *e;
  while ((e = readdir(d))) {
    if (strcmp(e->d_name, ".") && strcmp(e->d_name, "..")) {
      ++n;
    }
  }
  closedir(d);
  return n;
}

static void dump(const char *path) {
  char *names[4096];
  int n = 0;
  DIR *d = opendir(path);
  if (d) {
    struct dirent *e;
    while ((e = readdir(d)) && n < 4096) {
      if (strcmp(e->d_name, ".") && strcmp(e->d_name, "..")) {
        names[n++] = strdup(e->d_name);
      }
    }
    closedir(d);
  }
  qsort(names, n, sizeof names[0], name_cmp);
  printf("dump %d", n);
  for (int i = 0; i < n; ++i) {
    char p[8192], tgt[8192];
    snprintf(p, sizeof p, "%s/%s", path, names[i]);
    ssize_t k = readlink(p, tgt, sizeof tgt - 1);
    struct stat st;
    lstat(p, &st);
    printf(" %s:", names[i]);
    print_hexn(tgt, k < 0 ? 0 : k);
    printf(":%ld", (long)st.st_mtime);
    free(names[i]);
  }
  printf("\n");
}

int drv_linq(void) {
  struct trace *trace = create_trace();
  struct linq *linq = NULL;
  char qpath[4096];
  snprintf(qpath, sizeof qpath, "%s/q", g_root ? g_root : "/nonexistent");
  long deb = 0, lenguess = 16;
  char *line = NULL;
  size_t cap = 0;
  char *t[64];
  while (getline(&line, &cap, stdin) > 0) {
    int n = split(line, t, 64);
    if (!n) {
      continue;
    }
    if (!strcmp(t[0], "case")) {
      printf("case %s\n", n > 1 ? t[1] : "");
      free_linq(linq);
      linq = NULL;
      rm_rf(qpath);
      wrap_reset();
      W.root = g_root;
    } else if (!strcmp(t[0], "lq_load")) {
      deb = atol(t[1]);
      lenguess = n > 3 ? atol(t[3]) : 16;
      free_linq(linq);
      linq = load_linq(qpath, deb, atol(t[2]), lenguess, trace);
      printf(ok(trace) ? "load ok\n" : "load err\n");
    } else if (!strcmp(t[0], "lq_reload")) {
      free_linq(linq);
      linq = load_linq(qpath, deb, atol(t[1]), lenguess, trace);
      if (!ok(trace)) {
        printf("reload err\n");
      }
    } else if (!strcmp(t[0], "lq_push")) {
      char *p = unhex(t[1]);
      push(p, strtoul(t[2], NULL, 10), linq, trace);
      printf(ok(trace) ? "push ok\n" : "push err\n");
      free(p);
    } else if (!strcmp(t[0], "lq_head")) {
      struct linq_head *h = get_head(linq, trace);
      if (!ok(trace) || !h) {
        printf("head err\n");
      } else if (get_pause(h)) {
        printf("head pause %ld\n", (long)get_pause(h));
      } else {
        printf("head ready ");
        print_hex(get_path(h));
        printf(" %zu\n", get_metadata(h));
      }
      free_linq_head(h);
    } else if (!strcmp(t[0], "lq_pop")) {
      if (dir_count(qpath) == 0) {
        printf("pop abort\n"); /* pop_head asserts size > 0 */
      } else {
        pop_head(linq, trace);
        printf(ok(trace) ? "pop ok\n" : "pop err\n");
      }
    } else if (!strcmp(t[0], "lq_drain")) {
      /* the queue part of handle_timeout: take heads until asked to wait */
      for (;;) {
        struct linq_head *h = get_head(linq, trace);
        if (!ok(trace) || !h) {
          printf("drain err\n");
          break;
        }
        if (get_pause(h)) {
          printf("drain pause %ld\n", (long)get_pause(h));
          free_linq_head(h);
          break;
        }
        printf("stored ");
        print_hex(get_path(h));
        printf(" %zu\n", get_metadata(h));
        pop_head(linq, trace);
        free_linq_head(h);
        if (!ok(trace)) {
          printf("drain err\n");
          break;
        }
      }
    } else if (!strcmp(t[0], "lq_redeb")) {
      deb = atol(t[1]);
      redebounce(deb, linq);
    } else if (!strcmp(t[0], "lq_tick")) {
      W.clock += atol(t[1]);
    } else if (!strcmp(t[0], "lq_dump")) {
      dump(qpath);
    } else {
      fprintf(stderr, "linq: bad line %s\n", t[0]);
      return 2;
    }
    clear_trace(trace);
  }
  free_linq(linq);
  rm_rf(qpath);
  fflush(stdout);
  return 0;
}
