#ifndef KVERIF_WRAP_MAIN_H
#define KVERIF_WRAP_MAIN_H
#include <poll.h>
#include <sys/types.h>
#include <unistd.h>
struct main_state {
  uid_t uid;
  gid_t gid;
  pid_t pid;
  int ngroups;
  int (*poll_hook)(struct pollfd *, nfds_t, int);
  int (*mount_hook)(const char *, const char *);
  const char *mount_type;   /* remaining arguments of the last mount() call */
  unsigned long mount_flags;
  const void *mount_data;
  int (*fan_init_hook)(unsigned, unsigned);
  int (*fan_mark_hook)(int, unsigned, unsigned long long, const char *);
  int (*setgroups_hook)(size_t);
  int (*setgid_hook)(gid_t);
  int (*setuid_hook)(uid_t);
};
extern struct main_state M;
#endif
