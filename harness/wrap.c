/* Link-time interposition layer (-Wl,--wrap=sym) for the correspondence
 * harness.  Only calls made by klunok's own objects are redirected.
 *  - virtual whole-second clock (time) and stamping of queue links with it
 *  - numbered log of every file-system call with canonical arguments/result
 *  - oracle: crash before call k (_exit), fail call k with errno e,
 *    shorten transfer k to n bytes
 *  - counters of live heap blocks (klunok's own allocations) and faults on
 *    allocation k
 */
#define _GNU_SOURCE
#include "wrap.h"
#include <malloc.h>
#include <dirent.h>
#include <errno.h>
#include <fcntl.h>
#include <fts.h>
#include <poll.h>
#include <stdarg.h>
#include <stdio.h>
#include <stdlib.h>
#include <string.h>
#include <sys/sendfile.h>
#include <sys/stat.h>
#include <sys/types.h>
#include <time.h>
#include <unistd.h>

/* klunok objects have their undefined references renamed to __wrap_*
   (objcopy --redefine-syms); this file calls libc directly */
#define __real_access access
#define __real_calloc calloc
#define __real_close close
#define __real_free free
#define __real_fstat64 fstat
#define __real_fstatat64 fstatat
#define __real_ftruncate64 ftruncate
#define __real_fts64_open fts_open
#define __real_fts64_read fts_read
#define __real_link link
#define __real_linkat linkat
#define __real_lseek64 lseek
#define __real_malloc malloc
#define __real_mkdir mkdir
#define __real_mkdirat mkdirat
#define __real_open64 open
#define __real_read read
#define __real_readlink readlink
#define __real_readlinkat readlinkat
#define __real_realloc realloc
#define __real_realpath realpath
#define __real_rmdir rmdir
#define __real_scandir64 scandir
#define __real_sendfile64 sendfile
#define __real_stat64 stat
#define __real_strdup strdup
#define __real_symlinkat symlinkat
#define __real_unlink unlink
#define __real_unlinkat unlinkat
#define __real_write write

struct wrap_state W = {
    .clock = 1000000,
    .crash_at = -1,
    .fail_at = -1,
    .short_at = -1,
    .shrink_at = -1,
    .grow_at = -1,
    .relink_at = -1,
    .alloc_fail_at = -1,
    .log = NULL,
};

void wrap_reset(void) {
  FILE *log = W.log;
  memset(&W, 0, sizeof W);
  W.clock = 1000000;
  W.crash_at = W.fail_at = W.short_at = W.alloc_fail_at = W.shrink_at = W.grow_at = W.relink_at = -1;
  W.log = log;
}

static void logf_(const char *fmt, ...) {
  if (!W.log) {
    return;
  }
  va_list ap;
  va_start(ap, fmt);
  vfprintf(W.log, fmt, ap);
  va_end(ap);
}

static const char *ename(int e) {
  switch (e) {
  case ENOENT: return "ENOENT";
  case EEXIST: return "EEXIST";
  case EACCES: return "EACCES";
  case ENOTEMPTY: return "ENOTEMPTY";
  case ENOSPC: return "ENOSPC";
  case EIO: return "EIO";
  case EMFILE: return "EMFILE";
  case ENOMEM: return "ENOMEM";
  case ENOTDIR: return "ENOTDIR";
  case EISDIR: return "EISDIR";
  case EINVAL: return "EINVAL";
  case EPERM: return "EPERM";
  case EBADF: return "EBADF";
  case ELOOP: return "ELOOP";
  default: return "EOTHER";
  }
}

/* strip the sandbox root from a path so that logs do not depend on it */
static const char *canon(const char *p) {
  static char bufs[4][8192];
  static int which;
  if (!p) {
    return "(null)";
  }
  size_t rl = W.root ? strlen(W.root) : 0;
  if (rl && !strncmp(p, W.root, rl)) {
    char *b = bufs[which++ & 3];
    snprintf(b, sizeof bufs[0], "$%s", p + rl);
    return b;
  }
  return p;
}

/* Called at the start of every wrapped call: numbering, crash, fault.
 * Returns 0 to proceed, or an errno to fail with. */
static const char *g_gate_name, *g_gate_path; /* refinements for the hook: set by a wrapper just before GATE_FAIL */
static int gate(const char *name) {
  long idx = W.ncalls++;
  if (W.crash_at == idx) {
    if (W.log) {
      fprintf(W.log, "%ld CRASH before %s\n", idx, name);
      fflush(W.log);
    }
    fflush(NULL);
    _exit(77);
  }
  logf_("%ld %s", idx, name);
  if (W.gate_hook) {
    int e = W.gate_hook(g_gate_name ? g_gate_name : name, g_gate_path);
    if (e) {
      return e;
    }
  }
  if (W.fail_at == idx) {
    W.fault_hit = 1;
    return W.fail_errno ? W.fail_errno : EIO;
  }
  return 0;
}

static long done_i(long r) {
  if (r < 0) {
    logf_(" -> -1 %s\n", ename(errno));
  } else {
    logf_(" -> %ld\n", r);
  }
  return r;
}

#define GATE_FAIL(name, ret)                                                   \
  do {                                                                         \
    int e_ = gate(name);                                                       \
    if (e_) {                                                                  \
      errno = e_;                                                              \
      logf_(" FAULT -> -1 %s\n", ename(e_));                                   \
      return ret;                                                              \
    }                                                                          \
  } while (0)

/* ---------- clock ---------- */
time_t __wrap_time(time_t *t) {
  if (t) {
    *t = W.clock;
  }
  return W.clock;
}

/* ---------- file-system calls ---------- */
int __wrap_open64(const char *path, int flags, ...) {
  mode_t mode = 0;
  if (flags & O_CREAT) {
    va_list ap;
    va_start(ap, flags);
    mode = va_arg(ap, mode_t);
    va_end(ap);
  }
  if (W.open_from && !strcmp(path, W.open_from)) {
    path = W.open_to;
  }
  g_gate_name = (flags & O_CREAT) ? "open-creat" : NULL;
  g_gate_path = path;
  GATE_FAIL("open", (g_gate_name = g_gate_path = NULL, -1));
  g_gate_name = g_gate_path = NULL;
  logf_(" %s %s%s%s%s%s%s", canon(path),
        (flags & O_ACCMODE) == O_RDONLY ? "R" : (flags & O_ACCMODE) == O_WRONLY ? "W" : "RW",
        flags & O_CREAT ? "|CREAT" : "", flags & O_EXCL ? "|EXCL" : "",
        flags & O_APPEND ? "|APPEND" : "", flags & O_TRUNC ? "|TRUNC" : "",
        flags & O_DIRECTORY ? "|DIR" : "");
  int fd = __real_open64(path, flags, mode);
  if (fd >= 0) {
    W.open_fds++;
  }
  /* descriptors are not comparable across runs: log only success */
  if (fd < 0) {
    logf_(" -> -1 %s\n", ename(errno));
  } else {
    logf_(" -> fd\n");
  }
  return fd;
}

/* what a failing close() of a freshly written file MEANS (delayed allocation, quota, a network file system): the data
   did not reach the disk.  For a version being written below the store the injected failure takes the bytes away. */
static void lose_unflushed(int fd) {
  int saved_errno = errno;
  char link[64], path[4200];
  snprintf(link, sizeof link, "/proc/self/fd/%d", fd);
  ssize_t n = readlink(link, path, sizeof path - 1);
  if (n <= 0) {
    errno = saved_errno;
    return;
  }
  path[n] = 0;
  int flags = fcntl(fd, F_GETFL);
  if (flags >= 0 && (flags & O_ACCMODE) != O_RDONLY && strstr(path, "/k/store/")) {
    if (ftruncate(fd, 0)) {
      /* nothing to do */
    }
  }
  errno = saved_errno;
}

int __wrap_close(int fd) {
  if (W.close_hook) {
    return W.close_hook(fd);
  }
  GATE_FAIL("close", (lose_unflushed(fd), __real_close(fd), W.open_fds--, -1));
  int r = __real_close(fd);
  if (r == 0) {
    W.open_fds--;
  }
  return done_i(r);
}

ssize_t __wrap_read(int fd, void *buf, size_t n) {
  if (W.read_hook) {
    return W.read_hook(fd, buf, n);
  }
  GATE_FAIL("read", -1);
  logf_(" %zu", n);
  return done_i(__real_read(fd, buf, n));
}

ssize_t __wrap_write(int fd, const void *buf, size_t n) {
  if (fd == 2 && W.capture_stderr) {
    /* diagnostics of main(): not a file-system call */
    if (W.stderr_len + n < sizeof W.stderr_buf) {
      memcpy(W.stderr_buf + W.stderr_len, buf, n);
      W.stderr_len += n;
    }
    return n;
  }
  long idx = W.ncalls;
  GATE_FAIL("write", -1);
  if (W.short_at == idx && W.short_n < n) {
    n = W.short_n;
    W.fault_hit = 1;
  } else if (W.short_all && W.short_all < n) {
    n = W.short_all; /* every transfer of this operation is cut to short_all bytes */
  }
  logf_(" %zu", n);
  return done_i(__real_write(fd, buf, n));
}

ssize_t __wrap_sendfile64(int out, int in, off_t *off, size_t n) {
  long idx = W.ncalls;
  if (W.shrink_at == idx) {
    /* another process truncates the source while it is being copied */
    char p[64];
    snprintf(p, sizeof p, "/proc/self/fd/%d", in);
    if (truncate(p, (off_t)W.shrink_n)) {
      perror("shrink");
    }
  }
  if (W.grow_at == idx) {
    /* another process appends to the source while it is being copied (after the size was taken) */
    char p[64];
    snprintf(p, sizeof p, "/proc/self/fd/%d", in);
    int fd = __real_open64(p, O_WRONLY | O_APPEND);
    if (fd >= 0) {
      for (size_t i = 0; i < W.grow_n; ++i) {
        if (__real_write(fd, "G", 1) != 1) {
          break;
        }
      }
      __real_close(fd);
    } else {
      perror("grow");
    }
  }
  GATE_FAIL("sendfile", -1);
  if (W.short_at == idx && W.short_n < n) {
    n = W.short_n;
    W.fault_hit = 1;
  } else if (W.short_all && W.short_all < n) {
    n = W.short_all;
  } else if (W.chunk && W.chunk < n) {
    n = W.chunk;
  }
  logf_(" off=%ld %zu", off ? (long)*off : -1L, n);
  return done_i(__real_sendfile64(out, in, off, n));
}

int __wrap_mkdir(const char *p, mode_t m) {
  g_gate_path = p;
  GATE_FAIL("mkdir", (g_gate_path = NULL, -1));
  g_gate_path = NULL;
  logf_(" %s", canon(p));
  return done_i(__real_mkdir(p, m));
}

int __wrap_mkdirat(int fd, const char *p, mode_t m) {
  GATE_FAIL("mkdirat", -1);
  logf_(" %s", canon(p));
  return done_i(__real_mkdirat(fd, p, m));
}

int __wrap_rmdir(const char *p) {
  GATE_FAIL("rmdir", -1);
  logf_(" %s", canon(p));
  return done_i(__real_rmdir(p));
}

int __wrap_unlink(const char *p) {
  GATE_FAIL("unlink", -1);
  logf_(" %s", canon(p));
  return done_i(__real_unlink(p));
}

int __wrap_unlinkat(int fd, const char *p, int fl) {
  GATE_FAIL("unlinkat", -1);
  logf_(" %s", canon(p));
  return done_i(__real_unlinkat(fd, p, fl));
}

int __wrap_link(const char *a, const char *b) {
  GATE_FAIL("link", -1);
  logf_(" %s %s", canon(a), canon(b));
  return done_i(__real_link(a, b));
}

int __wrap_linkat(int fa, const char *a, int fb, const char *b, int fl) {
  GATE_FAIL("linkat", -1);
  logf_(" %s %s", canon(a), canon(b));
  return done_i(__real_linkat(fa, a, fb, b, fl));
}

int __wrap_symlinkat(const char *target, int fd, const char *name) {
  GATE_FAIL("symlinkat", -1);
  logf_(" %s %s", canon(target), name);
  int r = __real_symlinkat(target, fd, name);
  if (r == 0) {
    struct timespec ts[2] = {{W.clock, 0}, {W.clock, 0}};
    utimensat(fd, name, ts, AT_SYMLINK_NOFOLLOW);
  }
  return done_i(r);
}

ssize_t __wrap_readlinkat(int fd, const char *p, char *buf, size_t n) {
  if (W.relink_at == W.ncalls) {
    /* somebody replaces the link between the moment its size was taken and the moment it is read */
    char old[8192];
    ssize_t len = __real_readlinkat(fd, p, old, sizeof old - 1);
    if (len > 0 && (size_t)len + W.relink_n + 2 < sizeof old) {
      old[len++] = '/';
      for (size_t i = 0; i < W.relink_n; ++i) {
        old[len++] = 'r';
      }
      old[len] = 0;
      if (unlinkat(fd, p, 0) || symlinkat(old, fd, p)) {
        perror("relink");
      }
    }
  }
  GATE_FAIL("readlinkat", -1);
  logf_(" %s %zu", p, n);
  return done_i(__real_readlinkat(fd, p, buf, n));
}

ssize_t __wrap_readlink(const char *p, char *buf, size_t n) {
  if (W.readlink_hook) {
    return W.readlink_hook(p, buf, n);
  }
  return __real_readlink(p, buf, n);
}

int __wrap_stat64(const char *p, struct stat *st) {
  if (W.stat_hook) {
    return W.stat_hook(p, st);
  }
  GATE_FAIL("stat", -1);
  logf_(" %s", canon(p));
  return done_i(__real_stat64(p, st));
}

int __wrap_fstat64(int fd, struct stat *st) {
  GATE_FAIL("fstat", -1);
  return done_i(__real_fstat64(fd, st));
}

int __wrap_fstatat64(int fd, const char *p, struct stat *st, int fl) {
  GATE_FAIL("fstatat", -1);
  logf_(" %s", p);
  return done_i(__real_fstatat64(fd, p, st, fl));
}

int __wrap_access(const char *p, int mode) {
  GATE_FAIL("access", -1);
  logf_(" %s", canon(p));
  return done_i(__real_access(p, mode));
}

int __wrap_ftruncate64(int fd, off_t len) {
  GATE_FAIL("ftruncate", -1);
  return done_i(__real_ftruncate64(fd, len));
}

off_t __wrap_lseek64(int fd, off_t off, int whence) {
  if (W.lseek_hook) {
    return W.lseek_hook(fd, off, whence);
  }
  return __real_lseek64(fd, off, whence);
}

int __wrap_scandir64(const char *p, struct dirent ***list,
                     int (*filter)(const struct dirent *),
                     int (*cmp)(const struct dirent **, const struct dirent **)) {
  GATE_FAIL("scandir", -1);
  logf_(" %s", canon(p));
  int r = __real_scandir64(p, list, filter, cmp);
  if (r > 0) {
    W.live_blocks += r + 1; /* entries and vector, freed through __wrap_free */
  }
  /* scandir leaves errno dirty on success in glibc; klunok only reads it on
     failure */
  return done_i(r);
}

static int fts_name_cmp(const FTSENT **a, const FTSENT **b) {
  return strcmp((*a)->fts_name, (*b)->fts_name);
}
static int fts_name_rcmp(const FTSENT **a, const FTSENT **b) {
  return strcmp((*b)->fts_name, (*a)->fts_name);
}
FTS *__wrap_fts64_open(char *const *paths, int options,
                       int (*cmp)(const FTSENT **, const FTSENT **)) {
  GATE_FAIL("fts_open", NULL);
  logf_(" %s", canon(paths[0]));
  /* the traversal order among siblings is unspecified with cmp == NULL; the
     harness fixes it (ascending or descending by name) so that the model's
     permutation oracle can follow */
  FTS *r = __real_fts64_open(paths, options, cmp ? cmp : W.fts_reverse ? fts_name_rcmp : fts_name_cmp);
  logf_(r ? " -> ok\n" : " -> -1 %s\n", ename(errno));
  return r;
}
FTSENT *__wrap_fts64_read(FTS *f) {
  if (!f) {
    /* klunok calls fts_read(NULL) after a failed fts_open: undefined in libc.
       Reported by the drivers as a hit of this flag. */
    W.fts_null_read++;
    errno = 0;
    return NULL;
  }
  errno = 0;
  return __real_fts64_read(f);
}
int __wrap_fts64_close(FTS *f) { return fts_close(f); }

/* ---------- calls the model does not have: logged, and crash / fault points like the others ---------- */
int __wrap_rename(const char *a, const char *b) {
  GATE_FAIL("rename", -1);
  logf_(" %s %s", canon(a), canon(b));
  return done_i(rename(a, b));
}
int __wrap_renameat(int fa, const char *a, int fb, const char *b) {
  GATE_FAIL("renameat", -1);
  logf_(" %s %s", a, b);
  return done_i(renameat(fa, a, fb, b));
}
int __wrap_fsync(int fd) {
  GATE_FAIL("fsync", -1);
  return done_i(fsync(fd));
}
int __wrap_fdatasync(int fd) {
  GATE_FAIL("fdatasync", -1);
  return done_i(fdatasync(fd));
}
int __wrap_truncate64(const char *p, off_t n) {
  GATE_FAIL("truncate", -1);
  logf_(" %s %ld", canon(p), (long)n);
  return done_i(truncate(p, n));
}
int __wrap_fchmod(int fd, mode_t m) {
  GATE_FAIL("fchmod", -1);
  logf_(" %o", m);
  return done_i(fchmod(fd, m));
}
int __wrap_chmod(const char *p, mode_t m) {
  GATE_FAIL("chmod", -1);
  logf_(" %s %o", canon(p), m);
  return done_i(chmod(p, m));
}
int __wrap_utimensat(int d, const char *p, const struct timespec t[2], int f) {
  GATE_FAIL("utimensat", -1);
  logf_(" %s", p ? p : "-");
  return done_i(utimensat(d, p, t, f));
}

/* ---------- allocation ---------- */

static int alloc_gate(void) {
  long idx = W.nallocs++;
  if (W.alloc_fail_at == idx) {
    W.fault_hit = 1;
    errno = ENOMEM;
    return 1;
  }
  return 0;
}
/* Memory that the C library hands out without a promise about its content (malloc, the grown part of realloc) is
   filled with a non-zero pattern: a run must not depend on such memory happening to be zero. */
#define POISON 0xA5
void *__wrap_malloc(size_t n) {
  if (alloc_gate()) {
    return NULL;
  }
  void *p = __real_malloc(n);
  if (p) {
    W.live_blocks++;
    memset(p, POISON, malloc_usable_size(p));
  }
  return p;
}
void *__wrap_calloc(size_t a, size_t b) {
  if (alloc_gate()) {
    return NULL;
  }
  void *p = __real_calloc(a, b);
  if (p) {
    W.live_blocks++;
  }
  return p;
}
void *__wrap_realloc(void *q, size_t n) {
  if (alloc_gate()) {
    return NULL;
  }
  size_t old = q ? malloc_usable_size(q) : 0;
  void *p = __real_realloc(q, n);
  if (p && !q) {
    W.live_blocks++;
  }
  if (p && malloc_usable_size(p) > old) {
    memset((char *)p + old, POISON, malloc_usable_size(p) - old);
  }
  return p;
}
char *__wrap_strdup(const char *s) {
  if (alloc_gate()) {
    return NULL;
  }
  char *p = __real_strdup(s);
  if (p) {
    W.live_blocks++;
  }
  return p;
}
void __wrap_free(void *p) {
  if (p) {
    W.live_blocks--;
  }
  __real_free(p);
}
char *__wrap_realpath(const char *p, char *r) {
  if (W.realpath_hook) {
    return W.realpath_hook(p, r);
  }
  char *res = __real_realpath(p, r);
  if (res && !r) {
    W.live_blocks++; /* freed through __wrap_free */
  }
  return res;
}
