/* sieve driver (C06): the real sieve() on real sets */
#include "kdrv.h"

int drv_sieve(void) {
  struct trace *trace = create_trace();
  char *line = NULL;
  size_t cap = 0;
  char *t[64];
  while (getline(&line, &cap, stdin) > 0) {
    int n = split(line, t, 64);
    if (!n) {
      continue;
    }
    if (!strcmp(t[0], "case")) {
      printf("case %s\n", n > 1 ? t[1] : "");
    } else if (!strcmp(t[0], "sv")) {
      size_t off = strtoul(t[1], NULL, 10);
      char *path = unhex(t[2]);
      int nsets = n - 3;
      struct set *sets[16];
      for (int i = 0; i < nsets; ++i) {
        sets[i] = create_set(0, trace);
        if (strcmp(t[3 + i], "-")) {
          char *save = NULL;
          for (char *e = strtok_r(t[3 + i], ",", &save); e; e = strtok_r(NULL, ",", &save)) {
            char *v = unhex(e);
            add(v, sets[i], trace);
            free(v);
          }
        }
      }
      struct sieved_path *sp = sieve(path, off, (const struct set **)sets, nsets, trace);
      printf("ends");
      for (int i = 0; i < nsets; ++i) {
        const char *e = get_sieved_ends(sp)[i];
        if (e) {
          printf(" %ld", (long)(e - path));
        } else {
          printf(" -");
        }
      }
      if (get_hiding_dot(sp)) {
        printf(" dot %ld\n", (long)(get_hiding_dot(sp) - path));
      } else {
        printf(" dot -\n");
      }
      free_sieved_path(sp);
      for (int i = 0; i < nsets; ++i) {
        free_set(sets[i]);
      }
      free(path);
    } else {
      fprintf(stderr, "sieve: bad line %s\n", t[0]);
      return 2;
    }
    clear_trace(trace);
  }
  fflush(stdout);
  return 0;
}
