/* Wrappers for the calls of main.c / mountinfo.c (scripted by drv_main.c). */
#define _GNU_SOURCE
#include "wrap_main.h"
#include <errno.h>
#include <stdio.h>
#include <string.h>

struct main_state M;

int __wrap_poll(struct pollfd *fds, nfds_t n, int timeout) {
  return M.poll_hook ? M.poll_hook(fds, n, timeout) : (errno = ENOSYS, -1);
}
int __wrap_mount(const char *src, const char *tgt, const char *type, unsigned long flags, const void *data) {
  M.mount_type = type;
  M.mount_flags = flags;
  M.mount_data = data;
  return M.mount_hook ? M.mount_hook(src, tgt) : (errno = ENOSYS, -1);
}
int __wrap_fanotify_init(unsigned flags, unsigned event_flags) {
  return M.fan_init_hook ? M.fan_init_hook(flags, event_flags) : (errno = ENOSYS, -1);
}
int __wrap_fanotify_mark(int fd, unsigned flags, unsigned long long mask, int dirfd, const char *path) {
  return M.fan_mark_hook ? M.fan_mark_hook(fd, flags, mask, path) : (errno = ENOSYS, -1);
}
int __wrap_setgroups(size_t n, const gid_t *l) { return M.setgroups_hook ? M.setgroups_hook(n) : (errno = ENOSYS, -1); }
int __wrap_setgid(gid_t g) { return M.setgid_hook ? M.setgid_hook(g) : (errno = ENOSYS, -1); }
int __wrap_setuid(uid_t u) { return M.setuid_hook ? M.setuid_hook(u) : (errno = ENOSYS, -1); }
uid_t __wrap_getuid(void) { return M.uid; }
gid_t __wrap_getgid(void) { return M.gid; }
pid_t __wrap_getpid(void) { return M.pid; }
int __wrap_getgroups(int n, gid_t *l) { return M.ngroups; }

/* the daemon has no business changing its working directory: relative names (the designated path `.`, relative
   store roots) mean what they meant when it was started.  Recorded, not performed. */
int __wrap_chdir(const char *path) {
  printf("chdir h");
  for (const unsigned char *c = (const unsigned char *)path; *c; ++c) {
    printf("%02x", *c);
  }
  printf("\n");
  return 0;
}
int __wrap_fchdir(int fd) {
  printf("chdir h2366642025642020\n");
  (void)fd;
  return 0;
}

/* the working directory of the scripted world is /cwd (what `.` resolves to in the scripts) */
char *__wrap_getcwd(char *buf, size_t size) {
  const char *cwd = "/cwd";
  if (!buf) {
    return strdup(cwd);
  }
  if (size < strlen(cwd) + 1) {
    errno = ERANGE;
    return NULL;
  }
  return strcpy(buf, cwd);
}
