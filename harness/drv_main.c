/* main driver (C12, C17, C18): the real main() with every call it makes scripted */
#include "kdrv.h"
#include <sys/mount.h>
#include <fcntl.h>
#include "messages.h"
#include "wrap_main.h"
#include <poll.h>
#include <sys/fanotify.h>

#define FANFD 100

struct slot {
  int poll, rd, vers, exec, write, ovf, pid, fd, execok, writeok, terr;
  long timeout;
};
static struct {
  int argc;
  const char *argv[128];
  char *real_from[64], *real_to[64];
  int nreal;
  char *mounted[256];
  int nmounted;
  char *mounts_raw; /* the text of the mount table, verbatim (when given) */
  int fan, minfo, mount_ok, markfail, load;
  int stat_ok;
  unsigned stat_uid, stat_gid;
  int sgroups, sgid, suid; /* 0 ok 1 fail 2 noeffect */
  struct slot slots[64];
  int nslots, cur, nmark;
  struct slot *active;
  long afail;       /* >= 0: the index of the allocation of main() that fails */
  int count_allocs; /* report the number of allocations main() made */
} S;

static int sw_of(const char *t) { return !strcmp(t, "ok") ? 0 : !strcmp(t, "fail") ? 1 : 2; }

static char *h_realpath(const char *p, char *r) {
  for (int i = 0; i < S.nreal; ++i) {
    if (!strcmp(p, S.real_from[i])) {
      return strdup(S.real_to[i]);
    }
  }
  errno = ENOENT;
  return NULL;
}
static int h_stat(const char *p, struct stat *st) {
  printf("stat ");
  print_hex(p);
  printf("\n");
  if (!S.stat_ok) {
    errno = ENOENT;
    return -1;
  }
  memset(st, 0, sizeof *st);
  st->st_uid = S.stat_uid;
  st->st_gid = S.stat_gid;
  return 0;
}
static int h_fan_init(unsigned a, unsigned b) {
  /* the notification class and a read-only event descriptor are what the daemon needs; anything else is shown */
  if (a == FAN_CLASS_NOTIF && (b & O_ACCMODE) == O_RDONLY && !(b & ~(O_ACCMODE | O_CLOEXEC | O_LARGEFILE))) {
    printf("faninit\n");
  } else {
    printf("faninit %#x %#x\n", a, b);
  }
  if (!S.fan) {
    errno = EPERM;
    return -1;
  }
  return FANFD;
}
static int h_fan_mark(int fd, unsigned flags, unsigned long long mask, const char *path) {
  /* e = executions, w = completed writes, on the whole mount; any other mask / flags are shown as they are */
  if (flags == (FAN_MARK_ADD | FAN_MARK_MOUNT) && (mask == FAN_OPEN_EXEC || mask == FAN_CLOSE_WRITE)) {
    printf("mark %c ", mask == FAN_OPEN_EXEC ? 'e' : 'w');
  } else {
    printf("mark flags=%#x mask=%#llx ", flags, mask);
  }
  print_hex(path);
  printf("\n");
  if (S.nmark++ == S.markfail) {
    errno = ENOSPC;
    return -1;
  }
  return 0;
}
static int h_mount(const char *src, const char *tgt) {
  /* a bind mount of the directory onto itself */
  if (src && tgt && !strcmp(src, tgt) && M.mount_flags == MS_BIND && !M.mount_data) {
    printf("mount ");
  } else {
    printf("mount src=%s flags=%#lx ", src ? src : "(null)", M.mount_flags);
  }
  print_hex(tgt);
  printf("\n");
  if (!S.mount_ok) {
    errno = EPERM;
    return -1;
  }
  return 0;
}
static int h_setgroups(size_t n) {
  printf("setgroups\n");
  if (S.sgroups == 1) {
    errno = EPERM;
    return -1;
  }
  if (S.sgroups == 0) {
    M.ngroups = 0;
  }
  return 0;
}
static int h_setgid(gid_t g) {
  printf("setgid %u\n", g);
  if (S.sgid == 1) {
    errno = EPERM;
    return -1;
  }
  if (S.sgid == 0) {
    M.gid = g;
  }
  return 0;
}
static int h_setuid(uid_t u) {
  printf("setuid %u\n", u);
  if (S.suid == 1) {
    errno = EPERM;
    return -1;
  }
  if (S.suid == 0) {
    M.uid = u;
  }
  return 0;
}
static int h_poll(struct pollfd *fds, nfds_t n, int timeout) {
  printf("poll %d\n", timeout);
  if (S.cur >= S.nslots) {
    printf("end\n");
    fflush(stdout);
    _exit(0);
  }
  S.active = &S.slots[S.cur++];
  switch (S.active->poll) {
  case 0: fds[0].revents = POLLIN; return 1;
  case 1: fds[0].revents = 0; return 0;
  case 2: errno = EINTR; return -1;
  default: fds[0].revents = POLLIN | POLLHUP; return 1;
  }
}
static ssize_t h_read(int fd, void *buf, size_t n) {
  if (fd != FANFD) {
    /* the mount table is a proc file: the kernel hands out whole records only, so a read is usually shorter than
       the buffer although more follows */
    ssize_t r = read(fd, buf, n);
    if (r > 0) {
      ssize_t cut = r;
      while (cut > 0 && ((char *)buf)[cut - 1] != '\n') {
        --cut;
      }
      if (cut > 0 && cut < r) {
        lseek(fd, cut - r, SEEK_CUR);
        r = cut;
      }
    }
    return r;
  }
  printf("read\n");
  struct slot *s = S.active;
  if (s->rd == 2) {
    errno = EIO;
    return -1;
  }
  struct fanotify_event_metadata ev;
  memset(&ev, 0, sizeof ev);
  ev.event_len = sizeof ev;
  ev.metadata_len = FAN_EVENT_METADATA_LEN; /* as the kernel fills it in, whatever the version */
  ev.vers = s->vers ? FANOTIFY_METADATA_VERSION : FANOTIFY_METADATA_VERSION + 1;
  ev.mask = (s->exec ? FAN_OPEN_EXEC : 0) | (s->write ? FAN_CLOSE_WRITE : 0) | (s->ovf ? FAN_Q_OVERFLOW : 0);
  ev.pid = s->pid;
  ev.fd = s->fd;
  if (s->rd == 1) {
    memcpy(buf, &ev, sizeof ev / 2);
    return sizeof ev / 2;
  }
  memcpy(buf, &ev, sizeof ev);
  return sizeof ev;
}
/* C12: nothing is created (or removed, or changed) on disk while the user id or the group id is still zero.
   Every interposed call that modifies the file system is reported and refused while that is the case. */
static int h_gate(const char *name, const char *path) {
  static const char *const modifying[] = {"mkdir", "mkdirat", "open-creat", "symlinkat", "link", "linkat", "rename", "renameat", "truncate",
                                          "ftruncate", "chmod", "fchmod", "utimensat", "unlink", "unlinkat", "rmdir", NULL};
  if (M.uid && M.gid) {
    return 0;
  }
  for (int i = 0; modifying[i]; ++i) {
    if (!strcmp(name, modifying[i])) {
      printf("asroot %s ", name);
      if (path) {
        print_hex(path);
      } else {
        printf("-");
      }
      printf(" %u %u\n", M.uid, M.gid);
      return EPERM;
    }
  }
  return 0;
}
static int h_close(int fd) {
  if (fd == FANFD || fd < 1000) {
    /* descriptors of the start-up phase (mount table): really close */
    return close(fd);
  }
  printf("close %d\n", fd);
  return 0;
}

struct handler *__hook_load_handler(const char *config_path, size_t cpl, struct trace *trace) {
  printf("load ");
  if (config_path) {
    print_hex(config_path);
  } else {
    printf("-");
  }
  printf(" %zu %u %u %d\n", cpl, M.uid, M.gid, M.ngroups);
  if (!S.load) {
    throw_static("scripted load_handler failure", trace);
    return NULL;
  }
  return (struct handler *)&S;
}
/* main() has no business loading the configuration itself (load_handler does, after the privilege drop): if it ever
   does, the call is recorded with the credentials of that moment */
struct config *__hook_load_config(const char *path, struct trace *trace) {
  (void)path;
  (void)trace;
  printf("loadconfig %u %u %d\n", M.uid, M.gid, M.ngroups);
  return NULL;
}
void __hook_free_config(struct config *config) { (void)config; }

void __hook_handle_open_exec(pid_t pid, int fd, struct handler *h, struct trace *trace) {
  printf("exec %d %d\n", pid, fd);
  if (!S.active->execok) {
    throw_static("scripted exec failure", trace);
  }
}
void __hook_handle_close_write(pid_t pid, int fd, struct handler *h, struct trace *trace) {
  printf("write %d %d\n", pid, fd);
  if (!S.active->writeok) {
    throw_static("scripted write failure", trace);
  }
}
time_t __hook_handle_timeout(struct handler *h, struct trace *trace) {
  if (!ok(trace)) {
    return 0; /* the real one does nothing on a failed trace */
  }
  printf("timeout\n");
  if (S.active->terr) {
    throw_static("scripted timeout failure", trace);
    return 0;
  }
  return S.active->timeout;
}

int klunok_main(int argc, const char **argv);

static const char *top_id(const char *line) {
  struct {
    const char *text, *id;
  } tab[] = {
      {messages.main.cannot_parse_cli, "parse"},   {messages.main.fanotify.cannot_init, "faninit"},
      {messages.main.mount.cannot_list, "mountlist"}, {messages.main.mount.cannot_watch, "watch"},
      {messages.main.cannot_drop_privileges, "drop"}, {messages.main.cannot_load_handler, "load"},
      {messages.main.fanotify.cannot_poll, "poll"},  {messages.main.fanotify.cannot_read_event, "read"},
      {messages.main.fanotify.version_mismatch, "version"}, {messages.main.fanotify.queue_overflow, "overflow"},
      {messages.main.cannot_handle_exec, "exec"},   {messages.main.cannot_handle_write, "write"},
      {messages.main.cannot_handle_timeout, "timeout"},
  };
  for (size_t i = 0; i < sizeof tab / sizeof tab[0]; ++i) {
    if (!strcmp(line, tab[i].text)) {
      return tab[i].id;
    }
  }
  return "-";
}

static void run_case(void) {
  fflush(stdout);
  pid_t child = fork();
  if (child == 0) {
    char mounts_file[4096];
    snprintf(mounts_file, sizeof mounts_file, "%s/mounts", g_root);
    FILE *f = fopen(mounts_file, "w");
    if (S.mounts_raw) {
      fputs(S.mounts_raw, f);
    }
    for (int i = 0; i < S.nmounted && !S.mounts_raw; ++i) {
      /* the way the kernel writes a mount point (fs/proc_namespace.c: mangle with " \t\n\\") */
      fputs("dev ", f);
      for (const unsigned char *c = (const unsigned char *)S.mounted[i]; *c; ++c) {
        if (*c == ' ' || *c == '\t' || *c == '\n' || *c == '\\') {
          fprintf(f, "\\%03o", *c);
        } else {
          fputc(*c, f);
        }
      }
      fputs(" type rw 0 0\n", f);
    }
    fclose(f);
    W.open_from = "/proc/self/mounts";
    W.open_to = S.minfo ? mounts_file : "/nonexistent/mounts";
    W.realpath_hook = h_realpath;
    W.stat_hook = h_stat;
    W.read_hook = h_read;
    W.close_hook = h_close;
    W.gate_hook = h_gate;
    W.capture_stderr = 1;
    M.fan_init_hook = h_fan_init;
    M.fan_mark_hook = h_fan_mark;
    M.mount_hook = h_mount;
    M.setgroups_hook = h_setgroups;
    M.setgid_hook = h_setgid;
    M.setuid_hook = h_setuid;
    M.poll_hook = h_poll;
    long alloc_base = W.nallocs;
    W.alloc_fail_at = S.afail >= 0 ? W.nallocs + S.afail : -1;
    int rc = klunok_main(S.argc, S.argv);
    W.alloc_fail_at = -1;
    if (S.count_allocs) {
      printf("allocs %ld\n", W.nallocs - alloc_base);
    }
    W.stderr_buf[W.stderr_len] = 0;
    char *nl = strchr(W.stderr_buf, '\n');
    if (nl) {
      *nl = 0;
    }
    printf("exit %d %s\n", rc, rc ? top_id(W.stderr_buf) : "-");
    fflush(stdout);
    _exit(0);
  }
  int st;
  waitpid(child, &st, 0);
  if (!WIFEXITED(st) || WEXITSTATUS(st)) {
    printf("driver-child-died %d\n", st);
  }
}

int drv_main(void) {
  char *line = NULL;
  size_t cap = 0;
  char *t[256];
  while (getline(&line, &cap, stdin) > 0) {
    int n = split(line, t, 256);
    if (!n) {
      continue;
    }
    if (!strcmp(t[0], "case")) {
      printf("case %s\n", n > 1 ? t[1] : "");
      memset(&S, 0, sizeof S);
      S.argv[0] = "klunok";
      S.argc = 1;
      S.fan = S.minfo = S.mount_ok = S.load = S.stat_ok = 1;
      S.markfail = -1;
      S.afail = -1;
      M.uid = M.gid = 0;
      M.ngroups = 1;
      M.pid = 4242;
    } else if (!strcmp(t[0], "m_args")) {
      for (int i = 1; i < n; ++i) {
        S.argv[S.argc++] = unhex(t[i]);
      }
    } else if (!strcmp(t[0], "m_real")) {
      for (int i = 1; i < n; ++i) {
        char *eq = strchr(t[i], '=');
        *eq = 0;
        S.real_from[S.nreal] = unhex(t[i]);
        S.real_to[S.nreal++] = unhex(eq + 1);
      }
    } else if (!strcmp(t[0], "m_mounted")) {
      for (int i = 1; i < n; ++i) {
        S.mounted[S.nmounted++] = unhex(t[i]);
      }
    } else if (!strcmp(t[0], "m_mounts_raw")) {
      S.mounts_raw = n > 1 ? unhex(t[1]) : strdup("");
    } else if (!strcmp(t[0], "m_flags")) {
      S.fan = atoi(t[1]);
      S.minfo = atoi(t[2]);
      S.mount_ok = atoi(t[3]);
      S.markfail = atoi(t[4]);
      S.load = atoi(t[5]);
    } else if (!strcmp(t[0], "m_stat")) {
      S.stat_ok = !strcmp(t[1], "ok");
      S.stat_uid = strtoul(t[2], NULL, 10);
      S.stat_gid = strtoul(t[3], NULL, 10);
    } else if (!strcmp(t[0], "m_cred")) {
      M.uid = strtoul(t[1], NULL, 10);
      M.gid = strtoul(t[2], NULL, 10);
      M.ngroups = atoi(t[3]);
      S.sgroups = sw_of(t[4]);
      S.sgid = sw_of(t[5]);
      S.suid = sw_of(t[6]);
    } else if (!strcmp(t[0], "m_afail")) {
      /* the k-th allocation made by main() fails (implementation only) */
      S.afail = atol(t[1]);
    } else if (!strcmp(t[0], "m_allocs")) {
      /* report how many allocations main() made (to enumerate m_afail) */
      S.count_allocs = 1;
    } else if (!strcmp(t[0], "m_self")) {
      M.pid = atoi(t[1]);
    } else if (!strcmp(t[0], "m_slot")) {
      struct slot *s = &S.slots[S.nslots++];
      s->poll = atoi(t[1]);
      s->rd = atoi(t[2]);
      s->vers = atoi(t[3]);
      s->exec = atoi(t[4]);
      s->write = atoi(t[5]);
      s->ovf = atoi(t[6]);
      s->pid = atoi(t[7]);
      s->fd = atoi(t[8]);
      s->execok = atoi(t[9]);
      s->writeok = atoi(t[10]);
      if (!strcmp(t[11], "err")) {
        s->terr = 1;
      } else {
        s->timeout = atol(t[11]);
      }
    } else if (!strcmp(t[0], "m_run")) {
      run_case();
    } else {
      fprintf(stderr, "main: bad line %s\n", t[0]);
      return 2;
    }
  }
  fflush(stdout);
  return 0;
}
