#ifndef KVERIF_KDRV_H
#define KVERIF_KDRV_H
#define _GNU_SOURCE
#include "wrap.h"
#include <dirent.h>
#include <errno.h>
#include <fcntl.h>
#include <ftw.h>
#include <grp.h>
#include <stdbool.h>
#include <stdio.h>
#include <stdlib.h>
#include <string.h>
#include <sys/stat.h>
#include <sys/types.h>
#include <sys/wait.h>
#include <unistd.h>

/* klunok headers */
#include "bitmap.h"
#include "buffer.h"
#include "config.h"
#include "counter.h"
#include "deref.h"
#include "elfinterp.h"
#include "extension.h"
#include "handler.h"
#include "journal.h"
#include "linq.h"
#include "list.h"
#include "mountinfo.h"
#include "params.h"
#include "parents.h"
#include "set.h"
#include "sieve.h"
#include "storepath.h"
#include "sync.h"
#include "timestamp.h"
#include "trace.h"

#define __real_malloc malloc
#define __real_free free

extern char *g_root;
char *unhex(const char *t);
void print_hex(const char *s);
void print_hexn(const char *s, size_t n);
int split(char *line, char **toks, int max);
void clear_trace(struct trace *trace);
void rm_rf(const char *path);

int drv_set(void);
int drv_linq(void);
int drv_sieve(void);
int drv_world(void);
int drv_pure(void);
int drv_main(void);
int drv_cfg(void);
#endif
