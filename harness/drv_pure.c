/* pure functions driver (C09, C18): extension, storepath, common parent, params */
#include "kdrv.h"
#include "counter.h"
#include <unistd.h>

int drv_pure(void) {
  struct trace *trace = create_trace();
  char *line = NULL;
  size_t cap = 0;
  char *t[256];
  while (getline(&line, &cap, stdin) > 0) {
    int n = split(line, t, 256);
    if (!n) {
      continue;
    }
    if (!strcmp(t[0], "case")) {
      printf("case %s\n", n > 1 ? t[1] : "");
    } else if (!strcmp(t[0], "ext")) {
      char *p = unhex(t[1]);
      printf("ext ");
      print_hex(get_file_extension(p));
      printf("\n");
      free(p);
    } else if (!strcmp(t[0], "ctr")) {
      /* ctr <n>: write_counter then read_counter on a scratch file (counter.c) */
      char path[64];
      snprintf(path, sizeof path, "/tmp/kvctr.%ld", (long)getpid());
      size_t v = strtoull(t[1], NULL, 10);
      write_counter(path, v, trace);
      size_t r = read_counter(path, trace);
      printf("ctr %zu\n", r);
      unlink(path);
    } else if (!strcmp(t[0], "sp")) {
      char *root = unhex(t[1]), *rel = unhex(t[2]), *ver = unhex(t[3]);
      int k = atoi(t[4]);
      struct store_path *sp = create_store_path(root, rel, ver, trace);
      for (int i = 0; i < k; ++i) {
        increment(sp, trace);
      }
      printf("sp ");
      print_hex(get_current_path(sp));
      printf("\n");
      free_store_path(sp);
      free(root);
      free(rel);
      free(ver);
    } else if (!strcmp(t[0], "bm")) {
      /* bm <size guess> <op>...   op = s<bit> | u<bit> | g<bit> */
      struct bitmap *bm = create_bitmap(strtoul(t[1], NULL, 10), trace);
      printf("bm");
      for (int i = 2; i < n; ++i) {
        size_t bit = strtoul(t[i] + 1, NULL, 10);
        if (t[i][0] == 's') {
          set_bit(bit, bm, trace);
        } else if (t[i][0] == 'u') {
          unset_bit(bit, bm);
        } else {
          printf(" %d", get_bit(bit, bm) ? 1 : 0);
        }
      }
      printf("\n");
      free_bitmap(bm);
    } else if (!strcmp(t[0], "cpp")) {
      char *a = unhex(t[1]), *b = unhex(t[2]);
      printf("cpp %zu\n", get_common_parent_path_length(a, b));
      free(a);
      free(b);
    } else if (!strcmp(t[0], "params")) {
      /* params <argv1> <argv2> ... (hex) */
      const char *argv[256];
      argv[0] = "klunok";
      for (int i = 1; i < n; ++i) {
        argv[i] = unhex(t[i]);
      }
      struct params *params = parse_params(n, argv, trace);
      if (!ok(trace) || !params) {
        W.capture_stderr = 1;
        W.stderr_len = 0;
        unwind(2, trace);
        W.capture_stderr = 0;
        W.stderr_buf[W.stderr_len] = 0;
        /* first line: the static message */
        char *nl = strchr(W.stderr_buf, '\n');
        if (nl) {
          *nl = 0;
        }
        printf("params error ");
        print_hex(W.stderr_buf);
        printf("\n");
      } else {
        printf("params ok help=%d version=%d c=", is_help_requested(params), is_version_requested(params));
        /* params.h declares get_config_path returns_nonnull although it returns NULL without -c:
           read it through a volatile so that the test is not optimised away */
        const char *volatile cp = get_config_path(params);
        if (cp) {
          print_hex(cp);
        } else {
          printf("-");
        }
        printf(" d=");
        print_hex(get_privilege_dropping_path(params));
        printf(" w=");
        for (const struct list_item *i = peek(get_write_mounts(params)); i; i = get_next(i)) {
          print_hex(get_value(i));
          printf(",");
        }
        printf(" e=");
        for (const struct list_item *i = peek(get_exec_mounts(params)); i; i = get_next(i)) {
          print_hex(get_value(i));
          printf(",");
        }
        printf("\n");
        free_params(params);
      }
      for (int i = 1; i < n; ++i) {
        free((char *)argv[i]);
      }
    } else {
      fprintf(stderr, "pure: bad line %s\n", t[0]);
      return 2;
    }
    clear_trace(trace);
    fflush(stdout); /* what was answered before a fatal error must not be lost */
  }
  fflush(stdout);
  return 0;
}
