/* Implementation-side drivers: read a script on stdin, run klunok's real code
 * (compiled from /repo's working tree), print one observation line per query.
 * The model-side driver (extract/driver.ml) prints the same lines. */
#define _GNU_SOURCE
#include "kdrv.h"

char *g_root = NULL;

/* ---------- helpers ---------- */
char *unhex(const char *t) {
  if (!t || t[0] != 'h') {
    fprintf(stderr, "bad hex token: %s\n", t ? t : "(null)");
    exit(2);
  }
  size_t n = (strlen(t) - 1) / 2;
  char *s = __real_malloc(n + 1);
  for (size_t i = 0; i < n; ++i) {
    unsigned v;
    sscanf(t + 1 + 2 * i, "%2x", &v);
    s[i] = (char)v;
  }
  s[n] = 0;
  return s;
}

void print_hex(const char *s) {
  putchar('h');
  for (; *s; ++s) {
    printf("%02x", (unsigned char)*s);
  }
}

void print_hexn(const char *s, size_t n) {
  putchar('h');
  for (size_t i = 0; i < n; ++i) {
    printf("%02x", (unsigned char)s[i]);
  }
}

int split(char *line, char **toks, int max) {
  int n = 0;
  char *save = NULL;
  for (char *t = strtok_r(line, " \n", &save); t && n < max;
       t = strtok_r(NULL, " \n", &save)) {
    toks[n++] = t;
  }
  return n;
}

void clear_trace(struct trace *trace) {
  if (!ok(trace)) {
    try(trace);
    finally_catch_all(trace);
  }
}

/* rm -rf without wrapped calls (this file is not wrapped: it calls libc
   directly because --wrap only rewrites undefined references from klunok's
   objects... which includes this driver; so use nftw from libc) */
static int rm_cb(const char *p, const struct stat *st, int flag, struct FTW *f) {
  (void)st; (void)flag; (void)f;
  return remove(p);
}
void rm_rf(const char *path) { nftw(path, rm_cb, 64, FTW_DEPTH | FTW_PHYS); }

int main(int argc, char **argv) {
  setvbuf(stdout, NULL, _IOFBF, 1 << 16);
  /* UTC unless the check asks for a particular zone (KDRV_TZ) */
  setenv("TZ", getenv("KDRV_TZ") ? getenv("KDRV_TZ") : "UTC", 1);
  if (argc < 2) {
    fprintf(stderr, "usage: kdrv <driver> [sandbox-root]\n");
    return 2;
  }
  if (argc > 2) {
    g_root = argv[2];
    W.root = g_root;
  }
  if (!strcmp(argv[1], "set")) {
    return drv_set();
  }
  if (!strcmp(argv[1], "linq")) {
    return drv_linq();
  }
  if (!strcmp(argv[1], "sieve")) {
    return drv_sieve();
  }
  if (!strcmp(argv[1], "pure")) {
    return drv_pure();
  }
  if (!strcmp(argv[1], "cfg")) {
    return drv_cfg();
  }
  if (!strcmp(argv[1], "main")) {
    return drv_main();
  }
  if (!strcmp(argv[1], "world")) {
    return drv_world();
  }
  fprintf(stderr, "unknown driver %s\n", argv[1]);
  return 2;
}
