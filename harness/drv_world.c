/* world driver: the real handler (load_handler, handle_open_exec,
 * handle_close_write, handle_timeout, free_handler) on a real directory tree,
 * with the virtual clock, the call log and the fault/crash oracle of wrap.c. */
#include "kdrv.h"
#include <pwd.h>
#include <sys/resource.h>
#include <sys/time.h>

static struct handler *H;
static struct trace *T;
static char cfg_path[4096];
static size_t cpl;
static int log_on;
static char *logbuf;
static size_t logsize;

static char *abspath(const char *hex) { return unhex(hex); }

static void mkdirs_for(const char *path) {
  char *p = strdup(path);
  for (char *s = strchr(p + 1, '/'); s; s = strchr(s + 1, '/')) {
    *s = 0;
    mkdir(p, 0755);
    *s = '/';
  }
  free(p);
}

static unsigned long long fnv(const unsigned char *b, size_t n) {
  unsigned long long h = 14695981039346656037ULL;
  for (size_t i = 0; i < n; ++i) {
    h ^= b[i];
    h *= 1099511628211ULL;
  }
  return h;
}

struct ent {
  char *path;
  struct stat st;
};
static struct ent *ents;
static size_t nents, cap_ents;

static void collect(const char *dir) {
  DIR *d = opendir(dir);
  if (!d) {
    return;
  }
  struct dirent *e;
  while ((e = readdir(d))) {
    if (!strcmp(e->d_name, ".") || !strcmp(e->d_name, "..")) {
      continue;
    }
    char p[8192];
    snprintf(p, sizeof p, "%s/%s", dir, e->d_name);
    if (nents == cap_ents) {
      cap_ents = cap_ents ? cap_ents * 2 : 256;
      ents = realloc(ents, cap_ents * sizeof *ents);
    }
    ents[nents].path = strdup(p);
    lstat(p, &ents[nents].st);
    int isdir = S_ISDIR(ents[nents].st.st_mode);
    ++nents;
    if (isdir) {
      collect(p);
    }
  }
  closedir(d);
}

static int ent_cmp(const void *a, const void *b) {
  return strcmp(((const struct ent *)a)->path, ((const struct ent *)b)->path);
}

static void dump(void) {
  nents = 0;
  collect(g_root);
  qsort(ents, nents, sizeof *ents, ent_cmp);
  ino_t seen[4096];
  size_t nseen = 0;
  for (size_t i = 0; i < nents; ++i) {
    struct ent *e = &ents[i];
    printf("D ");
    print_hex(e->path + strlen(g_root));
    if (S_ISDIR(e->st.st_mode)) {
      printf(" dir\n");
    } else if (S_ISLNK(e->st.st_mode)) {
      char tgt[8192];
      ssize_t k = readlink(e->path, tgt, sizeof tgt - 1);
      printf(" link ");
      print_hexn(tgt, k < 0 ? 0 : k);
      printf(" %ld\n", (long)e->st.st_mtime);
    } else {
      size_t cls = 0;
      for (; cls < nseen && seen[cls] != e->st.st_ino; ++cls) {
      }
      if (cls == nseen && nseen < 4096) {
        seen[nseen++] = e->st.st_ino;
      }
      unsigned char *buf = malloc(e->st.st_size + 1);
      size_t n = 0;
      int fd = open(e->path, O_RDONLY);
      if (fd < 0 && errno == EACCES) {
        /* a file made unreadable by the scenario: look anyway, then restore */
        chmod(e->path, 0644);
        fd = open(e->path, O_RDONLY);
        chmod(e->path, 0);
      }
      if (fd >= 0) {
        ssize_t r;
        while ((r = read(fd, buf + n, e->st.st_size + 1 - n)) > 0) {
          n += r;
        }
        close(fd);
      }
      int readable = access(e->path, R_OK) == 0;
      printf(" file i%zu %zu %016llx %c ", cls, n, fnv(buf, n), readable ? 'r' : '-');
      if (n <= 4096) {
        print_hexn((char *)buf, n);
      } else {
        printf("-");
      }
      printf("\n");
      free(buf);
    }
    free(e->path);
  }
  printf("dump-end\n");
}

static void print_trace(void) {
  if (ok(T)) {
    printf("trace ok\n");
    return;
  }
  W.capture_stderr = 1;
  W.stderr_len = 0;
  unwind(2, T);
  W.capture_stderr = 0;
  W.stderr_buf[W.stderr_len] = 0;
  printf("trace");
  char *save = NULL;
  for (char *l = strtok_r(W.stderr_buf, "\n", &save); l; l = strtok_r(NULL, "\n", &save)) {
    int ctx = strstr(l, "\xe2\x94\xa4which is\xe2\x94\x82") != NULL;
    /* message = text after the last "│ " (or the whole line at depth 0) */
    char *m = l;
    char *bar = NULL;
    for (char *q = l; (q = strstr(q, "\xe2\x94\x82 ")); q += 4) {
      bar = q;
      break;
    }
    if (bar) {
      m = bar + 4;
    }
    printf(" %c:", ctx ? 'W' : 'M');
    print_hex(m);
  }
  printf("\n");
}

static rlim_t g_nofile_soft;
static int g_nofile_saved;
static long afail_rel = -1; /* oracle afail k: the k-th allocation of the next operation fails */
static long op_alloc_base;

static void begin_op(void) {
  W.ncalls = 0;
  W.fault_hit = 0;
  op_alloc_base = W.nallocs;
  W.alloc_fail_at = afail_rel >= 0 ? W.nallocs + afail_rel : -1;
  if (log_on) {
    W.log = open_memstream(&logbuf, &logsize);
  }
  fflush(stdout);
}

static void end_op(const char *name, const char *result) {
  printf("op %s %s\n", name, result);
  print_trace();
  printf("calls %ld\n", W.ncalls);
  printf("X fds %ld live %ld allocs %ld\n", W.open_fds, W.live_blocks, W.nallocs - op_alloc_base);
  if (W.log) {
    fclose(W.log);
    W.log = NULL;
    char *save = NULL;
    for (char *l = strtok_r(logbuf, "\n", &save); l; l = strtok_r(NULL, "\n", &save)) {
      printf("L %s\n", l);
    }
    free(logbuf);
    logbuf = NULL;
  }
  /* the oracle applies to one operation */
  W.crash_at = W.fail_at = W.short_at = W.shrink_at = W.grow_at = W.relink_at = -1;
  W.short_all = 0;
  W.alloc_fail_at = -1;
  afail_rel = -1;
  if (!ok(T)) {
    /* main() would report and stop; the driver clears the trace to go on */
    clear_trace(T);
  }
  fflush(stdout);
}

static int errno_of(const char *n) {
  if (!strcmp(n, "ENOENT")) return ENOENT;
  if (!strcmp(n, "EEXIST")) return EEXIST;
  if (!strcmp(n, "EACCES")) return EACCES;
  if (!strcmp(n, "ENOTEMPTY")) return ENOTEMPTY;
  if (!strcmp(n, "ENOSPC")) return ENOSPC;
  if (!strcmp(n, "EIO")) return EIO;
  if (!strcmp(n, "EMFILE")) return EMFILE;
  if (!strcmp(n, "ENOMEM")) return ENOMEM;
  if (!strcmp(n, "ENOTDIR")) return ENOTDIR;
  if (!strcmp(n, "EISDIR")) return EISDIR;
  if (!strcmp(n, "EINVAL")) return EINVAL;
  return EIO;
}

int drv_world(void) {
  if (!g_root) {
    fprintf(stderr, "world: sandbox root required\n");
    return 2;
  }
  /* relative names (an ELF interpreter given relatively, a stray relative path) resolve inside the sandbox,
     wherever the check was started from */
  if (chdir(g_root)) {
    perror("chdir");
    return 2;
  }
  if (getuid() == 0) {
    /* drop to an unprivileged user so that EACCES is the kernel's own */
    chown(g_root, 65534, 65534);
    /* (the saved user id stays 0 so that `putforeign` can create a file owned by another user; the effective and
       real ids - what the kernel's permission checks look at - are the unprivileged ones throughout) */
    if (setgroups(0, NULL) || setgid(65534) || setresuid(65534, 65534, 0)) {
      perror("drop");
      return 2;
    }
  }
  umask(022);
  T = create_trace();
  char *line = NULL;
  size_t cap = 0;
  char *t[64];
  while (getline(&line, &cap, stdin) > 0) {
    int n = split(line, t, 64);
    if (!n) {
      continue;
    }
    const char *op = t[0];
    if (!strcmp(op, "case")) {
      printf("case %s\n", n > 1 ? t[1] : "");
      if (H) {
        free_handler(H);
        H = NULL;
      }
      clear_trace(T);
      /* empty the sandbox */
      DIR *d = opendir(g_root);
      struct dirent *e;
      while (d && (e = readdir(d))) {
        if (strcmp(e->d_name, ".") && strcmp(e->d_name, "..")) {
          char p[8192];
          snprintf(p, sizeof p, "%s/%s", g_root, e->d_name);
          /* unreadable files / directories must not survive */
          chmod(p, 0755);
          rm_rf(p);
        }
      }
      if (d) {
        closedir(d);
      }
      if (g_nofile_saved) {
        struct rlimit rl;
        if (!getrlimit(RLIMIT_NOFILE, &rl)) {
          rl.rlim_cur = g_nofile_soft;
          setrlimit(RLIMIT_NOFILE, &rl);
        }
      }
      long fds = W.open_fds;
      wrap_reset();
      W.root = g_root;
      (void)fds;
      log_on = 0;
    } else if (!strcmp(op, "root") || !strcmp(op, "resume")) {
      /* root: model-side only; resume: continue on the same sandbox in a new process */
    } else if (!strcmp(op, "clock")) {
      W.clock = atol(t[1]);
    } else if (!strcmp(op, "log")) {
      log_on = !strcmp(t[1], "on");
    } else if (!strcmp(op, "ftsrev")) {
      W.fts_reverse = atoi(t[1]);
    } else if (!strcmp(op, "cfg") || !strcmp(op, "cfgbind")) {
      /* model-side definitions */
    } else if (!strcmp(op, "tick")) {
      W.clock += atol(t[1]);
    } else if (!strcmp(op, "chunk")) {
      W.chunk = strtoul(t[1], NULL, 10);
    } else if (!strcmp(op, "oracle")) {
      W.crash_at = W.fail_at = W.short_at = -1;
      W.short_all = 0;
      W.shrink_at = -1;
      W.grow_at = -1;
      W.relink_at = -1;
      afail_rel = -1;
      if (!strcmp(t[1], "afail")) {
        afail_rel = atol(t[2]);
      } else if (!strcmp(t[1], "shortall")) {
        W.short_all = strtoul(t[2], NULL, 10);
      } else if (!strcmp(t[1], "grow")) {
        W.grow_at = atol(t[2]);
        W.grow_n = strtoul(t[3], NULL, 10);
      } else if (!strcmp(t[1], "relink")) {
        W.relink_at = atol(t[2]);
        W.relink_n = strtoul(t[3], NULL, 10);
      } else if (!strcmp(t[1], "shrink")) {
        W.shrink_at = atol(t[2]);
        W.shrink_n = strtoul(t[3], NULL, 10);
      } else if (!strcmp(t[1], "crash")) {
        W.crash_at = atol(t[2]);
      } else if (!strcmp(t[1], "fail")) {
        W.fail_at = atol(t[2]);
        W.fail_errno = errno_of(t[3]);
      } else if (!strcmp(t[1], "short")) {
        W.short_at = atol(t[2]);
        W.short_n = strtoul(t[3], NULL, 10);
      }
    } else if (!strcmp(op, "put") || !strcmp(op, "append") || !strcmp(op, "putforeign")) {
      /* putforeign: the file belongs to ANOTHER user (root) and is readable by everybody: a shared directory */
      int foreign = !strcmp(op, "putforeign") && geteuid() != 0;
      char *p = abspath(t[1]);
      char *c = n > 2 ? unhex(t[2]) : strdup("");
      size_t len = n > 2 ? (strlen(t[2]) - 1) / 2 : 0;
      mkdirs_for(p);
      if (foreign) {
        unlink(p);
        if (seteuid(0)) {
          foreign = 0;
        }
      }
      int fd = open(p, O_WRONLY | O_CREAT | (op[0] == 'p' ? O_TRUNC : O_APPEND), 0644);
      if (foreign) {
        if (fd >= 0) {
          fchmod(fd, 0644);
        }
        if (seteuid(65534)) {
          perror("seteuid");
          exit(2);
        }
      }
      if (fd >= 0) {
        if (write(fd, c, len) != (ssize_t)len) {
          perror("put");
        }
        close(fd);
      } else {
        printf("env-error put %s\n", strerror(errno));
      }
      free(p);
      free(c);
    } else if (!strcmp(op, "putn")) {
      /* putn <path> <count> <byte>: large content */
      char *p = abspath(t[1]);
      size_t len = strtoul(t[2], NULL, 10);
      char *c = malloc(len + 1);
      for (size_t i = 0; i < len; ++i) {
        c[i] = (char)('a' + (i * 7 + atoi(t[3])) % 26);
      }
      mkdirs_for(p);
      int fd = open(p, O_WRONLY | O_CREAT | O_TRUNC, 0644);
      if (fd >= 0) {
        if (write(fd, c, len) != (ssize_t)len) {
          perror("putn");
        }
        close(fd);
      }
      free(c);
      free(p);
    } else if (!strcmp(op, "symlink")) {
      /* symlink <path> <target> <mtime>: hand-written queue content */
      char *p = abspath(t[1]);
      char *tg = unhex(t[2]);
      mkdirs_for(p);
      if (symlink(tg, p)) {
        printf("env-error symlink %s\n", strerror(errno));
      } else {
        struct timespec ts[2] = {{atol(t[3]), 0}, {atol(t[3]), 0}};
        utimensat(AT_FDCWD, p, ts, AT_SYMLINK_NOFOLLOW);
      }
      free(p);
      free(tg);
    } else if (!strcmp(op, "rm")) {
      char *p = abspath(t[1]);
      if (unlink(p)) {
        printf("env-error rm %s\n", strerror(errno));
      }
      free(p);
    } else if (!strcmp(op, "mkdirp")) {
      char *p = abspath(t[1]);
      mkdirs_for(p);
      mkdir(p, 0755);
      free(p);
    } else if (!strcmp(op, "rmdir")) {
      char *p = abspath(t[1]);
      if (rmdir(p)) {
        printf("env-error rmdir %s\n", strerror(errno));
      }
      free(p);
    } else if (!strcmp(op, "chmod")) {
      char *p = abspath(t[1]);
      chmod(p, atoi(t[2]) ? 0644 : 0);
      free(p);
    } else if (!strcmp(op, "chmodx")) {
      /* chmodx <path> <octal mode>: any mode, directories included (implementation-only histories) */
      char *p = abspath(t[1]);
      chmod(p, strtoul(t[2], NULL, 8));
      free(p);
    } else if (!strcmp(op, "start")) {
      /* start <cfgid> <cpl> <cfgpath> */
      cpl = strtoul(t[2], NULL, 10);
      char *p = abspath(t[3]);
      snprintf(cfg_path, sizeof cfg_path, "%s", p);
      free(p);
      begin_op();
      H = load_handler(cfg_path, cpl, T);
      end_op("start", H ? "ok" : "error");
    } else if (!strcmp(op, "stop")) {
      if (H) {
        begin_op();
        free_handler(H);
        H = NULL;
        end_op("stop", "ok");
      }
    } else if (!strcmp(op, "exec") || !strcmp(op, "write")) {
      char *p = abspath(t[2]);
      int fd = open(p, op[0] == 'e' ? O_RDONLY : O_PATH);
      if (fd < 0) {
        printf("env-error open %s\n", strerror(errno));
      } else if (!H) {
        printf("op %s nohandler\n", op);
      } else {
        begin_op();
        if (op[0] == 'e') {
          handle_open_exec(atoi(t[1]), fd, H, T);
        } else {
          handle_close_write(atoi(t[1]), fd, H, T);
        }
        /* the descriptor is the event's: the handler borrows it, the event loop closes it afterwards */
        int gone = fcntl(fd, F_GETFD) < 0;
        end_op(op, ok(T) ? "ok" : "error");
        if (gone) {
          printf("L 999 eventfd-closed-by-handler\n");
        }
      }
      if (fd >= 0) {
        close(fd);
      }
      free(p);
    } else if (!strcmp(op, "timeout")) {
      if (!H) {
        printf("op timeout nohandler\n");
      } else {
        begin_op();
        time_t pause = handle_timeout(H, T);
        char r[64];
        if (ok(T)) {
          snprintf(r, sizeof r, "pause %ld", (long)pause);
        } else {
          snprintf(r, sizeof r, "error");
        }
        end_op("timeout", r);
      }
    } else if (!strcmp(op, "dump")) {
      dump();
    } else if (!strcmp(op, "nofile")) {
      /* the soft limit on open descriptors of this process (the environment's, not a failing call): a daemon that
         holds a bounded number of descriptors never notices; restored by the next "case" */
      struct rlimit rl;
      if (!getrlimit(RLIMIT_NOFILE, &rl)) {
        if (!g_nofile_saved) {
          g_nofile_soft = rl.rlim_cur;
          g_nofile_saved = 1;
        }
        rl.rlim_cur = strtoul(t[1], NULL, 10);
        if (rl.rlim_cur > rl.rlim_max) {
          rl.rlim_cur = rl.rlim_max;
        }
        setrlimit(RLIMIT_NOFILE, &rl);
      }
    } else if (!strcmp(op, "live")) {
      printf("X fds %ld live %ld allocs %ld\n", W.open_fds, W.live_blocks, W.nallocs - op_alloc_base);
    } else {
      fprintf(stderr, "world: bad line %s\n", op);
      return 2;
    }
  }
  if (H) {
    free_handler(H);
  }
  fflush(stdout);
  return 0;
}
