/* configuration driver (C16): the real load_config (Lua) on generated files */
#include "kdrv.h"

static char *universe[256];
static int nuniverse;

static void print_set(const char *name, const struct set *set, struct trace *trace) {
  printf(" %s=", name);
  for (int i = 0; i < nuniverse; ++i) {
    struct buffer_view *v = create_buffer_view(universe[i], trace);
    putchar(is_within(v, set) ? '1' : '0');
    free_buffer_view(v);
  }
}
static void print_opt(const char *name, const char *v) {
  printf(" %s=", name);
  if (v) {
    print_hex(v);
  } else {
    printf("-");
  }
}

int drv_cfg(void) {
  struct trace *trace = create_trace();
  char *line = NULL;
  size_t cap = 0;
  char *t[512];
  char path[4096];
  snprintf(path, sizeof path, "%s/cfg.lua", g_root ? g_root : "/nonexistent");
  while (getline(&line, &cap, stdin) > 0) {
    int n = split(line, t, 512);
    if (!n) {
      continue;
    }
    if (!strcmp(t[0], "case")) {
      printf("case %s\n", n > 1 ? t[1] : "");
    } else if (!strcmp(t[0], "cfguniverse")) {
      for (int i = 0; i < nuniverse; ++i) {
        free(universe[i]);
      }
      nuniverse = 0;
      for (int i = 1; i < n && nuniverse < 256; ++i) {
        universe[nuniverse++] = unhex(t[i]);
      }
    } else if (!strcmp(t[0], "cfgstmts")) {
      /* model-side */
    } else if (!strcmp(t[0], "cfglua") || !strcmp(t[0], "cfgnone") || !strcmp(t[0], "cfgstatic")) {
      struct config *c;
      if (t[0][3] == 'l') {
        char *text = unhex(t[1]);
        FILE *f = fopen(path, "w");
        fwrite(text, 1, (strlen(t[1]) - 1) / 2, f);
        fclose(f);
        free(text);
        c = load_config(path, trace);
      } else {
        c = load_config(NULL, trace);
      }
      if (!ok(trace) || !c) {
        printf("cfg error\n");
      } else {
        printf("cfg");
        print_set("editors", get_editors(c), trace);
        print_set("project_roots", get_project_roots(c), trace);
        print_set("project_parents", get_project_parents(c), trace);
        print_set("history", get_history_paths(c), trace);
        print_set("excluded", get_excluded_paths(c), trace);
        print_set("included", get_included_paths(c), trace);
        print_set("cluded", get_cluded_paths(c), trace);
        print_opt("store", get_store_root(c));
        print_opt("pstore", get_project_store_root(c));
        print_opt("unstable", get_unstable_project_store_root(c));
        print_opt("queue", get_queue_path(c));
        const char *volatile jp = get_journal_path(c);
        print_opt("journal", jp);
        print_opt("jpat", get_journal_timestamp_pattern(c));
        print_opt("vpat", get_version_pattern(c));
        print_opt("offsets", get_offset_store_root(c));
        printf(" deb=%zu plen=%zu maxpid=%d elf=%zu qguess=%zu", get_debounce_seconds(c), get_path_length_guess(c),
               (int)get_max_pid_guess(c), get_elf_interpreter_count_guess(c), get_queue_size_guess(c));
        const char *volatile ev[7] = {get_event_open_exec_not_editor(c), get_event_open_exec_editor(c),
                                      get_event_close_write_not_by_editor(c), get_event_close_write_by_editor(c),
                                      get_event_queue_head_deleted(c), get_event_queue_head_forbidden(c),
                                      get_event_queue_head_stored(c)};
        for (int i = 0; i < 7; ++i) {
          char nm[8];
          snprintf(nm, sizeof nm, "ev%d", i);
          print_opt(nm, ev[i]);
        }
        printf("\n");
        free_config(c);
      }
      clear_trace(trace);
    } else {
      fprintf(stderr, "cfg: bad line %s\n", t[0]);
      return 2;
    }
  }
  fflush(stdout);
  return 0;
}
