(* The effect layer: programs run against the file system through a numbered
   sequence of system calls; an oracle decides per call index whether the call
   runs, fails with an errno, moves fewer bytes, or the process dies before it.
   The error trace of trace.c is part of the state. *)
From K Require Export Str Dec Trace Fs.

(* FShort n: this transfer call moves at most n bytes; FChunk n: the same, but
   only if the call is a sendfile (a kernel that always transfers in small pieces) *)
Inductive fault := FNone | FFail (e : errno) | FShort (n : nat) | FChunk (n : nat) | FCrash.
Definition oracle := nat -> fault.

Inductive call :=
| COpenR (p : str) | COpenExcl (p : str) | COpenW (p : str) | COpenA (p : str) | COpenDir (p : str)
| CClose | CRead (n : nat) | CReadN (n : N) (* read with a size taken from the input *) | CWrite (n : nat) | CSendfile (off n : nat)
(* the *at calls carry the directory behind the descriptor (not printed in the log) *)
| CMkdir (p : str) | CMkdirat (dir p : str) | CRmdir (p : str) | CUnlink (p : str) | CUnlinkat (dir name : str)
| CLink (a b : str) | CLinkat (a dir b : str) | CSymlinkat (target dir name : str)
| CReadlinkat (dir name : str) (size : nat) | CFstat | CFstatat (dir name : str) | CAccess (p : str)
| CFtruncate | CScandir (p : str) | CFtsOpen (p : str).

Inductive ret := RInt (n : Z) | RFd | ROk | RErr (e : errno) | RFault (e : errno).

Record world := mkW {
  w_fs : fs;
  w_n : nat;                       (* index of the next call *)
  w_log : list (call * ret);       (* most recent first *)
  w_clock : Z;
  w_tr : trace
}.

(* None = the process died *)
Definition M (A : Type) := oracle -> world -> option A * world.

Definition ret_ {A} (a : A) : M A := fun _ w => (Some a, w).
Definition bind {A B} (m : M A) (k : A -> M B) : M B :=
  fun o w => match m o w with
             | (Some a, w') => k a o w'
             | (None, w') => (None, w')
             end.
Notation "'do' x <- m ; k" := (bind m (fun x => k)) (at level 200, x pattern, m at level 100, k at level 200).
Notation "m ;; k" := (bind m (fun _ => k)) (at level 100, right associativity).

Definition get_tr : M trace := fun _ w => (Some (w_tr w), w).
Definition set_tr (t : trace) : M unit :=
  fun _ w => (Some tt, mkW (w_fs w) (w_n w) (w_log w) (w_clock w) t).
Definition mod_tr (f : trace -> trace) : M unit := do t <- get_tr; set_tr (f t).
Definition is_ok : M bool := do t <- get_tr; ret_ (tr_ok t).
Definition get_clock : M Z := fun _ w => (Some (w_clock w), w).
Definition get_fs : M fs := fun _ w => (Some (w_fs w), w).

Definition throw (f : frame) : M unit := mod_tr (tr_push f).
Definition throw_static (m : msg) : M unit := throw (FStatic m).
Definition throw_errno (e : errno) : M unit := throw (FErrno e).
Definition throw_context (s : str) : M unit := throw (FContext s).
Definition try_ : M unit := mod_tr tr_try.
Definition finally_ : M unit := mod_tr tr_finally.
Definition finally_rethrow_static (m : msg) : M unit := mod_tr (tr_finally_rethrow_static m).
Definition rethrow_context (s : str) : M unit := mod_tr (tr_rethrow_context s).
Definition catch_static (m : msg) : M bool :=
  do t <- get_tr; let '(b, t') := tr_catch_static m t in set_tr t';; ret_ b.

(* One system call.  [perform] gives the fault-free result on the current file
   system, as (result to log, value for the program, new fs).  A failed call
   does not touch the file system. *)
Definition sys {A} (c : call) (perform : fs -> ret * A * fs) (on_fail : errno -> A) : M A :=
  fun o w =>
    match o (w_n w) with
    | FCrash => (None, w)
    | FFail e =>
        (Some (on_fail e), mkW (w_fs w) (S (w_n w)) ((c, RFault e) :: w_log w) (w_clock w) (w_tr w))
    | _ =>
        let '(r, a, f') := perform (w_fs w) in
        (Some a, mkW f' (S (w_n w)) ((c, r) :: w_log w) (w_clock w) (w_tr w))
    end.

(* the number of bytes a transfer call may move at this index *)
Definition transfer_limit (is_sendfile : bool) (want : nat) : M nat :=
  fun o w => (Some (match o (w_n w) with
                    | FShort n => Nat.min n want
                    | FChunk n => if is_sendfile then Nat.min n want else want
                    | _ => want
                    end), w).

Definition err_ret (x : option errno) : ret := match x with None => RInt 0 | Some e => RErr e end.

(* ----- wrappers: value returned is None on success / Some errno on failure,
   or inl value / inr errno ----- *)

Definition sys_unit (c : call) (op : fs -> option errno * fs) : M (option errno) :=
  sys c (fun f => let '(e, f') := op f in (err_ret e, e, f')) (fun e => Some e).

Definition k_mkdir (p : str) := sys_unit (CMkdir p) (fs_mkdir p).
Definition k_mkdirat (dir rel : str) := sys_unit (CMkdirat dir rel) (fs_mkdir (join dir rel)).
Definition k_rmdir (p : str) := sys_unit (CRmdir p) (fs_rmdir p).
Definition k_unlink (p : str) := sys_unit (CUnlink p) (fs_unlink p).
Definition k_unlinkat (dir name : str) := sys_unit (CUnlinkat dir name) (fs_unlink (join dir name)).
Definition k_link (a b : str) := sys_unit (CLink a b) (fs_link a b).
Definition k_linkat (a dir rel : str) := sys_unit (CLinkat a dir rel) (fs_link a (join dir rel)).
Definition k_symlinkat (target dir name : str) : M (option errno) :=
  do now <- get_clock;
  sys_unit (CSymlinkat target dir name) (fs_symlink (join dir name) target now).

Definition k_open_gen (c : call) (op : fs -> (fd + errno) * fs) : M (fd + errno) :=
  sys c (fun f => let '(r, f') := op f in
                  (match r with inl _ => RFd | inr e => RErr e end, r, f'))
        (fun e => inr e).
Definition k_open_read (p : str) := k_open_gen (COpenR p) (fun f => (fs_open_read p f, f)).
Definition k_open_excl (p : str) := k_open_gen (COpenExcl p) (fs_create_excl p).
Definition k_open_w (p : str) := k_open_gen (COpenW p) (fs_open_create p).
Definition k_open_a (p : str) := k_open_gen (COpenA p) (fs_open_create p).
Definition k_open_dir (p : str) :=
  k_open_gen (COpenDir p)
    (fun f => (match lookup f p with
               | Some NDir => inl (FdDir p)
               | Some _ => inr ENOTDIR
               | None => inr ENOENT
               end, f)).

Definition k_close : M (option errno) := sys_unit CClose (fun f => (None, f)).

(* fstat on a descriptor: Some true = regular file; also the size *)
Definition k_fstat (d : fd) : M ((bool * nat) + errno) :=
  sys CFstat (fun f => (RInt 0,
                        inl match d with
                            | FdFile i => (true, length (f_bytes (get_file f i)))
                            | FdDir _ => (false, 0)
                            end, f))
      (fun e => inr e).

(* sendfile(out, in, &off, count): moves min(count, limit, available) bytes *)
Definition k_sendfile (out inp : nat) (off count : nat) : M (nat + errno) :=
  do lim <- transfer_limit true count;
  sys (CSendfile off lim)
      (fun f => let avail := skipn off (f_bytes (get_file f inp)) in
                let chunk := firstn lim avail in
                (RInt (Z.of_nat (length chunk)), inl (length chunk), fs_append out chunk f))
      (fun e => inr e).

Definition k_write (i : nat) (bytes : str) : M (nat + errno) :=
  do lim <- transfer_limit false (length bytes);
  sys (CWrite lim)
      (fun f => let chunk := firstn lim bytes in
                (RInt (Z.of_nat (length chunk)), inl (length chunk), fs_append i chunk f))
      (fun e => inr e).

(* read of one byte at position pos of a file *)
Definition k_read1 (i : nat) (pos : nat) : M (option ascii + errno) :=
  sys (CRead 1)
      (fun f => match nth_error (f_bytes (get_file f i)) pos with
                | Some c => (RInt 1, inl (Some c), f)
                | None => (RInt 0, inl None, f)
                end)
      (fun e => inr e).

(* read(fd, buf, n) from position pos: returns the bytes *)
Definition k_read (i : nat) (pos n : nat) : M (str + errno) :=
  sys (CRead n)
      (fun f => let b := firstn n (skipn pos (f_bytes (get_file f i))) in
                (RInt (Z.of_nat (length b)), inl b, f))
      (fun e => inr e).

Definition k_ftruncate (i : nat) : M (option errno) :=
  sys_unit CFtruncate (fun f => (None, fs_truncate i f)).

Definition k_readlinkat (dir name : str) (size : nat) : M (str + errno) :=
  sys (CReadlinkat dir name size)
      (fun f => match fs_readlink (join dir name) f with
                | inl t => (RInt (Z.of_nat (Nat.min size (length t))), inl (firstn size t), f)
                | inr e => (RErr e, inr e, f)
                end)
      (fun e => inr e).

Definition k_fstatat_mtime (dir name : str) : M (Z + errno) :=
  sys (CFstatat dir name)
      (fun f => match fs_lstat_mtime (join dir name) f with
                | inl m => (RInt 0, inl m, f)
                | inr e => (RErr e, inr e, f)
                end)
      (fun e => inr e).

Definition k_access (p : str) : M bool :=
  sys (CAccess p) (fun f => if fs_exists p f then (RInt 0, true, f) else (RErr (missing_errno p f), false, f))
      (fun _ => false).

Definition k_scandir (p : str) : M (list str + errno) :=
  sys (CScandir p)
      (fun f => match fs_scandir p f with
                | inl l => (RInt (Z.of_nat (length l)), inl l, f)
                | inr e => (RErr e, inr e, f)
                end)
      (fun e => inr e).

(* fts_open + the whole traversal, as one call returning the entry list *)
Definition k_fts (reverse : bool) (root : str) : M (list (str * wkind) + errno) :=
  sys (CFtsOpen root) (fun f => (ROk, inl (fs_walk reverse f root), f)) (fun e => inr e).

(* run a program *)
Definition run {A} (m : M A) (o : oracle) (w : world) : option A * world := m o w.
Definition no_faults : oracle := fun _ => FNone.
