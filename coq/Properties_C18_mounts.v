(* C18 "a directory is bind-mounted onto itself exactly when it is not already a
   mount point", down to the TEXT of /proc/self/mounts: the kernel's writer
   (mangle: space, tab, newline, backslash as \ooo) composed with the model of
   load_mountinfo (src/mountinfo.c) gives back exactly the mount points, so the
   look-up of a watch root in the table klunok read is the look-up among the
   directories that are mounted.  The reader as it was before fix 9d086a9 (no
   decoding) is refuted by a witness: "/mnt/a b", already mounted, is mounted
   again.  Statements only; proofs in MountProofs.v. *)
From K Require Import Str MountParse Main MainProofs ParamsProofs MountProofs.

(* what klunok reads back from the kernel's table is what is mounted *)
Theorem C18_mount_table_roundtrip : forall ms : list mount,
  Forall mount_ok ms -> parse_mounts (render_mounts ms) = map m_dir ms.
Proof. exact parse_render. Qed.
Print Assumptions C18_mount_table_roundtrip.

Theorem C18_mount_table_unterminated : forall (ms : list mount) (m : mount),
  Forall mount_ok ms -> mount_ok m ->
  parse_mounts (render_mounts ms ++ body m) = map m_dir (ms ++ [m]).
Proof. exact parse_render_unterminated. Qed.
Print Assumptions C18_mount_table_unterminated.

(* a root is bind-mounted iff no entry of the kernel's table has it as mount point *)
Theorem C18_mount_iff_not_in_kernel_table :
  forall (is_exec : bool) (env : env) (ms : list mount) (roots : list str) (n : nat)
         (prev : option str) (cpl : nat) (evs : list out) (mounted' : list str) (n' cpl' : nat),
  Forall mount_ok ms ->
  e_mounted env = parse_mounts (render_mounts ms) ->
  mark_roots is_exec env roots (e_mounted env) n prev cpl = (evs, true, mounted', n', cpl') ->
  forall r m, In r roots -> assoc r (e_realpath env) = Some m ->
    In (OMark is_exec m) evs /\
    (In (OMount m) evs <-> (forall e, In e ms -> m_dir e <> m)) /\
    mount_count m evs <= 1.
Proof. exact mount_iff_not_in_kernel_table. Qed.
Print Assumptions C18_mount_iff_not_in_kernel_table.

(* the defect repaired by 9d086a9, machine-checked: without the decoding the
   round trip fails, and a mounted "/mnt/a b" is mounted a second time *)
Theorem C18_raw_reader_refuted :
  exists ms : list mount, Forall mount_ok ms /\ parse_mounts_gen false (render_mounts ms) <> map m_dir ms.
Proof. exact parse_render_raw_refuted. Qed.
Print Assumptions C18_raw_reader_refuted.

Theorem C18_raw_reader_mounts_twice :
  Forall mount_ok tbl2 /\ In dir_ab (map m_dir tbl2) /\
  In (OMount dir_ab) (main (env_of (parse_mounts_gen false (render_mounts tbl2)))) /\
  ~ In (OMount dir_ab) (main (env_of (parse_mounts (render_mounts tbl2)))).
Proof. destruct raw_reader_mounts_twice as (H1 & H2 & _ & H3 & H4 & _). exact (conj H1 (conj H2 (conj H3 H4))). Qed.
Print Assumptions C18_raw_reader_mounts_twice.

Example C18_mounts_example := mount_iff_not_in_kernel_table_example.
