(* C07 for the daemon as a whole: along any run of the event loop with the real
   handler (passes in between included) a pid is marked exactly when the
   property's wording calls the process an editor, and the property's last
   sentence holds of the next write notification.  Proofs in DaemonProofs.v. *)
From K Require Import Str Dec Trace Fs World Progs Elf Sieve SieveSpec Handler Linq LinqSpec LinqProofs
     Hoare Confine Confine2 SyncProofs AbandonProofs JournalProofs QueueProofs StoreFs StoreLogic StoreProofs
     FdProofs PassProofs JournalHistoryProofs AcceptProofs ReloadProofs AttrProofs ReloadHistory MixedHistory
     Main MainProofs Daemon DaemonProofs.

(* marks and loaders at any loop head of any run *)
Theorem C07_daemon_tracks_attribution :
  forall (self : N) (rev : bool) (o : oracle) (ns : list notif) (pause : Z) 
         (h : handler) (w : world) (zp : Z) (hp : handler) (wp : world),
       benign o ->
       okw w = true ->
       envs_ok ns ->
       no_cfg_event (h_cfg_path h) ns ->
       h_pids h = [] ->
       h_interps h = [] ->
       daemon_state self rev o ns pause h w = Some (zp, hp, wp) ->
       (forall pid : N,
        pid_mem pid (h_pids hp) = is_editor_at (c_editors (h_cfg h)) (events_along self rev o ns h w) pid) /\
       h_interps hp = s_ld (spec_state (c_editors (h_cfg h)) (events_along self rev o ns h w)) /\
       same_setup h hp /\ okw wp = true.
Proof. exact daemon_tracks_attribution. Qed.
Print Assumptions C07_daemon_tracks_attribution.

(* a write notification from a process that is not an editor, for a path that is not force-included, adds nothing to the queue *)
Theorem C07_daemon_non_editor_never_queued :
  forall (self : N) (rev : bool) (o : oracle) (pre : list notif) (e : event) 
         (path : str) (nc : option config) (pause : Z) (h : handler) (w : world) 
         (zp : Z) (hp : handler) (wp : world) (ents : list qent),
       benign o ->
       okw w = true ->
       envs_ok pre ->
       no_cfg_event (h_cfg_path h) pre ->
       h_pids h = [] ->
       h_interps h = [] ->
       daemon_state self rev o pre pause h w = Some (zp, hp, wp) ->
       foreign_write self e ->
       h_cfg_path h <> Some path ->
       is_editor_at (c_editors (h_cfg h)) (events_along self rev o pre h w) (ev_pid e) = false ->
       class_of (h_cfg h) (h_cpl h) path <> Some (CRule KIncluded) ->
       class_of (h_cfg h) (h_cpl h) path <> Some (CRule KHistory) ->
       QRel (h_q hp) (w_fs wp) ents ->
       journal_fits (h_journal hp) (c_ev_write_not_by_editor (h_cfg h)) (w_clock wp) ->
       exists w1 : world,
         dispatch_of self (NEvent e path nc) hp o wp = (Some hp, w1) /\
         QRel (h_q hp) (w_fs w1) ents /\
         fs_dents (w_fs w1) = fs_dents (w_fs wp) /\ okw w1 = true /\ w_clock w1 = w_clock wp.
Proof. exact daemon_non_editor_never_queued. Qed.
Print Assumptions C07_daemon_non_editor_never_queued.

(* a write notification from an editor for a visible, non-excluded path always adds its entry *)
Theorem C07_daemon_editor_always_queued :
  forall (self : N) (rev : bool) (o : oracle) (pre : list notif) (e : event) 
         (path : str) (nc : option config) (pause : Z) (h : handler) (w : world) 
         (zp : Z) (hp : handler) (wp : world) (ents : list qent),
       benign o ->
       okw w = true ->
       envs_ok pre ->
       no_cfg_event (h_cfg_path h) pre ->
       h_pids h = [] ->
       h_interps h = [] ->
       daemon_state self rev o pre pause h w = Some (zp, hp, wp) ->
       foreign_write self e ->
       h_cfg_path h <> Some path ->
       is_editor_at (c_editors (h_cfg h)) (events_along self rev o pre h w) (ev_pid e) = true ->
       class_of (h_cfg h) (h_cpl h) path <> Some CHidden ->
       class_of (h_cfg h) (h_cpl h) path <> Some (CRule KExcluded) ->
       QRel (h_q hp) (w_fs wp) ents ->
       journal_fits (h_journal hp) (c_ev_write_by_editor (h_cfg h)) (w_clock wp) ->
       normal path ->
       (forall (ih : bool) (pr : option nat),
        push_decision (c_rules (h_cfg h)) (h_cpl h) true path = (true, ih, pr) ->
        fits (q_len_guess (h_q hp)) (path, linq_meta ih pr, w_clock wp)) ->
       exists (ih : bool) (pr : option nat) (w1 : world),
         push_decision (c_rules (h_cfg h)) (h_cpl h) true path = (true, ih, pr) /\
         dispatch_of self (NEvent e path nc) hp o wp = (Some (set_q (acc_q path pr (h_q hp)) hp), w1) /\
         QRel (acc_q path pr (h_q hp)) (w_fs w1) (ents ++ acc_ents path ih pr (w_clock wp)) /\
         okw w1 = true /\ w_clock w1 = w_clock wp.
Proof. exact daemon_editor_always_queued. Qed.
Print Assumptions C07_daemon_editor_always_queued.

