(* C06 Selection policy: the most specific matching rule decides. *)
From K Require Import Str Sieve SieveSpec SieveProofs.

(* sieve() computes, for every path, offset of the common parent and rule sets,
   the declarative matching: per set the end of the deepest entry that equals a
   whole-component prefix of the path (absolute, or relative to the common
   parent), and the start of the last hidden component *)
Theorem C06_sieve_spec : forall (path : str) (off : nat) (sets : list (list str)),
  sieve path off sets = (map (spec_end path off) sets, spec_dot path).
Proof. exact sieve_correct. Qed.
Print Assumptions C06_sieve_spec.

(* what "deepest" means: the greatest matching prefix length, None without a match *)
Theorem C06_deepest : forall (path : str) (off : nat) (s : list str),
  match spec_end path off s with
  | Some k => 1 <= k <= length path /\ matches_at path off s k = true /\
              forall k', k < k' <= length path -> matches_at path off s k' = false
  | None => forall k', 1 <= k' <= length path -> matches_at path off s k' = false
  end.
Proof. intros. apply greatest_spec. Qed.
Print Assumptions C06_deepest.

(* matching is by whole components: a matching prefix is "/" itself, the whole
   path, or is followed by '/' *)
Theorem C06_whole_components : forall (path : str) (k : nat),
  1 <= k <= length path -> boundary path k = true ->
  k = 1 \/ firstn k path = path \/ exists rest, path = firstn k path ++ ch_slash :: rest.
Proof. exact boundary_whole. Qed.
Print Assumptions C06_whole_components.

(* the deepest of {last hidden component, deepest cluded / included / excluded /
   history entry} decides (ties: that order): hidden and excluded never, included
   and history always, cluded only for editors *)
Theorem C06_deepest_decides : forall (r : rules) (cpl : nat) (editor : bool) (path : str) (c : cand) (k : nat),
  decides c k (rule_ends r cpl path) ->
  fst (fst (push_decision r cpl editor path)) = outcome editor c.
Proof. exact policy_decides. Qed.
Print Assumptions C06_deepest_decides.

(* with no match and no hidden component only editors' writes are queued *)
Theorem C06_default : forall (r : rules) (cpl : nat) (editor : bool) (path : str),
  (forall c e, In (c, e) (rule_ends r cpl path) -> e = None) ->
  fst (fst (push_decision r cpl editor path)) = editor.
Proof. exact policy_default. Qed.
Print Assumptions C06_default.

(* project sets take part in the loop but never change whether a write is queued *)
Theorem C06_projects_irrelevant : forall (r r' : rules) (cpl : nat) (editor : bool) (path : str),
  r_cluded r = r_cluded r' -> r_included r = r_included r' ->
  r_excluded r = r_excluded r' -> r_history r = r_history r' ->
  fst (fst (push_decision r cpl editor path)) = fst (fst (push_decision r' cpl editor path)).
Proof.
  intros r r' cpl editor path H1 H2 H3 H4. rewrite !push_decision_run.
  unfold rule_ends. rewrite H1, H2, H3, H4. reflexivity.
Qed.
Print Assumptions C06_projects_irrelevant.

(* non-vacuity: the configuration example of the documentation *)
Local Open Scope char_scope.
Definition s_ (l : list ascii) : str := l.
Example C06_example :
  let home := ["/";"h";"/";"n"] in
  let r := mkRules [] [home ++ ["/";"s"]; home ++ ["/";".";"c";"/";"k"]]
                   [home; home ++ ["/";"s";"/";"x"]] [] [] [] in
  (* /h/n/f excluded; /h/n/s/f included; /h/n/s/x excluded; /h/n/.c/f hidden;
     /h/n/.c/k/f included; /h/n/.c/k/.f hidden *)
  map (fun p => fst (fst (push_decision r 5 false (home ++ p))))
      [["/";"f"]; ["/";"s";"/";"f"]; ["/";"s";"/";"x"]; ["/";".";"c";"/";"f"];
       ["/";".";"c";"/";"k";"/";"f"]; ["/";".";"c";"/";"k";"/";".";"f"]]
  = [false; true; false; false; true; false].
Proof. vm_compute. reflexivity. Qed.
