(* The configuration model instantiated with the table generated from lua/config.lua.md. *)
From K Require Export Config.
From K.generated Require Import ConfigTable.

Definition klunok_load (user : list stmt) : option full_config := load_config pre_config decls user.
Definition klunok_globals (user : list stmt) : option genv := load_globals pre_config decls user.
