(* Interpreter of the configuration table: pre-config, the user's statements,
   then the post-config declare() calls, then the C-side reading of the globals
   (config-lua.c).  Generic in the table; ConfigInst.v instantiates it with the
   table generated from lua/config.lua.md. *)
From K Require Export ConfigDefs.
Local Open Scope Z_scope.

Definition genv := list (str * value).

Fixpoint glookup (n : str) (e : genv) : value :=
  match e with
  | [] => VNil
  | (k, v) :: r => if str_eqb n k then v else glookup n r
  end.

Fixpoint gset (n : str) (v : value) (e : genv) : genv :=
  match e with
  | [] => [(n, v)]
  | (k, x) :: r => if str_eqb n k then (k, v) :: r else (k, x) :: gset n v r
  end.

(* the user's configuration file: assignments of literals to globals and to keys
   of table-valued globals *)
Inductive stmt :=
| SGlobal (name : str) (v : value)
| SKey (table : str) (key : tkey) (v : value).

Definition tkey_eqb (a b : tkey) : bool :=
  match a, b with
  | KStr x, KStr y => str_eqb x y
  | KOther, KOther => true
  | _, _ => false
  end.

Fixpoint tab_set (k : tkey) (v : value) (t : list (tkey * value)) : list (tkey * value) :=
  match t with
  | [] => match v with VNil => [] | _ => [(k, v)] end
  | (k', x) :: r =>
      if tkey_eqb k k' then match v with VNil => r | _ => (k', v) :: r end
      else (k', x) :: tab_set k v r
  end.

(* None: a Lua error (indexing a non-table) *)
Definition exec_stmt (e : genv) (st : stmt) : option genv :=
  match st with
  | SGlobal n v => Some (gset n v e)
  | SKey t k v =>
      match glookup t e with
      | VTab ents => Some (gset t (VTab (tab_set k v ents)) e)
      | _ => None
      end
  end.

Fixpoint exec_stmts (e : genv) (l : list stmt) : option genv :=
  match l with
  | [] => Some e
  | st :: r => match exec_stmt e st with Some e' => exec_stmts e' r | None => None end
  end.

(* evaluation of a default expression (Lua: `..` and `*` coerce numbers/strings;
   the table only applies them to values that were type-checked before) *)
Fixpoint eval (e : genv) (d : dexpr) : option value :=
  match d with
  | DNil => Some VNil
  | DStr v => Some (VStr v)
  | DInt z => Some (VInt z)
  | DVar n => Some (glookup n e)
  | DConcat a b =>
      match eval e a, eval e b with
      | Some (VStr x), Some (VStr y) => Some (VStr (x ++ y))
      | _, _ => None
      end
  | DMul a b =>
      match eval e a, eval e b with
      | Some (VInt x), Some (VInt y) => Some (VInt (x * y))
      | _, _ => None
      end
  end.

Definition check (t : tpred) (v : value) : bool :=
  match t, v with
  | TString, VStr _ => true
  | TNilOrString, VNil => true
  | TNilOrString, VStr _ => true
  | TPositive, VInt z => 0 <=? z
  | TSetOfStrings, VTab ents => forallb (fun kv => match fst kv with KStr _ => true | KOther => false end) ents
  | _, _ => false
  end.

(* declare(name, default, assertion): `if _G[name] == nil and default ~= nil then _G[name] = default else assertion(name)` *)
Definition declare (e : genv) (d : decl) : option genv :=
  match eval e (d_default d) with
  | None => None
  | Some dv =>
      match glookup (d_name d) e, dv with
      | VNil, VNil => if check (d_type d) VNil then Some e else None
      | VNil, _ => Some (gset (d_name d) dv e)
      | v, _ => if check (d_type d) v then Some e else None
      end
  end.

Fixpoint declare_all (e : genv) (ds : list decl) : option genv :=
  match ds with
  | [] => Some e
  | d :: r => match declare e d with Some e' => declare_all e' r | None => None end
  end.

Definition load_globals (pre : genv) (ds : list decl) (user : list stmt) : option genv :=
  match exec_stmts pre user with
  | None => None
  | Some e => declare_all e ds
  end.

(* ---------- the C side: reading the globals ---------- *)

Definition read_string (e : genv) (n : string) : option str :=
  match glookup (s n) e with VStr v => Some v | _ => None end.
Definition read_size (e : genv) (n : string) : Z :=
  match glookup (s n) e with VInt z => z | _ => 0 end.
Definition read_set (e : genv) (n : string) : list str :=
  match glookup (s n) e with
  | VTab ents => flat_map (fun kv => match fst kv with KStr k => [k] | KOther => [] end) ents
  | _ => []
  end.

Record full_config := mkFC {
  fc_editors : list str; fc_project_roots : list str; fc_project_parents : list str;
  fc_history : list str; fc_excluded : list str; fc_included : list str; fc_cluded : list str;
  fc_store_root : option str; fc_project_store_root : option str; fc_unstable_root : option str;
  fc_queue_path : option str; fc_journal_path : option str; fc_journal_pattern : option str;
  fc_version_pattern : option str; fc_offset_root : option str;
  fc_debounce : Z; fc_path_length_guess : Z; fc_max_pid_guess : Z; fc_elf_guess : Z; fc_queue_size_guess : Z;
  fc_ev : list (option str)     (* the seven event labels in declaration order *)
}.

Definition read_config (e : genv) : full_config :=
  mkFC (read_set e "editors") (read_set e "project_roots") (read_set e "project_parents")
       (read_set e "history_paths") (read_set e "excluded_paths") (read_set e "included_paths") (read_set e "cluded_paths")
       (read_string e "store_root") (read_string e "project_store_root") (read_string e "unstable_project_store_root")
       (read_string e "queue_path") (read_string e "journal_path") (read_string e "journal_timestamp_pattern")
       (read_string e "version_pattern") (read_string e "offset_store_root")
       (read_size e "debounce_seconds") (read_size e "path_length_guess") (read_size e "max_pid_guess")
       (read_size e "elf_interpreter_count_guess") (read_size e "queue_size_guess")
       [read_string e "event_open_exec_not_editor"; read_string e "event_open_exec_editor";
        read_string e "event_close_write_not_by_editor"; read_string e "event_close_write_by_editor";
        read_string e "event_queue_head_deleted"; read_string e "event_queue_head_forbidden";
        read_string e "event_queue_head_stored"].

Definition load_config (pre : genv) (ds : list decl) (user : list stmt) : option full_config :=
  match load_globals pre ds user with
  | Some e => Some (read_config e)
  | None => None
  end.
