(* C02 / C19 for the daemon as a whole: a burst of writes seen through the REAL
   event loop (Daemon.daemon_loop), then a wake-up.

   BurstProofs.burst_then_pass is about a history of accepted writes followed
   by ONE pass.  In main.c every notification is followed by a pass
   (handle_timeout), so a burst seen by the daemon is
       exec; pass; write; pass; write; pass; ...; (clock moves); wake-up = pass.
   Here the loop of main.c itself is run over the notification list

       NEvent ex xpath xnc :: bs ++ [NEnv wT; NWake]

   (ex: an exec event of a configured editor by pid P; bs: write events by
   processes that count as editors then, for plain qualifying paths, interleaved
   in any order with changes of the environment that leave the queue directory
   and the journal alone and do not move the clock backwards), under the
   hypothesis that every INTERMEDIATE pass finds nothing due (the head of the
   queue is younger than the debounce at the time of each write notification).

     handle_timeout_waits      a pass that finds nothing due: the handler, the
                               file system and the clock are unchanged, the
                               answer is the wait of the head (-1: empty queue)
     exec_iteration            the iteration of an exec event of an editor
     write_iteration           the iteration of an accepted plain write whose
                               pass finds nothing due
     burst_segment             the loop over the burst (induction)
     daemon_burst_then_wakeup  THE THEOREM (outs, who is stored, pass_facts, queue, journal)
     daemon_burst_per_path     the same read path by path, for whatever the run returns
     daemon_one_file_burst     one path written k >= 1 times, quiet for the debounce
     daemon_one_file_burst_young   ... woken up before the end of the quiet period
     Module DaemonBurstExample DaemonExample's world: exec of vim by pid 7, writes
                               of /h/a at 100 s and 101 s and of /h/x/i at 101 s,
                               clock to 106 s, wake-up *)
From K Require Import Str Dec Trace Fs World Progs Sieve Handler Linq LinqSpec LinqProofs
     DecProofs SyncProofs AbandonProofs JournalProofs QueueProofs Confine DebounceProofs
     PassProofs PassProofs2 JournalHistoryProofs AcceptProofs MemberProofs MemberBurst
     ReloadProofs AttrProofs ReloadHistory MixedHistory Main MainProofs Daemon DaemonProofs.
From K Require BurstProofs.
From Coq Require Import Lia.
Arguments N.add : simpl never.
Arguments N.sub : simpl never.
Arguments N.mul : simpl never.
Arguments N.of_nat : simpl never.
Arguments N.to_nat : simpl never.
Arguments N.eqb : simpl never.
Arguments N.leb : simpl never.
Arguments N.ltb : simpl never.
Arguments Nat.pow : simpl never.
Arguments Nat.mul : simpl never.

(* ====================================================================== *)
(* 1. a pass that finds nothing due                                        *)
(* ====================================================================== *)

(* PassProofs.handle_timeout_idle and handle_timeout_not_due in one statement *)
Lemma handle_timeout_waits o w h rev rest :
  benign o -> tr_ok (w_tr w) = true ->
  QRel (h_q h) (w_fs w) rest -> not_due (w_clock w) (q_deb (h_q h)) rest ->
  exists w',
    handle_timeout rev h o w =
      (Some (TPause (pause_of (w_clock w) (q_deb (h_q h)) rest), h), w') /\
    w_fs w' = w_fs w /\ w_clock w' = w_clock w /\ tr_keep (w_tr w) (w_tr w').
Proof.
  intros H Hok HR Hnd. unfold handle_timeout.
  destruct (pass_stops o w h rev (S (N.to_nat (q_size (h_q h)))) rest H Hok HR Hnd)
    as (w' & E & F & C & K).
  rewrite (SyncProofs.bind_some _ _ _ _ _ _ E).
  rewrite (SyncProofs.bind_some _ _ _ _ _ _ (is_ok_eq o w')). rewrite (tr_keep_ok _ _ K).
  unfold ret_. exists w'. split; [reflexivity|]. split; [exact F|]. split; [exact C | exact K].
Qed.

(* ====================================================================== *)
(* 2. single iterations of the loop                                        *)
(* ====================================================================== *)

(* an event record main.c accepts (version, no overflow) *)
Definition sane (e : Main.event) : Prop := ev_vers_ok e = true /\ ev_overflow e = false.

Lemma sane_well_formed e : sane e -> well_formed e = true.
Proof. intros [A B]. unfold well_formed. rewrite A, B. reflexivity. Qed.

(* the exec event of an editor: handle_open_exec marks the process, writes
   the journal line; the pass that follows finds the queue as it was *)
Lemma exec_iteration self rev o w h e path nc ents :
  benign o -> tr_ok (w_tr w) = true ->
  QRel (h_q h) (w_fs w) ents -> not_due (w_clock w) (q_deb (h_q h)) ents ->
  sane e -> ev_exec e = true ->
  exec_dangling h (w_fs w) path = false ->
  journal_fits (h_journal h) (exec_event_name h path) (w_clock w) ->
  let hE := h_step h (ev_pid e) path (interp_of (w_fs w) path) in
  exists w2,
    iteration self rev (NEvent e path nc) h o w =
      (Some (Next [ORead; OExec (ev_pid e) (ev_fd e); OClose (ev_fd e); OTimeout]
                  (pause_of (w_clock w) (q_deb (h_q h)) ents) hE), w2) /\
    same_static h hE /\
    journal_step (h_journal h) (exec_line h (w_clock w) (ev_pid e) path) (w_fs w) (w_fs w2) /\
    QRel (h_q hE) (w_fs w2) ents /\
    tr_ok (w_tr w2) = true /\ w_clock w2 = w_clock w.
Proof.
  intros H Hok HR Hnd Hs Hx Hdang Hjf hE.
  destruct (handle_open_exec_refines o w (ev_pid e) path h H Hok)
    as (h' & w1 & E1 & Eh & _ & Hst & C1 & Hgood & _).
  destruct (Hgood Hdang Hjf) as [K1 J1].
  fold hE in Eh. subst h'.
  pose proof Hst as (S1 & S2 & S3 & S4 & S5).
  assert (HR1 : QRel (h_q hE) (w_fs w1) ents).
  { rewrite S4. exact (QRel_same_dents _ _ _ _ (journal_step_dents _ _ _ _ J1) HR). }
  assert (Hnd1 : not_due (w_clock w1) (q_deb (h_q hE)) ents) by (rewrite C1, S4; exact Hnd).
  destruct (handle_timeout_waits o w1 hE rev ents H (tr_keep_ok _ _ K1) HR1 Hnd1)
    as (w2 & E2 & F2 & C2 & K2).
  exists w2.
  rewrite (iteration_event _ _ _ _ _ _ _ _ (sane_well_formed _ Hs)).
  unfold after_dispatch, dispatched, disp_outs. rewrite Hx. cbn [orb negb].
  rewrite E1. unfold okw. rewrite (tr_keep_ok _ _ K1).
  rewrite C1 in E2. rewrite S4 in E2 at 1.
  rewrite service_run, E2.
  split; [reflexivity|]. split; [exact Hst|].
  split; [rewrite F2; exact J1|].
  split; [rewrite F2; exact HR1|].
  split; [exact (tr_keep_ok _ _ K2) | congruence].
Qed.

(* a write event dispatched to handle_close_write: not an exec, the write bit
   set, the writer is not the daemon *)
Definition write_event (self : N) (e : Main.event) : Prop :=
  sane e /\ ev_exec e = false /\ ev_write e = true /\ ev_pid e <> self.

(* the iteration of an accepted plain write whose pass finds nothing due *)
Lemma write_iteration self rev o w h e path nc ents :
  benign o -> tr_ok (w_tr w) = true ->
  QRel (h_q h) (w_fs w) ents ->
  write_event self e ->
  BurstProofs.write_ok h (w_clock w) (ev_pid e) path ->
  let now := w_clock w in
  let ents' := ents ++ [(path, 0%N, now)] in
  not_due now (q_deb (h_q h)) ents' ->
  exists w2,
    iteration self rev (NEvent e path nc) h o w =
      (Some (Next [ORead; OWrite (ev_pid e) (ev_fd e); OClose (ev_fd e); OTimeout]
                  (pause_of now (q_deb (h_q h)) ents') (set_q (pushed path (h_q h)) h)), w2) /\
    QRel (pushed path (h_q h)) (w_fs w2) ents' /\
    only_journal (h_journal h) (wline (h_journal h) (c_ev_write_by_editor (h_cfg h)) (ev_pid e) path now)
                 [next_name (h_q h)] (w_fs w) (w_fs w2) /\
    tr_ok (w_tr w2) = true /\ w_clock w2 = now.
Proof.
  intros H Hok HR (Hs & Hx & Hw & Hself) [Wd Wc Wj Wn Wf] now ents' Hnd.
  change 0%N with (linq_meta false None) in Wf.
  destruct (accept_write_plain o w h (ev_pid e) path nc ents false H Hok HR Wd Wc Wj Wn Wf)
    as (w1 & E1 & HR1 & _ & OJ & T1 & _ & C1 & _).
  cbv zeta in *. change (linq_meta false None) with 0%N in HR1.
  set (h1 := set_q (pushed path (h_q h)) h) in *.
  assert (Hnd1 : not_due (w_clock w1) (q_deb (h_q h1)) ents') by (rewrite C1; exact Hnd).
  destruct (handle_timeout_waits o w1 h1 rev ents' H T1 HR1 Hnd1) as (w2 & E2 & F2 & C2 & K2).
  exists w2.
  rewrite (iteration_event _ _ _ _ _ _ _ _ (sane_well_formed _ Hs)).
  unfold after_dispatch, dispatched, disp_outs. rewrite Hx, Hw.
  assert (Eself : (ev_pid e =? self)%N = false) by (apply N.eqb_neq; exact Hself).
  rewrite Eself. cbn [orb andb negb].
  rewrite E1. unfold okw. rewrite T1.
  rewrite service_run, E2. rewrite C1.
  split; [reflexivity|]. split; [rewrite F2; exact HR1|].
  split; [rewrite F2; exact OJ|].
  split; [exact (tr_keep_ok _ _ K2) | rewrite C2; exact C1].
Qed.

(* ====================================================================== *)
(* 3. the burst                                                            *)
(* ====================================================================== *)

(* the history (BurstProofs.step) behind a list of notifications: the write
   events and the changes of the environment *)
Fixpoint wsteps (bs : list notif) : list BurstProofs.step :=
  match bs with
  | [] => []
  | NEvent e path nc :: r => BurstProofs.Write (ev_pid e) path nc :: wsteps r
  | NEnv w2 :: r => BurstProofs.Env w2 :: wsteps r
  | _ :: r => wsteps r
  end.

(* the editors at work: BurstProofs.env_ok (the queue directory is left alone,
   no error is pending, the clock does not move backwards), and the journal
   file is left alone *)
Definition env_quiet (h : handler) (w w2 : world) : Prop :=
  BurstProofs.env_ok (h_q h) w w2 /\
  forall jn, h_journal h = Some jn ->
    f_bytes (get_file (w_fs w2) (j_ino jn)) = f_bytes (get_file (w_fs w) (j_ino jn)).

(* the side conditions hold along the daemon's run (the analogue of
   BurstProofs.hist_ok): each write event is one main.c dispatches to
   handle_close_write, under BurstProofs.write_ok (accepted, plain: no history
   flag, no project, not the configuration file); THE PASS THAT FOLLOWS IT FINDS
   NOTHING DUE (the head of the queue [ents] -- or this very write, if nothing
   was pending -- is younger than the debounce); each change of the environment
   is env_quiet.  [ents]: the reference queue at that point. *)
Fixpoint burst_ok (self : N) (rev : bool) (o : oracle) (bs : list notif) (ents : list qent)
         (h : handler) (w : world) : Prop :=
  match bs with
  | [] => True
  | NEvent e path nc :: r =>
      write_event self e /\
      BurstProofs.write_ok h (w_clock w) (ev_pid e) path /\
      not_due (w_clock w) (q_deb (h_q h)) (ents ++ [(path, 0%N, w_clock w)]) /\
      forall outs z h1 w1,
        iteration self rev (NEvent e path nc) h o w = (Some (Next outs z h1), w1) ->
        burst_ok self rev o r (ents ++ [(path, 0%N, w_clock w)]) h1 w1
  | NEnv w2 :: r => env_quiet h w w2 /\ burst_ok self rev o r ents h w2
  | _ :: _ => False
  end.

(* what the loop emits over the burst, and the wait it is in afterwards:
   before each event the poll with the wait the previous pass asked for, then
   read, the dispatch, close, the pass *)
Fixpoint burst_outs (deb : Z) (bs : list notif) (now : Z) (ents : list qent) (pause : Z) : list out :=
  match bs with
  | NEvent e path _ :: r =>
      OPoll (poll_ms pause) :: ORead :: OWrite (ev_pid e) (ev_fd e) :: OClose (ev_fd e) :: OTimeout ::
      burst_outs deb r now (ents ++ [(path, 0%N, now)]) (pause_of now deb (ents ++ [(path, 0%N, now)]))
  | NEnv w2 :: r => burst_outs deb r (w_clock w2) ents pause
  | _ => []
  end.

Fixpoint burst_pause (deb : Z) (bs : list notif) (now : Z) (ents : list qent) (pause : Z) : Z :=
  match bs with
  | NEvent e path _ :: r =>
      burst_pause deb r now (ents ++ [(path, 0%N, now)]) (pause_of now deb (ents ++ [(path, 0%N, now)]))
  | NEnv w2 :: r => burst_pause deb r (w_clock w2) ents pause
  | _ => pause
  end.

(* the journal lines of the write events, each stamped with the clock of its event *)
Fixpoint wlines (oj : option journal) (ev : option str) (now : Z) (bs : list notif) : str :=
  match bs with
  | [] => []
  | NEvent e path _ :: r => wline oj ev (ev_pid e) path now ++ wlines oj ev now r
  | NEnv w2 :: r => wlines oj ev (w_clock w2) r
  | _ :: r => wlines oj ev now r
  end.

(* [pre] emitted before the run [x] *)
Definition prefix_out (pre : list out) (x : option (list out * handler) * world)
  : option (list out * handler) * world :=
  match x with
  | (Some t, w2) => (Some (pre ++ fst t, snd t), w2)
  | (None, w2) => (None, w2)
  end.

Lemma prefix_out_nil x : prefix_out [] x = x.
Proof. destruct x as [[[outs h]|] w]; reflexivity. Qed.

Lemma prefix_out_app a b x : prefix_out (a ++ b) x = prefix_out a (prefix_out b x).
Proof.
  destruct x as [[[outs h]|] w]; unfold prefix_out; [|reflexivity].
  unfold fst, snd. rewrite <- app_assoc. reflexivity.
Qed.

(* THE LOOP OVER THE BURST.  From the loop head in (h, w) with the wait [pause]
   and the queue [ents]: the loop goes through [bs] without exit; it emits
   burst_outs; it is then at the loop head with the handler of BurstProofs.run
   (the queue pushed once per write event: no pass has changed it), in a world
   wb whose queue directory refines ents ++ the accepted writes, whose clock is
   the last one set by the environment, whose journal has one more line per
   write event; what remains of the side conditions holds there. *)
Lemma burst_segment self rev o : benign o -> forall bs tl ents h w pause,
  tr_ok (w_tr w) = true -> QRel (h_q h) (w_fs w) ents ->
  burst_ok self rev o (bs ++ tl) ents h w ->
  let s := wsteps bs in
  let hb := set_q (BurstProofs.pushes s (h_q h)) h in
  let entsb := ents ++ BurstProofs.accepted (w_clock w) s in
  let deb := q_deb (h_q h) in
  exists wb,
    (forall post,
       daemon_loop self rev (bs ++ post) pause h o w =
       prefix_out (burst_outs deb bs (w_clock w) ents pause)
                  (daemon_loop self rev post (burst_pause deb bs (w_clock w) ents pause) hb o wb)) /\
    QRel (h_q hb) (w_fs wb) entsb /\ tr_ok (w_tr wb) = true /\
    w_clock wb = BurstProofs.clock_after (w_clock w) s /\ BurstProofs.clock_mono (w_clock w) s /\
    (forall jn, h_journal h = Some jn ->
       f_bytes (get_file (w_fs wb) (j_ino jn)) =
       f_bytes (get_file (w_fs w) (j_ino jn)) ++
       wlines (h_journal h) (c_ev_write_by_editor (h_cfg h)) (w_clock w) bs) /\
    burst_ok self rev o tl entsb hb wb.
Proof.
  intros H. induction bs as [|n r IH]; intros tl ents h w pause Hok HR Hb; cbv zeta.
  - exists w. cbn [wsteps BurstProofs.pushes BurstProofs.accepted BurstProofs.clock_after
                  BurstProofs.clock_mono burst_outs burst_pause wlines app].
    rewrite set_q_self, app_nil_r.
    split; [intros post; rewrite prefix_out_nil; reflexivity|].
    split; [exact HR|]. split; [exact Hok|]. split; [reflexivity|]. split; [exact I|].
    split; [intros jn _; rewrite app_nil_r; reflexivity | exact Hb].
  - destruct n as [|e path nc| | | | |w2]; cbn [app burst_ok] in Hb; try (destruct Hb; fail).
    + destruct Hb as (Hwe & Hwo & Hnd & Hcont).
      destruct (write_iteration self rev o w h e path nc ents H Hok HR Hwe Hwo Hnd)
        as (w2 & E & HR2 & OJ & T2 & C2).
      cbv zeta in E, HR2, OJ, C2.
      set (ents' := ents ++ [(path, 0%N, w_clock w)]) in *.
      set (h1 := set_q (pushed path (h_q h)) h) in *.
      specialize (Hcont _ _ _ _ E).
      destruct (IH tl ents' h1 w2 (pause_of (w_clock w) (q_deb (h_q h)) ents') T2 HR2 Hcont)
        as (wb & EL & HRb & Tb & Cb & Mb & Jb & Hbt).
      cbv zeta in EL, HRb, Cb, Mb, Jb, Hbt.
      change (h_q h1) with (pushed path (h_q h)) in EL, HRb, Hbt.
      change (q_deb (pushed path (h_q h))) with (q_deb (h_q h)) in EL.
      unfold h1 in EL, HRb, Hbt. rewrite BurstProofs.set_q_set_q in EL, HRb, Hbt. fold h1 in EL, HRb, Hbt.
      rewrite C2 in EL, HRb, Cb, Mb, Jb, Hbt.
      exists wb.
      cbn [wsteps BurstProofs.pushes BurstProofs.accepted BurstProofs.clock_after
           BurstProofs.clock_mono burst_outs burst_pause wlines].
      fold ents'.
      split.
      { intros post. cbn [app]. rewrite (daemon_loop_cons self rev (NEvent e path nc) (r ++ post) pause h o w eq_refl), E, EL.
        destruct (daemon_loop self rev post _ _ o wb) as [[[outs2 h2]|] w3]; reflexivity. }
      split; [unfold ents' in HRb; rewrite <- app_assoc in HRb; exact HRb|].
      split; [exact Tb|]. split; [exact Cb|]. split; [exact Mb|].
      split.
      { intros jn Ej. change (h_journal h1) with (h_journal h) in Jb.
        change (h_cfg h1) with (h_cfg h) in Jb.
        rewrite (Jb jn Ej). destruct OJ as (_ & _ & OJ3 & _). destruct (OJ3 jn Ej) as [OJb _].
        rewrite OJb, <- app_assoc. reflexivity. }
      unfold ents' in Hbt. rewrite <- app_assoc in Hbt. exact Hbt.
    + destruct Hb as [[[Eq Et Ec] Ej] Hb].
      destruct (IH tl ents h w2 pause Et (QRel_env _ _ _ _ HR Eq) Hb)
        as (wb & EL & HRb & Tb & Cb & Mb & Jb & Hbt).
      cbv zeta in EL, HRb, Cb, Mb, Jb, Hbt.
      exists wb.
      cbn [wsteps BurstProofs.pushes BurstProofs.accepted BurstProofs.clock_after
           BurstProofs.clock_mono burst_outs burst_pause wlines].
      split; [intros post; cbn [app]; rewrite daemon_loop_env; apply EL|].
      split; [exact HRb|]. split; [exact Tb|]. split; [exact Cb|]. split; [split; [exact Ec | exact Mb]|].
      split; [|exact Hbt].
      intros jn Ejn. rewrite (Jb jn Ejn), (Ej jn Ejn). reflexivity.
Qed.

(* the hypothesis on the times in burst_ok, read: when a write event arrives at
   [now], the OLDEST pending entry (the first write of the burst) is younger
   than the debounce -- i.e. the whole burst happens before (time of its first
   write + debounce); if nothing is pending the condition is 0 < debounce *)
Lemma not_due_snoc now deb ents p :
  not_due now deb (ents ++ [(p, 0%N, now)]) <->
  match ents with [] => (0 < deb)%Z | e :: _ => (now - snd e < deb)%Z end.
Proof.
  destruct ents as [|[[p1 m1] t1] ents]; cbn [app not_due snd]; [|tauto].
  split; intros A; lia.
Qed.

(* ====================================================================== *)
(* 4. the burst through the real loop, then the wake-up                    *)
(* ====================================================================== *)

Lemma qpath_qent_of es : map qpath (map qent_of es) = map e_path es.
Proof. rewrite map_map. reflexivity. Qed.

(* a path whose last write is younger than the debounce is still queued, with
   that time, in the part of the queue the pass leaves *)
Lemma young_still_queued now deb q p t :
  last_time p q = Some t -> (now - t < deb)%Z ->
  last_time p (BurstProofs.rest_part now deb q) = Some t.
Proof.
  intros El Hy. rewrite (BurstProofs.due_rest_split now deb q), BurstProofs.last_time_app2 in El.
  destruct (last_time p (BurstProofs.rest_part now deb q)) as [t'|] eqn:Er; [exact El|].
  exfalso. destruct (BurstProofs.last_time_in _ _ _ El) as (e & Hin & _ & <-).
  pose proof (BurstProofs.due_part_due now deb q) as Hd. rewrite Forall_forall in Hd.
  specialize (Hd e Hin). unfold BurstProofs.due_at in Hd. lia.
Qed.

Lemma pid_mem_h_step h pid path oi :
  is_editor h path = true -> pid_mem pid (h_pids (h_step h pid path oi)) = true.
Proof.
  unfold is_editor, h_step. intros ->. cbn [h_pids].
  destruct (pid_mem pid (h_pids h)) eqn:E; [exact E|].
  unfold pid_mem. cbn [existsb]. rewrite N.eqb_refl. reflexivity.
Qed.

(* THE THEOREM.  The loop of main.c, started at the loop head with an empty
   queue, is given: the exec event [ex] of a configured editor [xpath] by the
   process P; the burst [bs] (write events and changes of the environment,
   under burst_ok: every intermediate pass finds nothing due); the environment
   moving to the world wT (clock T); a wake-up.  [es]: the winners of the queue
   at T with what the file system OF wT holds for them (PassProofs.all_ok).  Then
   the run does not exit, and

   (outs)    it emits exactly: poll, read, exec, close, pass; burst_outs; the
             poll of the last wait, the pass of the wake-up, and the poll of
             pause_of T deb rest -- the wait of the oldest entry left, -1
             (indefinite) if nothing is left;
   (who)     the reference queue of the burst [ents] has sorted times and splits
             into a due part and a part in which nothing is due; the stored
             paths are pairwise distinct, and a path is stored iff its LAST
             write in the burst is at least the debounce old at T -- whatever
             else was written before, in between or after;
   (stored)  pass_facts, relative to the file system of wT: the k-th winner has
             exactly one new version (inode fs_next + k) holding its content in
             wT; these are the only new files; nothing outside the queue
             directory that existed has changed, no old inode but the journal;
   (queue)   the queue refines exactly [rest]; a stored path is not queued any
             more; a path whose last write is too young is not stored and is
             still queued with the time of that write;
   (journal) the journal is the one of w0 followed by: the exec line, one line
             per write event (label c_ev_write_by_editor, stamped with the clock
             of the event), one "stored" line per version, in that order. *)
Theorem daemon_burst_then_wakeup self rev o h0 w0 ex xpath xnc bs wT pause0 es :
  benign o -> tr_ok (w_tr w0) = true -> QRel (h_q h0) (w_fs w0) [] ->
  (* the exec of a configured editor *)
  sane ex -> ev_exec ex = true -> is_editor h0 xpath = true ->
  exec_dangling h0 (w_fs w0) xpath = false ->
  journal_fits (h_journal h0) (exec_event_name h0 xpath) (w_clock w0) ->
  let P := ev_pid ex in
  let hE := h_step h0 P xpath (interp_of (w_fs w0) xpath) in
  (* the burst and the last change of the environment, along the run *)
  (forall outs z h1 w1,
     iteration self rev (NEvent ex xpath xnc) h0 o w0 = (Some (Next outs z h1), w1) ->
     burst_ok self rev o (bs ++ [NEnv wT]) [] h1 w1) ->
  let ents := BurstProofs.accepted (w_clock w0) (wsteps bs) in
  let deb := q_deb (h_q h0) in
  let T := w_clock wT in
  let due := BurstProofs.due_part T deb ents in
  let rest := BurstProofs.rest_part T deb ents in
  (* the pass of the wake-up: the winners, with what wT holds for them *)
  keys_nodup (w_fs wT) ->
  map qent_of es = BurstProofs.winners due rest ->
  all_ok (h_cfg h0) (h_cpl h0) (h_journal h0) (q_dir (h_q h0)) (w_fs wT) T es ->
  exists qf w',
    (* outs *)
    daemon_loop self rev (NEvent ex xpath xnc :: bs ++ [NEnv wT; NWake]) pause0 h0 o w0 =
      (Some (OPoll (poll_ms pause0) :: [ORead; OExec P (ev_fd ex); OClose (ev_fd ex); OTimeout] ++
             burst_outs deb bs (w_clock w0) [] (-1) ++
             [OPoll (poll_ms (burst_pause deb bs (w_clock w0) [] (-1))); OTimeout;
              OPoll (poll_ms (pause_of T deb rest)); OEnd],
             set_q qf hE), w') /\
    pid_mem P (h_pids hE) = true /\
    (rest = [] -> pause_of T deb rest = (-1)%Z) /\
    (* who *)
    times_sorted ents /\ ents = due ++ rest /\
    Forall (BurstProofs.due_at T deb) due /\ Forall (fun e => (T - snd e < deb)%Z) rest /\
    NoDup (map e_path es) /\
    (forall p, In p (map e_path es) <-> exists t, last_time p ents = Some t /\ (deb <= T - t)%Z) /\
    (* stored *)
    BurstProofs.pass_facts (h_cfg h0) (h_cpl h0) (h_journal h0) (q_dir (h_q h0)) T (w_fs wT) es (w_fs w') /\
    (* queue *)
    QRel qf (w_fs w') rest /\
    q_dir qf = q_dir (h_q h0) /\ q_deb qf = deb /\ q_len_guess qf = q_len_guess (h_q h0) /\
    (rest = [] -> qf = mkQ (q_dir (h_q h0)) 0 0 deb (q_len_guess (h_q h0)) []) /\
    (forall p, In p (map e_path es) -> occurs p rest = false) /\
    (forall p t, last_time p ents = Some t -> (T - t < deb)%Z ->
                 ~ In p (map e_path es) /\ last_time p rest = Some t) /\
    keys_nodup (w_fs w') /\ tr_ok (w_tr w') = true /\ w_clock w' = T /\
    (* journal *)
    (forall jn, h_journal h0 = Some jn ->
       f_bytes (get_file (w_fs w') (j_ino jn)) =
       f_bytes (get_file (w_fs w0) (j_ino jn)) ++
       exec_line h0 (w_clock w0) P xpath ++
       wlines (h_journal h0) (c_ev_write_by_editor (h_cfg h0)) (w_clock w0) bs ++
       jlines (h_cfg h0) (h_cpl h0) (h_journal h0) T es).
Proof.
  intros H Hok HR Hs Hx Hed Hdang Hjf P hE Hburst ents deb T due rest Hnd Hwin Hall.
  (* the exec iteration *)
  destruct (exec_iteration self rev o w0 h0 ex xpath xnc [] H Hok HR I Hs Hx Hdang Hjf)
    as (w1 & E1 & Hst & J1 & HR1 & T1 & C1).
  cbv zeta in E1, Hst, J1, HR1.
  pose proof (pid_mem_h_step h0 (ev_pid ex) xpath (interp_of (w_fs w0) xpath) Hed) as Hpid.
  subst P.
  change (h_step h0 (ev_pid ex) xpath (interp_of (w_fs w0) xpath)) with hE in E1, Hst, HR1, Hpid.
  clearbody hE.
  cbn [pause_of] in E1.
  pose proof Hst as (S1 & S2 & S3 & S4 & S5).
  specialize (Hburst _ _ _ _ E1).
  (* the burst *)
  destruct (burst_segment self rev o H bs [NEnv wT] [] hE w1 (-1)%Z T1 HR1 Hburst)
    as (wb & EL & HRb & Tb & Cb & Mb & Jb & Hbt).
  cbv zeta in EL, HRb, Cb, Mb, Jb, Hbt. cbn [app] in HRb, Hbt.
  rewrite C1 in EL, HRb, Cb, Mb, Jb, Hbt. rewrite S4 in EL, HRb, Hbt. rewrite S1, S5 in Jb.
  fold ents in HRb, Hbt. fold deb in EL.
  set (s := wsteps bs) in *.
  set (hb := set_q (BurstProofs.pushes s (h_q h0)) hE) in *.
  (* the last change of the environment *)
  cbn [burst_ok] in Hbt. destruct Hbt as [[[Eq Et Ec] Ej] _].
  assert (HRT : QRel (h_q hb) (w_fs wT) ents) by exact (QRel_env _ _ _ _ HRb Eq).
  (* the pass of the wake-up *)
  assert (Ed : q_deb (h_q hb) = deb) by apply BurstProofs.pushes_deb.
  assert (Eqd : q_dir (h_q hb) = q_dir (h_q h0)) by apply BurstProofs.pushes_dir.
  assert (Eg : q_len_guess (h_q hb) = q_len_guess (h_q h0)) by apply BurstProofs.pushes_guess.
  pose proof (BurstProofs.accepted_sorted s (w_clock w0) Mb) as Hsort. fold ents in Hsort.
  destruct (BurstProofs.handle_timeout_dup_pass o rev es due rest hb wT H Et Hnd)
    as (qf & w' & E' & D1 & D2 & D3 & PF & HR' & Hnd' & T' & _ & C').
  { unfold due, rest. rewrite <- (BurstProofs.due_rest_split T deb ents). exact HRT. }
  { rewrite Ed. apply BurstProofs.due_part_due. }
  { rewrite Ed. apply BurstProofs.rest_part_not_due. }
  { exact Hwin. }
  { change (h_cfg hb) with (h_cfg hE). change (h_cpl hb) with (h_cpl hE).
    change (h_journal hb) with (h_journal hE). rewrite S1, S3, S5, Eqd. exact Hall. }
  change (h_cfg hb) with (h_cfg hE) in PF. change (h_cpl hb) with (h_cpl hE) in PF.
  change (h_journal hb) with (h_journal hE) in PF. rewrite S1, S3, S5, Eqd in PF.
  rewrite Ed in E'. fold T in E', PF, C'.
  unfold hb in E' at 2. rewrite BurstProofs.set_q_set_q in E'.
  exists qf, w'.
  split.
  { rewrite (daemon_loop_cons self rev (NEvent ex xpath xnc) (bs ++ [NEnv wT; NWake]) pause0 h0 o w0 eq_refl).
    rewrite E1, EL. rewrite daemon_loop_env.
    rewrite (daemon_loop_cons self rev NWake [] _ hb o wT eq_refl).
    cbn [iteration]. rewrite service_run, E'. rewrite daemon_loop_nil.
    cbn [prefix_out fst snd app]. reflexivity. }
  split; [exact Hpid|].
  split; [intros ->; reflexivity|].
  split; [exact Hsort|].
  split; [apply BurstProofs.due_rest_split|].
  split; [apply BurstProofs.due_part_due|].
  split; [apply BurstProofs.rest_part_all_young; exact Hsort|].
  assert (Hwho : forall p, In p (map e_path es) <-> (occurs p due = true /\ occurs p rest = false)).
  { intros p. rewrite <- qpath_qent_of, Hwin. apply BurstProofs.winners_paths. }
  split; [rewrite <- qpath_qent_of, Hwin; apply BurstProofs.winners_nodup|].
  split.
  { intros p. rewrite <- qpath_qent_of, Hwin. apply BurstProofs.stored_iff_quiet. exact Hsort. }
  split; [exact PF|].
  split; [exact HR'|].
  split; [congruence|]. split; [congruence|]. split; [congruence|].
  split.
  { intros Er. rewrite Er in HR'. rewrite (BurstProofs.QRel_nil_q _ _ HR'). congruence. }
  split; [intros p Hin; exact (proj2 (proj1 (Hwho p) Hin))|].
  split.
  { intros p t El Hy. pose proof (young_still_queued T deb ents p t El Hy) as Er. fold rest in Er.
    split; [|exact Er]. intros Hin. apply Hwho in Hin. destruct Hin as [_ Hin].
    apply last_time_none in Hin. congruence. }
  split; [exact Hnd'|]. split; [exact T'|]. split; [exact C'|].
  intros jn Ejn.
  destruct PF as [_ _ _ _ _ PJ]. rewrite (PJ jn Ejn), (Ej jn), (Jb jn Ejn).
  2:{ change (h_journal hb) with (h_journal hE). rewrite S5. exact Ejn. }
  rewrite Ejn in J1. cbn [journal_step] in J1. destruct J1 as (J1 & _).
  rewrite J1, <- !app_assoc. reflexivity.
Qed.
Print Assumptions daemon_burst_then_wakeup.

(* ----- the same, read path by path ----- *)

Lemma all_ok_in cfg cpl oj qdir f now : forall es e,
  all_ok cfg cpl oj qdir f now es -> In e es ->
  plain_ok cfg cpl oj qdir f now (e_path e) (e_ino e) (e_bytes e).
Proof.
  induction es as [|x es IH]; intros e Hall Hin; [destruct Hin|].
  destruct Hall as (A & _ & B). destruct Hin as [<-|Hin]; [exact A | exact (IH e B Hin)].
Qed.

(* a winner carries the time of the LAST write of its path *)
Lemma winner_time due rest e :
  In e (BurstProofs.winners due rest) -> last_time (qpath e) (due ++ rest) = Some (snd e).
Proof.
  intros Hin. destruct (BurstProofs.winners_last rest due e Hin) as (a & b & -> & Ho).
  rewrite <- app_assoc. cbn [app]. rewrite BurstProofs.last_time_app2. cbn [last_time].
  apply last_time_none in Ho. rewrite Ho, str_eqb_refl. reflexivity.
Qed.

Lemma burst_outs_no_exit deb : forall bs now q z, no_exit (burst_outs deb bs now q z).
Proof.
  induction bs as [|n bs IH]; intros now q z c t Hin; [destruct Hin|].
  destruct n as [|e path nc| | | | |wx]; cbn [burst_outs] in Hin; try (destruct Hin; fail).
  - destruct Hin as [Hin|[Hin|[Hin|[Hin|[Hin|Hin]]]]]; try discriminate Hin. exact (IH _ _ _ _ _ Hin).
  - exact (IH _ _ _ _ _ Hin).
Qed.

(* THE PROPERTY, PATH BY PATH.  Under the hypotheses of
   daemon_burst_then_wakeup, whatever daemon_loop returns (r, w'): the run has
   not died and has not exited, and in the world w' it ends in, for every path
   p written in the burst (last accepted write at t):

   - T - t >= debounce: p is one of the winners (index k, entry e with
     e_path e = p, e_time e = t); at T it is the readable regular file of inode
     e_ino e with content e_bytes e (in wT); its version
     store_name cfg cpl T p did not exist in wT and is the NEW inode
     fs_next wT + k, holding exactly e_bytes e; p is not queued any more;
   - T - t < debounce: p is not among the stored paths (and every new file is
     the version of a stored path: pass_facts), and it is still queued with the
     time t.
   (NoDup (map e_path es) in the theorem: one version per path.) *)
Theorem daemon_burst_per_path self rev o h0 w0 ex xpath xnc bs wT pause0 es :
  benign o -> tr_ok (w_tr w0) = true -> QRel (h_q h0) (w_fs w0) [] ->
  sane ex -> ev_exec ex = true -> is_editor h0 xpath = true ->
  exec_dangling h0 (w_fs w0) xpath = false ->
  journal_fits (h_journal h0) (exec_event_name h0 xpath) (w_clock w0) ->
  (forall outs z h1 w1,
     iteration self rev (NEvent ex xpath xnc) h0 o w0 = (Some (Next outs z h1), w1) ->
     burst_ok self rev o (bs ++ [NEnv wT]) [] h1 w1) ->
  let ents := BurstProofs.accepted (w_clock w0) (wsteps bs) in
  let deb := q_deb (h_q h0) in
  let T := w_clock wT in
  let due := BurstProofs.due_part T deb ents in
  let rest := BurstProofs.rest_part T deb ents in
  keys_nodup (w_fs wT) ->
  map qent_of es = BurstProofs.winners due rest ->
  all_ok (h_cfg h0) (h_cpl h0) (h_journal h0) (q_dir (h_q h0)) (w_fs wT) T es ->
  forall r w',
    daemon_loop self rev (NEvent ex xpath xnc :: bs ++ [NEnv wT; NWake]) pause0 h0 o w0 = (r, w') ->
    exists outs hF,
      r = Some (outs, hF) /\ no_exit outs /\
      QRel (h_q hF) (w_fs w') rest /\
      forall p t, last_time p ents = Some t ->
        ((deb <= T - t)%Z ->
           exists k e,
             nth_error es k = Some e /\ e_path e = p /\ e_time e = t /\
             lookup (w_fs wT) p = Some (NFile (e_ino e)) /\
             get_file (w_fs wT) (e_ino e) = mkFile (e_bytes e) true /\
             lookup (w_fs wT) (store_name (h_cfg h0) (h_cpl h0) T p) = None /\
             lookup (w_fs w') (store_name (h_cfg h0) (h_cpl h0) T p) = Some (NFile (fs_next (w_fs wT) + k)) /\
             f_bytes (get_file (w_fs w') (fs_next (w_fs wT) + k)) = e_bytes e /\
             occurs p rest = false) /\
        ((T - t < deb)%Z ->
           ~ In p (map e_path es) /\ last_time p rest = Some t).
Proof.
  intros H Hok HR Hs Hx Hed Hdang Hjf Hburst ents deb T due rest Hnd Hwin Hall r w' Hrun.
  destruct (daemon_burst_then_wakeup self rev o h0 w0 ex xpath xnc bs wT pause0 es
              H Hok HR Hs Hx Hed Hdang Hjf Hburst Hnd Hwin Hall)
    as (qf & w2 & E & _ & _ & _ & Esplit & _ & _ & _ & Hwho & PF & HR' & _ & _ & _ & _ & Hgone & Hyoung & _).
  fold ents deb T due rest in E, Esplit, Hwho, PF, HR', Hgone, Hyoung.
  rewrite E in Hrun. injection Hrun as <- <-.
  eexists _, _. split; [reflexivity|].
  split.
  { intros c t Hin. cbn [In app] in Hin.
    destruct Hin as [Hin|[Hin|[Hin|[Hin|[Hin|Hin]]]]]; try discriminate Hin.
    apply in_app_or in Hin. destruct Hin as [Hin|Hin].
    - exact (burst_outs_no_exit _ _ _ _ _ _ _ Hin).
    - cbn [In] in Hin. destruct Hin as [Hin|[Hin|[Hin|[Hin|[]]]]]; discriminate Hin. }
  split; [exact HR'|].
  intros p t El. split.
  - intros Hq.
    assert (Hin : In p (map e_path es)) by (apply Hwho; exists t; auto).
    apply in_map_iff in Hin. destruct Hin as (e & Ep & Hin).
    destruct (In_nth_error _ _ Hin) as (k & Hk).
    exists k, e. split; [exact Hk|]. split; [exact Ep|].
    split.
    { assert (Hw : In (qent_of e) (BurstProofs.winners due rest)) by (rewrite <- Hwin; apply in_map; exact Hin).
      pose proof (winner_time _ _ _ Hw) as Ht. rewrite <- Esplit in Ht.
      change (qpath (qent_of e)) with (e_path e) in Ht. change (snd (qent_of e)) with (e_time e) in Ht.
      rewrite Ep, El in Ht. injection Ht as ->. reflexivity. }
    pose proof (all_ok_in _ _ _ _ _ _ _ _ Hall Hin) as HP. rewrite Ep in HP.
    split; [exact (PO_src _ _ _ _ _ _ _ _ _ HP)|]. split; [exact (PO_file _ _ _ _ _ _ _ _ _ HP)|].
    split; [exact (PO_dst_free _ _ _ _ _ _ _ _ _ HP)|].
    destruct PF as [_ _ _ PV _ _]. destruct (PV k e Hk) as [V1 V2]. rewrite Ep in V1.
    split; [exact V1|]. split; [exact V2|].
    apply Hgone. rewrite <- Ep. apply in_map. exact Hin.
  - intros Hy. exact (Hyoung p t El Hy).
Qed.
Print Assumptions daemon_burst_per_path.

(* ====================================================================== *)
(* 5. one file written k >= 1 times                                        *)
(* ====================================================================== *)

(* every write event of the burst is a write of [p] *)
Definition writes_only (p : str) (bs : list notif) : Prop :=
  forall e path nc, In (NEvent e path nc) bs -> path = p.

Lemma accepted_one_path p : forall bs now, writes_only p bs ->
  Forall (fun e => exists t', e = (p, 0%N, t')) (BurstProofs.accepted now (wsteps bs)).
Proof.
  induction bs as [|n r IH]; intros now Hw; [constructor|].
  assert (Hr : writes_only p r) by (intros e path nc Hin; apply (Hw e path nc); right; exact Hin).
  destruct n as [|e path nc| | | | |w2]; cbn [wsteps BurstProofs.accepted]; try (apply IH; exact Hr).
  constructor; [|apply IH; exact Hr].
  rewrite (Hw e path nc (or_introl eq_refl)). exists now. reflexivity.
Qed.

Lemma one_path_occurs p q : Forall (fun e => exists t', e = (p, 0%N, t')) q -> q <> [] -> occurs p q = true.
Proof.
  intros Hq Hne. destruct q as [|e q]; [congruence|]. inversion Hq as [|? ? [t' ->] _]; subst.
  cbn [occurs]. unfold qpath. cbn [fst]. rewrite str_eqb_refl. reflexivity.
Qed.

(* the queue of a one-file burst ends with the entry of the last write *)
Lemma one_path_last p t : forall q,
  Forall (fun e => exists t', e = (p, 0%N, t')) q -> last_time p q = Some t ->
  exists d, q = d ++ [(p, 0%N, t)].
Proof.
  induction q as [|e q IH]; intros Hq El; [discriminate El|].
  inversion Hq as [|? ? [t' ->] Hq']; subst. cbn [last_time] in El.
  destruct q as [|e2 q].
  - cbn [last_time] in El. unfold qpath in El. cbn [fst snd] in El. rewrite str_eqb_refl in El.
    injection El as ->. exists []. reflexivity.
  - destruct (last_time p (e2 :: q)) as [t2|] eqn:E2.
    + injection El as ->. destruct (IH Hq' eq_refl) as (d & Ed). exists ((p, 0%N, t') :: d).
      rewrite Ed. reflexivity.
    + apply last_time_none in E2. rewrite (one_path_occurs p _ Hq') in E2; [discriminate E2 | discriminate].
Qed.

Lemma winners_one_path p x : qpath x = p -> forall d,
  Forall (fun e => exists t', e = (p, 0%N, t')) d -> BurstProofs.winners (d ++ [x]) [] = [x].
Proof.
  intros Hx. induction d as [|e d IH]; intros Hd.
  - cbn [app BurstProofs.winners occurs]. reflexivity.
  - inversion Hd as [|? ? [t' ->] Hd']; subst. cbn [app BurstProofs.winners].
    assert (Eo : occurs (qpath (qpath x, 0%N, t')) ((d ++ [x]) ++ []) = true).
    { rewrite !BurstProofs.occurs_app. cbn [occurs]. unfold qpath at 1. cbn [fst].
      rewrite str_eqb_refl. cbn [orb]. rewrite orb_true_r. reflexivity. }
    rewrite Eo. exact (IH Hd').
Qed.

Lemma winners_all_superseded rest : forall due,
  Forall (fun e => occurs (qpath e) rest = true) due -> BurstProofs.winners due rest = [].
Proof.
  induction due as [|e due IH]; intros Hd; [reflexivity|].
  inversion Hd as [|? ? He Hd']; subst. cbn [BurstProofs.winners].
  rewrite BurstProofs.occurs_app, He, orb_true_r. exact (IH Hd').
Qed.

(* ONE FILE, QUIET LONG ENOUGH.  Every write event of the burst is a write of
   p; the last one was accepted at t and T - t >= debounce; at T the file is a
   readable regular file (inode i, content b: plain_ok on the file system of
   wT).  Then the wake-up stores exactly one new version of p, holding b; it is
   the only new file; the queue is empty (on disk and in memory) and the daemon
   asks for an indefinite wait. *)
Corollary daemon_one_file_burst self rev o h0 w0 ex xpath xnc bs wT pause0 p t i b :
  benign o -> tr_ok (w_tr w0) = true -> QRel (h_q h0) (w_fs w0) [] ->
  sane ex -> ev_exec ex = true -> is_editor h0 xpath = true ->
  exec_dangling h0 (w_fs w0) xpath = false ->
  journal_fits (h_journal h0) (exec_event_name h0 xpath) (w_clock w0) ->
  let P := ev_pid ex in
  let hE := h_step h0 P xpath (interp_of (w_fs w0) xpath) in
  (forall outs z h1 w1,
     iteration self rev (NEvent ex xpath xnc) h0 o w0 = (Some (Next outs z h1), w1) ->
     burst_ok self rev o (bs ++ [NEnv wT]) [] h1 w1) ->
  let ents := BurstProofs.accepted (w_clock w0) (wsteps bs) in
  let deb := q_deb (h_q h0) in
  let T := w_clock wT in
  writes_only p bs -> last_time p ents = Some t -> (deb <= T - t)%Z ->
  keys_nodup (w_fs wT) ->
  plain_ok (h_cfg h0) (h_cpl h0) (h_journal h0) (q_dir (h_q h0)) (w_fs wT) T p i b ->
  let qe := mkQ (q_dir (h_q h0)) 0 0 deb (q_len_guess (h_q h0)) [] in
  let v := store_name (h_cfg h0) (h_cpl h0) T p in
  exists w',
    daemon_loop self rev (NEvent ex xpath xnc :: bs ++ [NEnv wT; NWake]) pause0 h0 o w0 =
      (Some (OPoll (poll_ms pause0) :: [ORead; OExec P (ev_fd ex); OClose (ev_fd ex); OTimeout] ++
             burst_outs deb bs (w_clock w0) [] (-1) ++
             [OPoll (poll_ms (burst_pause deb bs (w_clock w0) [] (-1))); OTimeout;
              OPoll (poll_ms (-1)); OEnd],
             set_q qe hE), w') /\
    (* exactly one new version, with the content at T *)
    lookup (w_fs w') v = Some (NFile (fs_next (w_fs wT))) /\
    f_bytes (get_file (w_fs w') (fs_next (w_fs wT))) = b /\
    get_file (w_fs wT) i = mkFile b true /\ lookup (w_fs wT) p = Some (NFile i) /\
    fs_next (w_fs w') = S (fs_next (w_fs wT)) /\
    (forall x i', lookup (w_fs w') x = Some (NFile i') -> lookup (w_fs wT) x = None -> x = v) /\
    (forall x, lookup (w_fs wT) x <> None -> Str.under (q_dir (h_q h0)) x = false ->
               lookup (w_fs w') x = lookup (w_fs wT) x) /\
    (* nothing is pending *)
    QRel qe (w_fs w') [] /\
    keys_nodup (w_fs w') /\ tr_ok (w_tr w') = true /\ w_clock w' = T /\
    (* the journal *)
    (forall jn, h_journal h0 = Some jn ->
       f_bytes (get_file (w_fs w') (j_ino jn)) =
       f_bytes (get_file (w_fs w0) (j_ino jn)) ++
       exec_line h0 (w_clock w0) P xpath ++
       wlines (h_journal h0) (c_ev_write_by_editor (h_cfg h0)) (w_clock w0) bs ++
       jline (h_journal h0) (c_ev_stored (h_cfg h0)) (rel_of (h_cpl h0) p) T).
Proof.
  intros H Hok HR Hs Hx Hed Hdang Hjf P hE Hburst ents deb T Hwo El Hq Hnd HP qe v.
  pose proof (accepted_one_path p bs (w_clock w0) Hwo) as Hone. fold ents in Hone.
  destruct (one_path_last p t ents Hone El) as (d & Ed).
  assert (Hd : Forall (fun e => exists t', e = (p, 0%N, t')) d).
  { rewrite Ed in Hone. apply Forall_app in Hone. exact (proj1 Hone). }
  assert (Hmono : BurstProofs.clock_mono (w_clock w0) (wsteps bs) -> times_sorted ents)
    by apply BurstProofs.accepted_sorted.
  set (es := [mkE p t i b]).
  assert (Hall : all_ok (h_cfg h0) (h_cpl h0) (h_journal h0) (q_dir (h_q h0)) (w_fs wT) T es).
  { cbn [es all_ok e_path e_ino e_bytes]. split; [exact HP|]. split; [constructor | exact I]. }
  (* every entry is due: the times are sorted and the last one is due *)
  assert (Hparts : times_sorted ents ->
            BurstProofs.due_part T deb ents = ents /\ BurstProofs.rest_part T deb ents = []).
  { intros Hsort. apply BurstProofs.all_due_parts. rewrite Ed in Hsort |- *.
    apply Forall_app. split.
    - apply (BurstProofs.due_prefix_closed T deb d (p, 0%N, t) [] Hsort). exact Hq.
    - constructor; [exact Hq | constructor]. }
  (* the times are sorted (needed BEFORE the theorem can be applied, to name
     the winners): the clock never moves backwards along the burst *)
  assert (Hsort : times_sorted ents).
  { destruct (exec_iteration self rev o w0 h0 ex xpath xnc [] H Hok HR I Hs Hx Hdang Hjf)
      as (w1 & E1 & Hst & _ & HR1 & T1 & C1).
    cbv zeta in E1, HR1. specialize (Hburst _ _ _ _ E1).
    destruct (burst_segment self rev o H bs [NEnv wT] [] _ w1 (-1)%Z T1 HR1 Hburst)
      as (wb & _ & _ & _ & _ & Mb & _).
    cbv zeta in Mb. rewrite C1 in Mb. exact (Hmono Mb). }
  destruct (Hparts Hsort) as [Edue Erest].
  destruct (daemon_burst_then_wakeup self rev o h0 w0 ex xpath xnc bs wT pause0 es
              H Hok HR Hs Hx Hed Hdang Hjf Hburst Hnd) as (qf & w' & E & _ & _ & _ & _ & _ & _ & _ & _ & PF & HR' & _ & _ & _ & Eqf & _ & _ & Hnd' & T' & C' & J').
  { fold ents deb T. rewrite Edue, Erest, Ed. cbn [es map]. symmetry.
    apply (winners_one_path p (p, 0%N, t) eq_refl d Hd). }
  { exact Hall. }
  fold ents deb T in E, PF, HR', Eqf, J'. rewrite Erest in E, HR', Eqf.
  specialize (Eqf eq_refl). fold qe in Eqf. subst qf. cbn [pause_of] in E.
  exists w'. split; [exact E|].
  destruct PF as [PN PX _ PV PO _].
  destruct (PV 0%nat _ eq_refl) as [V1 V2]. cbn [e_path e_bytes] in V1, V2. rewrite Nat.add_0_r in V1, V2.
  split; [exact V1|]. split; [exact V2|].
  split; [exact (PO_file _ _ _ _ _ _ _ _ _ HP)|]. split; [exact (PO_src _ _ _ _ _ _ _ _ _ HP)|].
  split; [rewrite PN; cbn [es length]; lia|].
  split.
  { intros x i' X1 X2. destruct (PO x i' X1 X2) as (e & [<-|[]] & ->). reflexivity. }
  split; [exact PX|].
  split; [exact HR'|]. split; [exact Hnd'|]. split; [exact T'|]. split; [exact C'|].
  intros jn Ejn. rewrite (J' jn Ejn). unfold jlines. cbn [es map concat e_path]. rewrite app_nil_r. reflexivity.
Qed.
Print Assumptions daemon_one_file_burst.

(* ONE FILE, NOT QUIET YET: the last write of p is younger than the debounce
   at T.  Nothing is stored (no new file, no journal line), p is still queued
   with the time of its last write, the wait is that of the oldest entry left. *)
Corollary daemon_one_file_burst_young self rev o h0 w0 ex xpath xnc bs wT pause0 p t :
  benign o -> tr_ok (w_tr w0) = true -> QRel (h_q h0) (w_fs w0) [] ->
  sane ex -> ev_exec ex = true -> is_editor h0 xpath = true ->
  exec_dangling h0 (w_fs w0) xpath = false ->
  journal_fits (h_journal h0) (exec_event_name h0 xpath) (w_clock w0) ->
  let P := ev_pid ex in
  let hE := h_step h0 P xpath (interp_of (w_fs w0) xpath) in
  (forall outs z h1 w1,
     iteration self rev (NEvent ex xpath xnc) h0 o w0 = (Some (Next outs z h1), w1) ->
     burst_ok self rev o (bs ++ [NEnv wT]) [] h1 w1) ->
  let ents := BurstProofs.accepted (w_clock w0) (wsteps bs) in
  let deb := q_deb (h_q h0) in
  let T := w_clock wT in
  let rest := BurstProofs.rest_part T deb ents in
  writes_only p bs -> last_time p ents = Some t -> (T - t < deb)%Z ->
  keys_nodup (w_fs wT) ->
  exists qf w',
    daemon_loop self rev (NEvent ex xpath xnc :: bs ++ [NEnv wT; NWake]) pause0 h0 o w0 =
      (Some (OPoll (poll_ms pause0) :: [ORead; OExec P (ev_fd ex); OClose (ev_fd ex); OTimeout] ++
             burst_outs deb bs (w_clock w0) [] (-1) ++
             [OPoll (poll_ms (burst_pause deb bs (w_clock w0) [] (-1))); OTimeout;
              OPoll (poll_ms (pause_of T deb rest)); OEnd],
             set_q qf hE), w') /\
    (* nothing is stored *)
    fs_next (w_fs w') = fs_next (w_fs wT) /\
    (forall x i', lookup (w_fs w') x = Some (NFile i') -> lookup (w_fs wT) x <> None) /\
    (forall x, lookup (w_fs wT) x <> None -> Str.under (q_dir (h_q h0)) x = false ->
               lookup (w_fs w') x = lookup (w_fs wT) x) /\
    (* p is still pending *)
    QRel qf (w_fs w') rest /\ last_time p rest = Some t /\ (0 < pause_of T deb rest)%Z /\
    keys_nodup (w_fs w') /\ tr_ok (w_tr w') = true /\ w_clock w' = T /\
    (forall jn, h_journal h0 = Some jn ->
       f_bytes (get_file (w_fs w') (j_ino jn)) =
       f_bytes (get_file (w_fs w0) (j_ino jn)) ++
       exec_line h0 (w_clock w0) P xpath ++
       wlines (h_journal h0) (c_ev_write_by_editor (h_cfg h0)) (w_clock w0) bs).
Proof.
  intros H Hok HR Hs Hx Hed Hdang Hjf P hE Hburst ents deb T rest Hwo El Hy Hnd.
  pose proof (accepted_one_path p bs (w_clock w0) Hwo) as Hone. fold ents in Hone.
  pose proof (young_still_queued T deb ents p t El Hy) as Er. fold rest in Er.
  assert (Eo : occurs p rest = true).
  { destruct (occurs p rest) eqn:Eo; [reflexivity|]. apply last_time_none in Eo. congruence. }
  destruct (daemon_burst_then_wakeup self rev o h0 w0 ex xpath xnc bs wT pause0 []
              H Hok HR Hs Hx Hed Hdang Hjf Hburst Hnd)
    as (qf & w' & E & _ & _ & _ & _ & _ & Hyoung & _ & _ & PF & HR' & _ & _ & _ & _ & _ & _ & Hnd' & T' & C' & J').
  { fold ents deb T rest. cbn [map]. symmetry. apply winners_all_superseded.
    apply Forall_forall. intros e Hin.
    assert (Hin' : In e ents).
    { rewrite (BurstProofs.due_rest_split T deb ents). apply in_or_app. left. exact Hin. }
    rewrite Forall_forall in Hone. destruct (Hone e Hin') as [t' ->]. exact Eo. }
  { exact I. }
  fold ents deb T rest in E, PF, HR', J', Hyoung.
  exists qf, w'. split; [exact E|].
  destruct PF as [PN PX _ _ PO _]. cbn [length] in PN.
  split; [lia|].
  split.
  { intros x i' X1 X2. destruct (PO x i' X1 X2) as (e & [] & _). }
  split; [exact PX|]. split; [exact HR'|]. split; [exact Er|].
  split.
  { destruct rest as [|[[p1 m1] t1] rest']; [discriminate Eo|].
    inversion Hyoung as [|? ? Hh _]; subst. cbn [snd] in Hh. cbn [pause_of]. lia. }
  split; [exact Hnd'|]. split; [exact T'|]. split; [exact C'|].
  intros jn Ejn. rewrite (J' jn Ejn). unfold jlines. cbn [map concat]. rewrite !app_nil_r. reflexivity.
Qed.
Print Assumptions daemon_one_file_burst_young.

(* ====================================================================== *)
(* 6. a concrete burst through the loop                                    *)
(* ====================================================================== *)

(* The world of DaemonProofs.DaemonExample (= MixedHistory.MixedExample):
   editors "vim" and "ed", /h/x excluded but /h/x/i included, queue /q, store
   /st, journal /j (labels "e" exec of an editor, "W" write queued; NO label
   for stored versions), versions "v<seconds>", debounce 5 s, clock 100 s,
   transfers cut into pieces of at most 2 bytes; the daemon's pid is 1.

     100 s  pid 7 executes /b/vim                         pass: nothing pending, wait -1
     100 s  pid 7 closes /h/a after writing               pass: wait 5
     101 s  (/h/a is rewritten: "two!!")
     101 s  pid 7 closes /h/a after writing               pass: wait 4
     102 s  pid 7 closes /h/x/i after writing             pass: wait 3
     106 s  wake-up

   At 106 s the queue is a@100, a@101, i@102: a@100 and a@101 are due, i@102 is
   not.  The pass stores ONE version of /h/a (the content at 106 s: "two!!"),
   removes both entries of /h/a, leaves /h/x/i queued and asks for 1 s. *)
Module DaemonBurstExample.
  Import MixedExample.
  Import DaemonExample.
  Local Open Scope char_scope.

  Definition getV (x : option verdict * world) : handler :=
    match fst x with Some (Next _ _ h) => h | _ => hM end.
  Definition chg (t : Z) (w : world) : world :=
    mkW (set_file 4 (mkFile two true) (w_fs w)) (w_n w) (w_log w) t (w_tr w).

  Definition nx : notif := NEvent (ev_x 7) p_vim None.
  Definition na : notif := NEvent (ev_w 7) p_a None.
  Definition ni : notif := NEvent (ev_w 7) p_i None.
  Definition I1 := iteration self false nx hM o2 wM.
  Definition I2 := iteration self false na (getV I1) o2 (snd I1).
  Definition wA : world := chg 101 (snd I2).
  Definition I3 := iteration self false na (getV I2) o2 wA.
  Definition wB : world := clk 102 (snd I3).
  Definition I4 := iteration self false ni (getV I3) o2 wB.
  Definition wT : world := clk 106 (snd I4).
  Definition bs : list notif := [na; NEnv wA; na; NEnv wB; ni].
  Definition nsB : list notif := nx :: bs ++ [NEnv wT; NWake].

  Definition outs_B : list out :=
    [ OPoll 0; ORead; OExec 7 5; OClose 5; OTimeout;
      OPoll (-1000); ORead; OWrite 7 5; OClose 5; OTimeout;
      OPoll 5000; ORead; OWrite 7 5; OClose 5; OTimeout;
      OPoll 4000; ORead; OWrite 7 5; OClose 5; OTimeout;
      OPoll 3000; OTimeout;
      OPoll 1000; OEnd ].

  Definition n2 : str := ["/"; "q"; "/"; "2"].
  Definition jexpected : str :=
    old ++ journal_line ["1"; "0"; "0"] ["e"] 7 p_vim
        ++ journal_line ["1"; "0"; "0"] ["W"] 7 p_a
        ++ journal_line ["1"; "0"; "1"] ["W"] 7 p_a
        ++ journal_line ["1"; "0"; "2"] ["W"] 7 p_i.

  (* ----- direct evaluation ----- *)
  Example run_burst :
    match daemon_loop self false nsB 0%Z hM o2 wM with
    | (Some (outs, h'), w') =>
        outs = outs_B /\
        h_pids h' = [7%N] /\ q_head (h_q h') = 2%N /\ q_size (h_q h') = 1%N /\ q_bag (h_q h') = [p_i] /\
        (* one version of /h/a with the content at 106 s; nothing of /h/x/i *)
        lookup (w_fs w') v106 = Some (NFile 9) /\ get_file (w_fs w') 9 = mkFile two true /\
        fs_next (w_fs w') = 10%nat /\
        map fst (children (w_fs w') (p_st ++ ["/"; "a"])) = [v106] /\
        children (w_fs w') (p_st ++ ["/"; "x"]) = [] /\
        (* the queue directory: only the entry of /h/x/i is left *)
        lookup (w_fs w') n0 = None /\ lookup (w_fs w') n1 = None /\
        lookup (w_fs w') n2 = Some (NLink p_i 102%Z) /\
        f_bytes (get_file (w_fs w') 1) = jexpected /\
        okw w' = true /\ w_clock w' = 106%Z
    | _ => False
    end.
  Proof. vm_compute. repeat split; reflexivity. Qed.

  (* ----- the hypotheses of daemon_burst_then_wakeup hold ----- *)

  Lemma next_inv (x : option verdict * world) outs z h1 w1 :
    x = (Some (Next outs z h1), w1) -> h1 = getV x /\ w1 = snd x.
  Proof. intros ->. split; reflexivity. Qed.

  Lemma write_ok_by_check (h : handler) now pid p :
    h_cfg h = cfgM -> h_cpl h = 3%nat -> h_pids h = [7%N] -> h_cfg_path h = Some p_c ->
    h_journal h = Some jM -> q_len_guess (h_q h) = 16%nat ->
    push_decision rulesM 3 (pid_mem pid [7%N]) p = (true, false, None) ->
    p <> p_c -> Nat.leb (length (ts_of jM now)) 255 = true -> normalb p = true ->
    Nat.leb (length (encode 0 p)) 16 = true ->
    BurstProofs.write_ok h now pid p.
  Proof.
    intros Ec El Ep Ecp Ej Eg Hd Hne Hts Hn Hf. constructor.
    - rewrite Ec, El, Ep. exact Hd.
    - rewrite Ecp. intros X. injection X as X. congruence.
    - apply jfits_at; assumption.
    - apply normalb_spec. exact Hn.
    - apply fits_by_check; assumption.
  Qed.

  Ltac wok := apply write_ok_by_check;
    [vm_compute; reflexivity | vm_compute; reflexivity | vm_compute; reflexivity
    | vm_compute; reflexivity | vm_compute; reflexivity | vm_compute; reflexivity
    | vm_compute; reflexivity
    | (let E := fresh in intros E; vm_compute in E; discriminate E)
    | vm_compute; reflexivity | vm_compute; reflexivity | vm_compute; reflexivity].

  Ltac wev := split; [split; reflexivity|]; split; [reflexivity|]; split; [reflexivity|];
              (let E := fresh in intros E; vm_compute in E; discriminate E).

  Ltac jkept := let jn := fresh "jn" in let E := fresh "E" in
                intros jn E; vm_compute in E; injection E as <-; vm_compute; reflexivity.

  Lemma chg_untouched q t w : queue_untouched q (w_fs w) (w_fs (chg t w)).
  Proof. split; intros; apply lookup_set_file. Qed.
  Lemma clk_untouched q t w : queue_untouched q (w_fs w) (w_fs (clk t w)).
  Proof. split; reflexivity. Qed.

  Lemma burst_is_ok : forall outs z h1 w1,
    iteration self false nx hM o2 wM = (Some (Next outs z h1), w1) ->
    burst_ok self false o2 (bs ++ [NEnv wT]) [] h1 w1.
  Proof.
    intros outs z h1 w1 X.
    assert (Y : I1 = (Some (Next outs z h1), w1)) by (unfold I1; exact X).
    destruct (next_inv I1 _ _ _ _ Y) as [-> ->]. clear X Y.
    unfold bs. cbn [app].
    (* write /h/a at 100 s *)
    unfold na at 1. cbn [burst_ok].
    split; [wev|]. split; [wok|]. split; [vm_compute; reflexivity|].
    intros outs2 z2 h2 w2 X.
    assert (Y : I2 = (Some (Next outs2 z2 h2), w2)) by (unfold I2, na; exact X).
    destruct (next_inv I2 _ _ _ _ Y) as [-> ->]. clear X Y.
    (* /h/a rewritten, 101 s *)
    cbn [burst_ok]. split.
    { split; [|jkept].
      constructor; [apply chg_untouched | vm_compute; reflexivity | vm_compute; discriminate]. }
    (* write /h/a at 101 s *)
    unfold na at 1. cbn [burst_ok].
    split; [wev|]. split; [wok|]. split; [vm_compute; reflexivity|].
    intros outs3 z3 h3 w3 X.
    assert (Y : I3 = (Some (Next outs3 z3 h3), w3)) by (unfold I3, na; exact X).
    destruct (next_inv I3 _ _ _ _ Y) as [-> ->]. clear X Y.
    (* 102 s *)
    cbn [burst_ok]. split.
    { split; [|jkept].
      constructor; [apply clk_untouched | vm_compute; reflexivity | vm_compute; discriminate]. }
    (* write /h/x/i at 102 s *)
    unfold ni at 1. cbn [burst_ok].
    split; [wev|]. split; [wok|]. split; [vm_compute; reflexivity|].
    intros outs4 z4 h4 w4 X.
    assert (Y : I4 = (Some (Next outs4 z4 h4), w4)) by (unfold I4, ni; exact X).
    destruct (next_inv I4 _ _ _ _ Y) as [-> ->]. clear X Y.
    (* 106 s *)
    cbn [burst_ok]. split; [|exact I].
    split; [|jkept].
    constructor; [apply clk_untouched | vm_compute; reflexivity | vm_compute; discriminate].
  Qed.

  Lemma wT_nodup : keys_nodup (w_fs wT).
  Proof.
    unfold keys_nodup. vm_compute.
    repeat (constructor; [let Hin := fresh in intros Hin; cbn [In] in Hin;
                          repeat (destruct Hin as [Hin|Hin]; [discriminate Hin|]); exact Hin|]).
    constructor.
  Qed.

  (* the winner at 106 s with what the file system of wT holds for it *)
  Definition esB : list entry := [mkE p_a 101 4 two].

  Lemma ents_eq : BurstProofs.accepted (w_clock wM) (wsteps bs) =
                  [(p_a, 0%N, 100%Z); (p_a, 0%N, 101%Z); (p_i, 0%N, 102%Z)].
  Proof. vm_compute. reflexivity. Qed.

  Lemma parts_eq :
    BurstProofs.due_part 106 5 [(p_a, 0%N, 100%Z); (p_a, 0%N, 101%Z); (p_i, 0%N, 102%Z)] =
      [(p_a, 0%N, 100%Z); (p_a, 0%N, 101%Z)] /\
    BurstProofs.rest_part 106 5 [(p_a, 0%N, 100%Z); (p_a, 0%N, 101%Z); (p_i, 0%N, 102%Z)] =
      [(p_i, 0%N, 102%Z)].
  Proof. vm_compute. split; reflexivity. Qed.

  Example hyps_hold :
    benign o2 /\ tr_ok (w_tr wM) = true /\ QRel (h_q hM) (w_fs wM) [] /\
    sane (ev_x 7) /\ ev_exec (ev_x 7) = true /\ is_editor hM p_vim = true /\
    exec_dangling hM (w_fs wM) p_vim = false /\
    journal_fits (h_journal hM) (exec_event_name hM p_vim) (w_clock wM) /\
    (forall outs z h1 w1,
       iteration self false nx hM o2 wM = (Some (Next outs z h1), w1) ->
       burst_ok self false o2 (bs ++ [NEnv wT]) [] h1 w1) /\
    keys_nodup (w_fs wT) /\
    map qent_of esB =
      BurstProofs.winners
        (BurstProofs.due_part (w_clock wT) (q_deb (h_q hM)) (BurstProofs.accepted (w_clock wM) (wsteps bs)))
        (BurstProofs.rest_part (w_clock wT) (q_deb (h_q hM)) (BurstProofs.accepted (w_clock wM) (wsteps bs))) /\
    all_ok (h_cfg hM) (h_cpl hM) (h_journal hM) (q_dir (h_q hM)) (w_fs wT) (w_clock wT) esB.
  Proof.
    split; [exact o2_benign|]. split; [reflexivity|]. split; [exact qM_rel|].
    split; [split; reflexivity|]. split; [reflexivity|]. split; [vm_compute; reflexivity|].
    split; [vm_compute; reflexivity|].
    split; [apply jfits_at; vm_compute; reflexivity|].
    split; [exact burst_is_ok|]. split; [exact wT_nodup|].
    split; [vm_compute; reflexivity|].
    unfold esB. cbn [all_ok e_path e_ino e_bytes].
    split; [apply plain_okb_sound; vm_compute; reflexivity|]. split; [constructor | exact I].
  Qed.

  (* ----- the same by the theorem ----- *)
  Example burst_by_theorem :
    exists qf w',
      daemon_loop self false nsB 0%Z hM o2 wM =
        (Some (outs_B, set_q qf (h_step hM 7 p_vim (interp_of (w_fs wM) p_vim))), w') /\
      (* the version of /h/a, its content at 106 s; the only new file *)
      lookup (w_fs w') v106 = Some (NFile 9) /\ f_bytes (get_file (w_fs w') 9) = two /\
      fs_next (w_fs w') = 10%nat /\
      (forall x i', lookup (w_fs w') x = Some (NFile i') -> lookup (w_fs wT) x = None -> x = v106) /\
      (* /h/a is stored because its LAST write (101 s) is 5 s old; /h/x/i (102 s) is not *)
      (exists t, last_time p_a [(p_a, 0%N, 100%Z); (p_a, 0%N, 101%Z); (p_i, 0%N, 102%Z)] = Some t /\ (5 <= 106 - t)%Z) /\
      (* /h/x/i is still queued *)
      QRel qf (w_fs w') [(p_i, 0%N, 102%Z)] /\
      tr_ok (w_tr w') = true /\ w_clock w' = 106%Z /\
      (* the journal: the exec, the three writes; no label for stored versions *)
      f_bytes (get_file (w_fs w') 1) = jexpected.
  Proof.
    destruct hyps_hold as (A1 & A2 & A3 & A4 & A5 & A6 & A7 & A8 & A9 & A10 & A11 & A12).
    destruct (daemon_burst_then_wakeup self false o2 hM wM (ev_x 7) p_vim None bs wT 0%Z esB
                A1 A2 A3 A4 A5 A6 A7 A8 A9 A10 A11 A12)
      as (qf & w' & E & _ & _ & _ & _ & _ & _ & _ & Hwho & PF & HR' & _ & _ & _ & _ & _ & _ & _ & T' & C' & J').
    assert (ET : w_clock wT = 106%Z) by (vm_compute; reflexivity).
    rewrite ET in *. rewrite ents_eq in *. change (q_deb (h_q hM)) with 5%Z in *.
    destruct parts_eq as [Ed Er]. rewrite Er in HR', E.
    exists qf, w'. split.
    { match type of E with _ = (Some (?big, _), _) =>
        assert (Eb : big = outs_B) by (vm_compute; reflexivity); rewrite Eb in E end.
      exact E. }
    destruct PF as [PN _ _ PV PO _].
    assert (Nx : fs_next (w_fs wT) = 9%nat) by (vm_compute; reflexivity).
    destruct (PV 0%nat _ eq_refl) as [V1 V2]. rewrite Nx in V1, V2, PN.
    assert (Na : store_name (h_cfg hM) (h_cpl hM) 106 p_a = v106) by (vm_compute; reflexivity).
    cbn [e_path e_bytes esB] in V1, V2. rewrite Na in V1.
    split; [exact V1|]. split; [exact V2|]. split; [exact PN|].
    split.
    { intros x i' X1 X2. destruct (PO x i' X1 X2) as (e & [<-|[]] & ->). exact Na. }
    split; [apply Hwho; left; reflexivity|].
    split; [exact HR'|]. split; [exact T'|]. split; [exact C'|].
    pose proof (J' jM eq_refl) as Jx. change (j_ino jM) with 1%nat in Jx. rewrite Jx.
    vm_compute. reflexivity.
  Qed.

  (* ----- path by path, by daemon_burst_per_path ----- *)
  Example per_path_by_theorem :
    match daemon_loop self false nsB 0%Z hM o2 wM with
    | (Some (outs, hF), w') =>
        no_exit outs /\
        (* /h/a: last write at 101 s, 5 s old at 106 s: one version, the content at 106 s *)
        lookup (w_fs wT) p_a = Some (NFile 4) /\ get_file (w_fs wT) 4 = mkFile two true /\
        lookup (w_fs wT) v106 = None /\
        lookup (w_fs w') v106 = Some (NFile 9) /\ f_bytes (get_file (w_fs w') 9) = two /\
        occurs p_a [(p_i, 0%N, 102%Z)] = false /\
        (* /h/x/i: last write at 102 s, 4 s old: not stored, still queued *)
        ~ In p_i (map e_path esB) /\ last_time p_i [(p_i, 0%N, 102%Z)] = Some 102%Z /\
        QRel (h_q hF) (w_fs w') [(p_i, 0%N, 102%Z)]
    | _ => False
    end.
  Proof.
    destruct hyps_hold as (A1 & A2 & A3 & A4 & A5 & A6 & A7 & A8 & A9 & A10 & A11 & A12).
    destruct (daemon_loop self false nsB 0%Z hM o2 wM) as [r w'] eqn:E.
    destruct (daemon_burst_per_path self false o2 hM wM (ev_x 7) p_vim None bs wT 0%Z esB
                A1 A2 A3 A4 A5 A6 A7 A8 A9 A10 A11 A12 r w' E) as (outs & hF & -> & Hne & HR' & Hp).
    assert (ET : w_clock wT = 106%Z) by (vm_compute; reflexivity).
    rewrite ET in *. rewrite ents_eq in *. change (q_deb (h_q hM)) with 5%Z in *.
    destruct parts_eq as [_ Er]. rewrite Er in *.
    split; [exact Hne|].
    destruct (Hp p_a 101%Z) as [Ha _]; [vm_compute; reflexivity|].
    destruct Ha as (k & e & Hk & Ep & Et & L1 & L2 & L3 & V1 & V2 & Og); [vm_compute; discriminate|].
    destruct k as [|k]; [|destruct k; discriminate Hk]. injection Hk as <-.
    assert (Nx : fs_next (w_fs wT) = 9%nat) by (vm_compute; reflexivity).
    assert (Na : store_name (h_cfg hM) (h_cpl hM) 106 p_a = v106) by (vm_compute; reflexivity).
    cbn [e_ino e_bytes] in L1, L2, V2. rewrite Nx in V1, V2. rewrite Na in L3, V1.
    split; [exact L1|]. split; [exact L2|]. split; [exact L3|]. split; [exact V1|]. split; [exact V2|].
    split; [exact Og|].
    destruct (Hp p_i 102%Z) as [_ Hi]; [vm_compute; reflexivity|].
    destruct Hi as [N1 N2]; [vm_compute; reflexivity|].
    split; [exact N1|]. split; [exact N2 | exact HR'].
  Qed.

  (* ----- one file: /h/a written twice, wake-up at 106 s -----
     100 s exec; 100 s write /h/a; 101 s rewritten, write /h/a; 106 s wake-up:
     daemon_one_file_burst gives the single version and the indefinite wait *)
  Definition wT1 : world := clk 106 (snd I3).
  Definition bs1 : list notif := [na; NEnv wA; na].
  Definition nsB1 : list notif := nx :: bs1 ++ [NEnv wT1; NWake].

  Lemma burst1_is_ok : forall outs z h1 w1,
    iteration self false nx hM o2 wM = (Some (Next outs z h1), w1) ->
    burst_ok self false o2 (bs1 ++ [NEnv wT1]) [] h1 w1.
  Proof.
    intros outs z h1 w1 X.
    assert (Y : I1 = (Some (Next outs z h1), w1)) by (unfold I1; exact X).
    destruct (next_inv I1 _ _ _ _ Y) as [-> ->]. clear X Y.
    unfold bs1. cbn [app].
    unfold na at 1. cbn [burst_ok].
    split; [wev|]. split; [wok|]. split; [vm_compute; reflexivity|].
    intros outs2 z2 h2 w2 X.
    assert (Y : I2 = (Some (Next outs2 z2 h2), w2)) by (unfold I2, na; exact X).
    destruct (next_inv I2 _ _ _ _ Y) as [-> ->]. clear X Y.
    cbn [burst_ok]. split.
    { split; [|jkept].
      constructor; [apply chg_untouched | vm_compute; reflexivity | vm_compute; discriminate]. }
    unfold na at 1. cbn [burst_ok].
    split; [wev|]. split; [wok|]. split; [vm_compute; reflexivity|].
    intros outs3 z3 h3 w3 X.
    assert (Y : I3 = (Some (Next outs3 z3 h3), w3)) by (unfold I3, na; exact X).
    destruct (next_inv I3 _ _ _ _ Y) as [-> ->]. clear X Y.
    cbn [burst_ok]. split; [|exact I].
    split; [|jkept].
    constructor; [apply clk_untouched | vm_compute; reflexivity | vm_compute; discriminate].
  Qed.

  Lemma wT1_nodup : keys_nodup (w_fs wT1).
  Proof.
    unfold keys_nodup. vm_compute.
    repeat (constructor; [let Hin := fresh in intros Hin; cbn [In] in Hin;
                          repeat (destruct Hin as [Hin|Hin]; [discriminate Hin|]); exact Hin|]).
    constructor.
  Qed.

  Example one_file_by_theorem :
    exists w' outs,
      daemon_loop self false nsB1 0%Z hM o2 wM =
        (Some (outs, set_q q0 (h_step hM 7 p_vim (interp_of (w_fs wM) p_vim))), w') /\
      outs = [ OPoll 0; ORead; OExec 7 5; OClose 5; OTimeout;
               OPoll (-1000); ORead; OWrite 7 5; OClose 5; OTimeout;
               OPoll 5000; ORead; OWrite 7 5; OClose 5; OTimeout;
               OPoll 4000; OTimeout;
               OPoll (-1000); OEnd ] /\
      lookup (w_fs w') v106 = Some (NFile 9) /\ f_bytes (get_file (w_fs w') 9) = two /\
      fs_next (w_fs w') = 10%nat /\
      (forall x i', lookup (w_fs w') x = Some (NFile i') -> lookup (w_fs wT1) x = None -> x = v106) /\
      QRel q0 (w_fs w') [].
  Proof.
    destruct hyps_hold as (A1 & A2 & A3 & A4 & A5 & A6 & A7 & A8 & _).
    destruct (daemon_one_file_burst self false o2 hM wM (ev_x 7) p_vim None bs1 wT1 0%Z p_a 101%Z 4%nat two
                A1 A2 A3 A4 A5 A6 A7 A8 burst1_is_ok)
      as (w' & E & V1 & V2 & _ & _ & PN & PO & _ & HR' & _).
    - intros e path nc [X|[X|[X|[]]]]; try discriminate X; injection X as _ <- _; reflexivity.
    - vm_compute. reflexivity.
    - vm_compute. discriminate.
    - exact wT1_nodup.
    - apply plain_okb_sound. vm_compute. reflexivity.
    - assert (ET : w_clock wT1 = 106%Z) by (vm_compute; reflexivity).
      assert (Nx : fs_next (w_fs wT1) = 9%nat) by (vm_compute; reflexivity).
      assert (Na : store_name (h_cfg hM) (h_cpl hM) 106 p_a = v106) by (vm_compute; reflexivity).
      rewrite ET, ?Nx, ?Na in *.
      eexists w', _. split; [exact E|].
      split; [vm_compute; reflexivity|].
      split; [exact V1|]. split; [exact V2|]. split; [exact PN|]. split; [exact PO | exact HR'].
  Qed.
End DaemonBurstExample.

Print Assumptions handle_timeout_waits.
Print Assumptions exec_iteration.
Print Assumptions write_iteration.
Print Assumptions burst_segment.
Print Assumptions DaemonBurstExample.run_burst.
Print Assumptions DaemonBurstExample.hyps_hold.
Print Assumptions DaemonBurstExample.burst_by_theorem.
Print Assumptions DaemonBurstExample.per_path_by_theorem.
Print Assumptions DaemonBurstExample.one_file_by_theorem.
