(* C20 Steady-state resource use does not grow with the number of events --
   descriptor part, for the WHOLE PROGRAM (WholeResources.v): Daemon.daemon_loop
   = the event loop of main.c over the real handler programs, Klunok.klunok =
   start-up, the real load_handler, the loop.  EVERY oracle (failing calls,
   short transfers).
     fd_count w     descriptors acquired minus released according to the call
                    log (FdProofs: an open that returned a descriptor +1, every
                    close -1);
     held h         what a loaded handler owns: the queue directory and, iff a
                    journal is configured, the journal (2 or 1);
     jcount cfg     1 iff a journal is configured;
     envs_keep_fd   the NEnv steps (the environment replaces the world while
                    the daemon sleeps) keep the descriptor table: each NEnv
                    world has the count of the world it replaces;
     envs_fd c ns   the static form: every NEnv world of ns has count c;
     no_cfg_event   no notification is a write of the configuration file.
   Memory is not expressible in the model (objects are values); it is measured
   on the implementation by the check. *)
From K Require Import Str Dec Trace Fs World Progs Handler FdProofs ReloadProofs ReloadHistory
     Main MainProofs Daemon DaemonProofs Klunok KlunokProofs WholeResources.
From Coq Require Import ZArith.
Local Open Scope Z_scope.

(* ANY number of notifications of any kind (events, wake-ups, rewrites of the
   configuration file with their reloads, poll / read failures): whatever the
   loop returns, the descriptors open outside the handler are those of the
   start -- (a) when no error is pending at the end, (b) when the daemon did not
   stop with the message of a write event; in any case at most ONE more: the two
   daemon-stopping error paths of FdProofs (a failed load_linq / the new journal
   cannot be opened, both inside the reload of a write of the configuration
   file: FdExample.load_linq_leak, FdExample.reload_leak; main.c then exits).
   (d) without a write of the configuration file the count itself is constant. *)
Theorem C20_daemon_descriptors_constant :
  forall (self : N) (rev : bool) (o : oracle) (ns : list notif) (pause : Z) (h : handler) (w : world)
         (outs : list out) (h' : handler) (w' : world),
  envs_keep_fd self rev o ns h w ->
  daemon_loop self rev ns pause h o w = (Some (outs, h'), w') ->
  (okw w' = true -> fd_count w' - held h' = fd_count w - held h) /\
  (~ In (OExit 1 (Some T_write)) outs -> fd_count w' - held h' = fd_count w - held h) /\
  0 <= (fd_count w' - held h') - (fd_count w - held h) <= 1 /\
  (no_cfg_event (h_cfg_path h) ns ->
   fd_count w' = fd_count w /\ h_journal h' = h_journal h /\ h_cfg_path h' = h_cfg_path h).
Proof. exact daemon_descriptors_constant. Qed.
Print Assumptions C20_daemon_descriptors_constant.

(* without a write of the configuration file: the count is that of the start
   (2 held with a journal, 1 without) whether the daemon stops or not, with no
   exception; releasing the handler gives everything back *)
Theorem C20_daemon_descriptors_constant_plain :
  forall (self : N) (rev : bool) (o : oracle) (ns : list notif) (pause : Z) (h : handler) (w : world)
         (outs : list out) (h' : handler) (w' : world),
  no_cfg_event (h_cfg_path h) ns -> envs_fd (fd_count w) ns ->
  daemon_loop self rev ns pause h o w = (Some (outs, h'), w') ->
  fd_count w' = fd_count w /\ h_journal h' = h_journal h /\ held h' = held h /\
  forall o2 r w2, free_handler h' o2 w' = (Some r, w2) -> fd_count w2 = fd_count w - held h.
Proof. exact daemon_descriptors_constant_plain. Qed.
Print Assumptions C20_daemon_descriptors_constant_plain.

(* at the loop head reached after any number of notifications *)
Theorem C20_daemon_heads_descriptors :
  forall (self : N) (rev : bool) (o : oracle) (ns : list notif) (pause : Z) (h : handler) (w : world)
         (z : Z) (hp : handler) (wp : world),
  envs_keep_fd self rev o ns h w ->
  daemon_state self rev o ns pause h w = Some (z, hp, wp) ->
  fd_count wp - held hp = fd_count w - held h /\
  (no_cfg_event (h_cfg_path h) ns ->
   fd_count wp = fd_count w /\ h_journal hp = h_journal h /\ h_cfg_path hp = h_cfg_path h).
Proof. exact daemon_heads_descriptors. Qed.
Print Assumptions C20_daemon_heads_descriptors.

(* the whole program: start-up fails -> the world is untouched; load_handler
   fails -> at most one descriptor left (main.c exits); otherwise load_handler
   acquired exactly held h = 1 + jcount cfg, at EVERY loop head the descriptors
   outside the handler are those of the initial world, at the end too (at most
   one more on the failed-reload path), and free_handler returns to the count
   of the initial world *)
Theorem C20_klunok_descriptors :
  forall (env : Main.env) (cfg : config) (rev : bool) (ns : list notif) (o : oracle) (w : world)
         (outs : list out) (w' : world),
  klunok env cfg rev ns o w = (Some outs, w') ->
  (snd (startup env) = None /\ w' = w) \/
  exists pre cfgp cpl u g k,
    startup env = (pre, Some (cfgp, cpl, u, g, k)) /\
    ((load_handler cfg cfgp cpl o w = (Some None, w') /\
      outs = pre ++ [OLoad cfgp cpl u g k; OExit 1 (Some T_load)] /\
      fd_count w <= fd_count w' <= fd_count w + 1)
     \/
     exists h w1 outs2 h',
       load_handler cfg cfgp cpl o w = (Some (Some h), w1) /\
       daemon_loop (e_self env) rev ns 0 h o w1 = (Some (outs2, h'), w') /\
       outs = pre ++ OLoad cfgp cpl u g k :: outs2 /\
       h_cfg_path h = cfgp /\
       held h = 1 + jcount cfg /\ fd_count w1 = fd_count w + 1 + jcount cfg /\
       (envs_keep_fd (e_self env) rev o ns h w1 ->
        (forall pre_ns post z hp wp, ns = pre_ns ++ post ->
           daemon_state (e_self env) rev o pre_ns 0 h w1 = Some (z, hp, wp) ->
           fd_count wp - held hp = fd_count w) /\
        (okw w' = true -> fd_count w' - held h' = fd_count w) /\
        (~ In (OExit 1 (Some T_write)) outs -> fd_count w' - held h' = fd_count w) /\
        fd_count w <= fd_count w' - held h' <= fd_count w + 1 /\
        forall o2 r w2, free_handler h' o2 w' = (Some r, w2) ->
          (okw w' = true \/ ~ In (OExit 1 (Some T_write)) outs -> fd_count w2 = fd_count w) /\
          fd_count w <= fd_count w2 <= fd_count w + 1)).
Proof. exact klunok_descriptors. Qed.
Print Assumptions C20_klunok_descriptors.

(* the count itself, without a write of the configuration file: after start-up
   and load, at every loop head and at the end the count is what load_handler
   left: that of the initial world + 2 with a journal configured (+ 1 without);
   a run followed by free_handler returns to the count of the initial world *)
Theorem C20_klunok_descriptors_plain :
  forall (env : Main.env) (cfg : config) (rev : bool) (ns : list notif) (o : oracle) (w : world)
         (outs : list out) (w' : world) pre cfgp cpl u g k,
  klunok env cfg rev ns o w = (Some outs, w') ->
  startup env = (pre, Some (cfgp, cpl, u, g, k)) ->
  no_cfg_event cfgp ns -> envs_fd (fd_count w + 1 + jcount cfg) ns ->
  (load_handler cfg cfgp cpl o w = (Some None, w') /\ fd_count w <= fd_count w' <= fd_count w + 1)
  \/
  exists h w1 outs2 h',
    load_handler cfg cfgp cpl o w = (Some (Some h), w1) /\
    daemon_loop (e_self env) rev ns 0 h o w1 = (Some (outs2, h'), w') /\
    outs = pre ++ OLoad cfgp cpl u g k :: outs2 /\
    fd_count w1 = fd_count w + 1 + jcount cfg /\
    (forall pre_ns post z hp wp, ns = pre_ns ++ post ->
       daemon_state (e_self env) rev o pre_ns 0 h w1 = Some (z, hp, wp) ->
       fd_count wp = fd_count w + 1 + jcount cfg /\ held hp = 1 + jcount cfg) /\
    fd_count w' = fd_count w + 1 + jcount cfg /\ held h' = 1 + jcount cfg /\
    forall o2 r w2, free_handler h' o2 w' = (Some r, w2) -> fd_count w2 = fd_count w.
Proof. exact klunok_descriptors_plain. Qed.
Print Assumptions C20_klunok_descriptors_plain.

(* non-vacuity: DaemonExample's run (six notifications); a run WITH a reload
   (the handler goes from 1 to 2 descriptors, nothing outside it); the +1 of the
   failed reload attained in the loop; KlunokExample's whole run *)
Example C20_daemon_hyps_hold := WholeExample.daemon_hyps_hold.
Example C20_daemon_instance := WholeExample.daemon_descriptors_by_theorem.
Example C20_daemon_reload_instance := WholeExample.daemon_reload_ok.
Example C20_daemon_reload_leak := WholeExample.daemon_reload_leak.
Example C20_klunok_instance := WholeExample.klunok_descriptors_by_theorem.
