(* C05, second half: an abandoned copy leaves nothing behind.

   sync_file (Progs.v) creates the missing ancestors of the destination, then
   opens the source.  If the source is missing, unreadable or not a regular
   file, it records the condition in the error trace, removes what it created
   and calls clean_up.  Under every benign oracle (SyncProofs.benign) the file
   system afterwards has no new entry, no file or link is touched, and the only
   directories that can disappear are ancestors of the destination all of
   whose entries lie on the destination chain and disappear as well. *)
From K Require Import Str Dec Trace Fs World Progs SyncProofs.

(* ---------- well-formedness of the file system ---------- *)

(* dentry keys are unique *)
Definition keys_nodup (f : fs) : Prop := NoDup (map fst (fs_dents f)).

(* every entry lives in a directory that exists *)
Definition parents_exist (f : fs) : Prop :=
  forall p, lookup f p <> None -> lookup f (dirname p) = Some NDir.

(* a checker for [parents_exist] *)
Definition parents_exist_b (f : fs) : bool :=
  forallb (fun e => match lookup f (dirname (fst e)) with Some NDir => true | _ => false end)
          (fs_dents f).

(* ---------- association lists ---------- *)

Lemma alookup_in {A} k (v : A) l : alookup k l = Some v -> In (k, v) l.
Proof.
  induction l as [|[k' v'] l IH]; simpl; intros E; [discriminate|].
  destruct (str_eqb_spec k k') as [->|Hn].
  - injection E as ->. left. reflexivity.
  - right. apply IH. exact E.
Qed.

Lemma in_alookup {A} k (v : A) l : In (k, v) l -> alookup k l <> None.
Proof.
  induction l as [|[k' v'] l IH]; simpl; intros Hin; [destruct Hin|].
  destruct (str_eqb_spec k k') as [->|Hn]; [discriminate|].
  destruct Hin as [E|Hin]; [congruence | apply IH; exact Hin].
Qed.

Lemma in_keys_alookup {A} k (l : list (str * A)) : In k (map fst l) -> alookup k l <> None.
Proof.
  intros Hin. apply in_map_iff in Hin. destruct Hin as [[k' v] [E Hin]].
  cbn [fst] in E. subst k'. apply (in_alookup k v). exact Hin.
Qed.

Lemma alookup_none_notin {A} k (l : list (str * A)) : alookup k l = None -> ~ In k (map fst l).
Proof. intros E Hin. exact (in_keys_alookup k l Hin E). Qed.

Lemma notin_alookup_none {A} k (l : list (str * A)) : ~ In k (map fst l) -> alookup k l = None.
Proof.
  intros Hn. destruct (alookup k l) as [v|] eqn:E; [|reflexivity].
  exfalso. apply Hn. apply alookup_in in E. apply in_map_iff. exists (k, v). auto.
Qed.

Lemma aremove_keys_incl {A} p (l : list (str * A)) x :
  In x (map fst (aremove p l)) -> In x (map fst l).
Proof.
  induction l as [|[k v] l IH]; simpl; [auto|].
  destruct (str_eqb p k); simpl; [auto|]. intros [E|Hin]; [left; exact E | right; auto].
Qed.

Lemma aremove_nodup {A} p (l : list (str * A)) :
  NoDup (map fst l) -> NoDup (map fst (aremove p l)).
Proof.
  induction l as [|[k v] l IH]; simpl; intros Hnd; [constructor|].
  inversion Hnd as [|x xs Hnin Hnd']; subst.
  destruct (str_eqb p k); simpl; [exact Hnd'|].
  constructor; [|apply IH; exact Hnd'].
  intros Hin. apply Hnin. apply (aremove_keys_incl p l). exact Hin.
Qed.

Lemma alookup_aremove_other {A} k p (l : list (str * A)) :
  k <> p -> alookup k (aremove p l) = alookup k l.
Proof.
  intros Hn. induction l as [|[k' v] l IH]; simpl; [reflexivity|].
  destruct (str_eqb_spec p k') as [<-|Hp]; simpl.
  - apply str_eqb_neq in Hn. rewrite Hn. reflexivity.
  - destruct (str_eqb k k'); [reflexivity | exact IH].
Qed.

Lemma alookup_aremove_same {A} p (l : list (str * A)) :
  NoDup (map fst l) -> alookup p (aremove p l) = None.
Proof.
  induction l as [|[k v] l IH]; simpl; intros Hnd; [reflexivity|].
  inversion Hnd as [|x xs Hnin Hnd']; subst.
  destruct (str_eqb_spec p k) as [->|Hp]; simpl.
  - apply notin_alookup_none. exact Hnin.
  - apply str_eqb_neq in Hp. rewrite Hp. apply IH. exact Hnd'.
Qed.

Lemma nodup_snoc {A} (l : list A) x : NoDup l -> ~ In x l -> NoDup (l ++ [x]).
Proof.
  induction l as [|y l IH]; simpl; intros Hnd Hnin.
  - constructor; [intros [] | constructor].
  - inversion Hnd as [|y' l' Hy Hnd']; subst. constructor.
    + intros Hin. apply in_app_or in Hin. destruct Hin as [Hin|[E|[]]]; [auto|].
      apply Hnin. left. symmetry. exact E.
    + apply IH; [exact Hnd'|]. intros Hin. apply Hnin. right. exact Hin.
Qed.

(* ---------- lookup, children, add and delete ---------- *)

Lemma lookup_root f : lookup f root_path = Some NDir.
Proof. reflexivity. Qed.

Lemma lookup_nonroot f p : p <> root_path -> lookup f p = alookup p (fs_dents f).
Proof. intros Hn. unfold lookup. apply str_eqb_neq in Hn. rewrite Hn. reflexivity. Qed.

Lemma lookup_none_neq_root f p : lookup f p = None -> p <> root_path.
Proof. intros E ->. rewrite lookup_root in E. discriminate. Qed.

Lemma in_children f d c :
  In c (children f d) ->
  fst c <> root_path /\ dirname (fst c) = d /\ lookup f (fst c) <> None.
Proof.
  unfold children. rewrite filter_In. intros [Hin Hb].
  apply andb_true_iff in Hb. destruct Hb as [H1 H2].
  apply str_eqb_eq in H1. apply negb_true_iff in H2. apply str_eqb_neq in H2.
  split; [exact H2|]. split; [exact H1|].
  rewrite (lookup_nonroot _ _ H2). destruct c as [k v]. apply (in_alookup k v). exact Hin.
Qed.

Lemma children_intro f d k :
  k <> root_path -> dirname k = d -> lookup f k <> None ->
  exists v, In (k, v) (children f d).
Proof.
  intros Hr Hd Hl. rewrite (lookup_nonroot _ _ Hr) in Hl.
  destruct (alookup k (fs_dents f)) as [v|] eqn:E; [|congruence].
  exists v. unfold children. apply filter_In. split; [apply alookup_in; exact E|].
  cbn [fst]. rewrite Hd, str_eqb_refl. apply str_eqb_neq in Hr. rewrite Hr. reflexivity.
Qed.

Lemma children_nil f d k :
  children f d = [] -> k <> root_path -> dirname k = d -> lookup f k = None.
Proof.
  intros Hc Hr Hd. destruct (lookup f k) as [n|] eqn:E; [|reflexivity].
  destruct (children_intro f d k Hr Hd) as [v Hin]; [congruence|].
  rewrite Hc in Hin. destruct Hin.
Qed.

Lemma lookup_del_dent_other f p q : q <> p -> lookup (del_dent p f) q = lookup f q.
Proof.
  intros Hn. unfold lookup. destruct (str_eqb q root_path); [reflexivity|].
  cbn [del_dent fs_dents]. apply alookup_aremove_other. exact Hn.
Qed.

Lemma lookup_del_dent_same f p :
  keys_nodup f -> p <> root_path -> lookup (del_dent p f) p = None.
Proof.
  intros Hnd Hr. rewrite (lookup_nonroot _ _ Hr). cbn [del_dent fs_dents].
  apply alookup_aremove_same. exact Hnd.
Qed.

Lemma keys_nodup_del f p : keys_nodup f -> keys_nodup (del_dent p f).
Proof. unfold keys_nodup. cbn [del_dent fs_dents]. apply aremove_nodup. Qed.

Lemma keys_nodup_snoc (l : list (str * node)) p n :
  NoDup (map fst l) -> alookup p l = None -> NoDup (map fst (l ++ [(p, n)])).
Proof.
  intros Hnd Hl. rewrite map_app. cbn [map fst]. apply nodup_snoc; [exact Hnd|].
  apply alookup_none_notin. exact Hl.
Qed.

Lemma keys_nodup_add f p n : keys_nodup f -> lookup f p = None -> keys_nodup (add_dent p n f).
Proof.
  intros Hnd Hl. unfold keys_nodup. cbn [add_dent fs_dents].
  apply keys_nodup_snoc; [exact Hnd|].
  rewrite <- (lookup_nonroot f p); [exact Hl | apply (lookup_none_neq_root f); exact Hl].
Qed.

Lemma keys_nodup_created f p : keys_nodup f -> lookup f p = None -> keys_nodup (created p f).
Proof.
  intros Hnd Hl. unfold keys_nodup. cbn [created fs_dents].
  apply keys_nodup_snoc; [exact Hnd|].
  rewrite <- (lookup_nonroot f p); [exact Hl | apply (lookup_none_neq_root f); exact Hl].
Qed.

Lemma fs_mkdir_nodup p f : keys_nodup f -> keys_nodup (snd (fs_mkdir p f)).
Proof.
  intros Hnd. unfold fs_mkdir. destruct (lookup f p) eqn:E; [exact Hnd|].
  destruct (parent_is_dir f p); [exact Hnd|]. cbn [snd]. apply keys_nodup_add; assumption.
Qed.

Lemma parents_exist_b_sound f : parents_exist_b f = true -> parents_exist f.
Proof.
  intros Hb p Hp. destruct (str_eqb_spec p root_path) as [->|Hr]; [reflexivity|].
  rewrite (lookup_nonroot _ _ Hr) in Hp.
  destruct (alookup p (fs_dents f)) as [v|] eqn:E; [|congruence].
  apply alookup_in in E. unfold parents_exist_b in Hb. rewrite forallb_forall in Hb.
  specialize (Hb _ E). cbn [fst] in Hb.
  destruct (lookup f (dirname p)) as [[| |]|]; try discriminate. reflexivity.
Qed.

(* ---------- paths: the ancestors are sorted by length ---------- *)

Fixpoint lsorted (l : list str) : Prop :=
  match l with
  | [] => True
  | a :: l' => (forall b, In b l' -> length a < length b) /\ lsorted l'
  end.

Lemma lsorted_app_lt l1 : forall l2, lsorted (l1 ++ l2) ->
  forall a b, In a l1 -> In b l2 -> length a < length b.
Proof.
  induction l1 as [|x l1 IH]; intros l2 Hs a b Ha Hb; [destruct Ha|].
  cbn [app lsorted] in Hs. destruct Hs as [Hx Hs]. destruct Ha as [<-|Ha].
  - apply Hx. apply in_or_app. right. exact Hb.
  - exact (IH l2 Hs a b Ha Hb).
Qed.

Lemma lsorted_nodup l : lsorted l -> NoDup l.
Proof.
  induction l as [|a l IH]; intros Hs; [constructor|].
  destruct Hs as [Ha Hs]. constructor; [|apply IH; exact Hs].
  intros Hin. specialize (Ha a Hin). lia.
Qed.

Lemma parents_aux_longer : forall rest pre_rev d,
  In d (parents_of_aux pre_rev rest) -> length pre_rev <= length d.
Proof.
  induction rest as [|c r IH]; intros pre_rev d Hin; [destruct Hin|].
  cbn [parents_of_aux] in Hin. apply in_app_or in Hin. destruct Hin as [Hin|Hin].
  - destruct (is_slash c && _); [|destruct Hin].
    destruct Hin as [<-|[]]. rewrite rev_length. lia.
  - apply IH in Hin. simpl in Hin. lia.
Qed.

Lemma parents_aux_sorted : forall rest pre_rev, lsorted (parents_of_aux pre_rev rest).
Proof.
  induction rest as [|c r IH]; intros pre_rev; [exact I|].
  cbn [parents_of_aux]. destruct (is_slash c && _); cbn [app]; [|apply IH].
  cbn [lsorted]. split; [|apply IH].
  intros b Hb. apply parents_aux_longer in Hb. rewrite rev_length. simpl in Hb. lia.
Qed.

Lemma parents_abs rest : parents_of (ch_slash :: rest) = parents_of_aux [ch_slash] rest.
Proof. reflexivity. Qed.

Lemma parents_sorted p : lsorted (parents_of p).
Proof. apply parents_aux_sorted. Qed.

Lemma parents_abs_nonempty rest d : In d (parents_of (ch_slash :: rest)) -> 1 <= length d.
Proof. rewrite parents_abs. intros Hin. apply parents_aux_longer in Hin. exact Hin. Qed.

Lemma parents_shorter p d : In d (parents_of p) -> length d < length p.
Proof. intros Hin. apply parents_aux_shorter in Hin. simpl in Hin. exact Hin. Qed.

Lemma dirname_shorter k :
  k <> root_path -> dirname k <> [] -> length (dirname k) < length k.
Proof.
  intros Hr Hne. unfold dirname, rindex in *.
  destruct (rindex_from is_slash k 0 None) as [n|] eqn:E; [|congruence].
  pose proof (rindex_from_range _ _ _ _ _ E) as [R|R]; [discriminate|].
  destruct n as [|n].
  - destruct k as [|c [|c' k]]; simpl in *; try lia.
    exfalso. apply Hr. destruct (is_slash c) eqn:Hc; [|discriminate].
    unfold is_slash in Hc. apply Ascii.eqb_eq in Hc. subst c. reflexivity.
  - rewrite firstn_length. lia.
Qed.

Lemma chain_app prev l1 : forall p l2, chain prev (l1 ++ p :: l2) -> chain p l2.
Proof.
  revert prev. induction l1 as [|x l1 IH]; intros prev p l2 Hc; cbn [app chain] in Hc.
  - destruct Hc as [_ Hc]. exact Hc.
  - destruct Hc as [_ Hc]. exact (IH _ _ _ Hc).
Qed.

(* below a missing element of the chain everything is missing *)
Lemma chain_fresh f : parents_exist f -> forall l p,
  lookup f p = None -> chain p l -> forall q, In q l -> lookup f q = None.
Proof.
  intros Hpe. induction l as [|x l IH]; intros p Hp Hc q Hq; [destruct Hq|].
  cbn [chain] in Hc. destruct Hc as [Hd Hc].
  assert (Hx : lookup f x = None).
  { destruct (lookup f x) as [n|] eqn:E; [|reflexivity].
    assert (Hne : lookup f x <> None) by congruence.
    apply Hpe in Hne. rewrite Hd, Hp in Hne. discriminate. }
  destruct Hq as [<-|Hq]; [exact Hx|]. exact (IH x Hx Hc q Hq).
Qed.

Definition str_in_dec (x : str) (l : list str) : {In x l} + {~ In x l} :=
  in_dec (list_eq_dec ascii_dec) x l.

(* ---------- single calls under a benign oracle ---------- *)

Lemma sys_unit_benign o w c op :
  benign o ->
  sys_unit c op o w =
  (Some (fst (op (w_fs w))),
   mkW (snd (op (w_fs w))) (S (w_n w))
       ((c, err_ret (fst (op (w_fs w)))) :: w_log w) (w_clock w) (w_tr w)).
Proof.
  intros H. unfold sys_unit. rewrite sys_benign by exact H.
  destruct (op (w_fs w)) as [e f']. reflexivity.
Qed.

Lemma k_rmdir_benign o w p :
  benign o ->
  k_rmdir p o w =
  (Some (fst (fs_rmdir p (w_fs w))),
   mkW (snd (fs_rmdir p (w_fs w))) (S (w_n w))
       ((CRmdir p, err_ret (fst (fs_rmdir p (w_fs w)))) :: w_log w) (w_clock w) (w_tr w)).
Proof. intros H. unfold k_rmdir. apply sys_unit_benign. exact H. Qed.

Lemma k_mkdir_benign o w p :
  benign o ->
  k_mkdir p o w =
  (Some (fst (fs_mkdir p (w_fs w))),
   mkW (snd (fs_mkdir p (w_fs w))) (S (w_n w))
       ((CMkdir p, err_ret (fst (fs_mkdir p (w_fs w)))) :: w_log w) (w_clock w) (w_tr w)).
Proof. intros H. unfold k_mkdir. apply sys_unit_benign. exact H. Qed.

Lemma mkdir_all_nodup o : benign o -> forall ds w r w',
  mkdir_all ds o w = (r, w') -> keys_nodup (w_fs w) -> keys_nodup (w_fs w').
Proof.
  intros H. induction ds as [|d ds IH]; intros w r w' E Hnd.
  - cbn in E. injection E as _ <-. exact Hnd.
  - cbn [mkdir_all] in E. rewrite (bind_some _ _ _ _ _ _ (k_mkdir_benign o w d H)) in E.
    pose proof (fs_mkdir_nodup d (w_fs w) Hnd) as Hnd1.
    destruct (fst (fs_mkdir d (w_fs w))) as [e|].
    + destruct e; try (cbn in E; injection E as _ <-; exact Hnd1).
      apply IH in E; [exact E | exact Hnd1].
    + apply IH in E; [exact E | exact Hnd1].
Qed.

(* ---------- rmdir_up removes a prefix of its list ---------- *)

Lemma rmdir_up_spec o : benign o -> forall l w,
  keys_nodup (w_fs w) -> NoDup l ->
  (forall p, In p l -> lookup (w_fs w) p = Some NDir) ->
  exists w' gone keep,
    rmdir_up l o w = (Some tt, w') /\ l = gone ++ keep /\
    w_tr w' = w_tr w /\
    fs_files (w_fs w') = fs_files (w_fs w) /\
    fs_next (w_fs w') = fs_next (w_fs w) /\
    keys_nodup (w_fs w') /\
    (forall p, In p gone -> p <> root_path -> lookup (w_fs w') p = None) /\
    (forall p, ~ In p gone -> lookup (w_fs w') p = lookup (w_fs w) p) /\
    (forall p, In p gone -> forall k, k <> root_path -> dirname k = p ->
               lookup (w_fs w) k <> None -> In k gone) /\
    match keep with
    | [] => True
    | h :: _ => exists k, k <> root_path /\ dirname k = h /\ lookup (w_fs w') k <> None
    end.
Proof.
  intros H. induction l as [|a l IH]; intros w Hnd Hl Hall.
  - exists w, [], []. cbn [rmdir_up]. unfold ret_.
    split; [reflexivity|]. split; [reflexivity|]. split; [reflexivity|].
    split; [reflexivity|]. split; [reflexivity|]. split; [exact Hnd|].
    split; [intros p []|]. split; [reflexivity|]. split; [intros p []|]. exact I.
  - cbn [rmdir_up]. rewrite (bind_some _ _ _ _ _ _ (k_rmdir_benign o w a H)).
    unfold fs_rmdir. rewrite (Hall a (or_introl eq_refl)).
    inversion Hl as [|a' l' Hnin Hl']; subst.
    destruct (children (w_fs w) a) as [|c cs] eqn:Ech; cbn [fst snd].
    + (* empty: removed, go on *)
      match goal with |- context [rmdir_up l o ?x] => set (w1 := x) end.
      assert (F1 : w_fs w1 = del_dent a (w_fs w)) by reflexivity.
      destruct (IH w1) as [w' [gone [keep [E [Hsplit [T [FF [NN [ND [G1 [G2 [G3 G4]]]]]]]]]]]].
      { rewrite F1. apply keys_nodup_del. exact Hnd. }
      { exact Hl'. }
      { intros p Hp. rewrite F1. rewrite lookup_del_dent_other.
        - apply Hall. right. exact Hp.
        - intros ->. exact (Hnin Hp). }
      exists w', (a :: gone), keep.
      split; [exact E|]. split; [cbn [app]; rewrite Hsplit; reflexivity|].
      split; [rewrite T; reflexivity|]. split; [rewrite FF, F1; reflexivity|].
      split; [rewrite NN, F1; reflexivity|]. split; [exact ND|].
      split; [|split; [|split]].
      * intros p [<-|Hp] Hr; [|exact (G1 p Hp Hr)].
        rewrite G2.
        -- rewrite F1. apply lookup_del_dent_same; assumption.
        -- intros Hin. apply Hnin. rewrite Hsplit. apply in_or_app. left. exact Hin.
      * intros p Hp.
        assert (Hpa : p <> a) by (intros ->; apply Hp; left; reflexivity).
        rewrite G2; [|intros Hin; apply Hp; right; exact Hin].
        rewrite F1. apply lookup_del_dent_other. exact Hpa.
      * intros p [<-|Hp] k Hr Hd Hk.
        -- exfalso. apply Hk. exact (children_nil _ _ _ Ech Hr Hd).
        -- destruct (str_eqb_spec k a) as [->|Hka]; [left; reflexivity|].
           right. apply (G3 p Hp k Hr Hd). rewrite F1.
           rewrite lookup_del_dent_other by exact Hka. exact Hk.
      * exact G4.
    + (* not empty: stop *)
      unfold ret_. eexists. exists [], (a :: l).
      split; [reflexivity|]. split; [reflexivity|]. cbn [w_tr w_fs].
      split; [reflexivity|]. split; [reflexivity|]. split; [reflexivity|].
      split; [exact Hnd|]. split; [intros p []|]. split; [reflexivity|].
      split; [intros p []|].
      assert (Hc : In c (children (w_fs w) a)) by (rewrite Ech; left; reflexivity).
      apply in_children in Hc. exists (fst c). exact Hc.
Qed.

(* ---------- clean_up ---------- *)

Lemma clean_up_spec o dst w :
  benign o -> keys_nodup (w_fs w) -> NoDup (parents_of dst) ->
  (forall p, In p (parents_of dst) -> lookup (w_fs w) p = Some NDir) ->
  exists w' gone keep,
    clean_up dst o w = (Some tt, w') /\ rev (parents_of dst) = gone ++ keep /\
    w_tr w' = w_tr w /\
    fs_files (w_fs w') = fs_files (w_fs w) /\
    fs_next (w_fs w') = fs_next (w_fs w) /\
    keys_nodup (w_fs w') /\
    (forall p, In p gone -> p <> root_path -> lookup (w_fs w') p = None) /\
    (forall p, ~ In p gone -> lookup (w_fs w') p = lookup (w_fs w) p) /\
    (forall p, In p gone -> forall k, k <> root_path -> dirname k = p ->
               lookup (w_fs w) k <> None -> In k gone) /\
    match keep with
    | [] => True
    | h :: _ => exists k, k <> root_path /\ dirname k = h /\ lookup (w_fs w') k <> None
    end.
Proof.
  intros H Hnd Hl Hall.
  set (w2 := mkW (w_fs w) (w_n w) (w_log w) (w_clock w) (tr_try tr_empty)).
  destruct (rmdir_up_spec o H (rev (parents_of dst)) w2)
    as [w3 [gone [keep [E [Hsplit [T [FF [NN [ND [G1 [G2 [G3 G4]]]]]]]]]]]].
  { exact Hnd. }
  { apply NoDup_rev. exact Hl. }
  { intros p Hp. apply in_rev in Hp. exact (Hall p Hp). }
  exists (mkW (w_fs w3) (w_n w3) (w_log w3) (w_clock w3) (w_tr w)), gone, keep.
  split.
  { unfold clean_up.
    rewrite (bind_some get_tr _ o w (w_tr w) w eq_refl).
    rewrite (bind_some (set_tr (tr_try tr_empty)) _ o w tt w2 eq_refl).
    unfold remove_empty_parents, when_ok.
    assert (Erm : (do b <- is_ok; if b then rmdir_up (rev (parents_of dst)) else ret_ tt) o w2
                  = (Some tt, w3)).
    { rewrite (bind_some _ _ _ _ _ _ (is_ok_eq o w2)). exact E. }
    rewrite (bind_some _ _ _ _ _ _ Erm). reflexivity. }
  split; [exact Hsplit|]. cbn [w_fs w_tr].
  split; [reflexivity|]. split; [exact FF|]. split; [exact NN|]. split; [exact ND|].
  split; [exact G1|]. split; [exact G2|]. split; [exact G3 | exact G4].
Qed.

(* ---------- what "nothing is left behind" means ---------- *)

Definition abandoned (dst : str) (f f' : fs) : Prop :=
  (* nothing added *)
  (forall p, lookup f p = None -> lookup f' p = None) /\
  (* files and links stay *)
  (forall p i, lookup f p = Some (NFile i) -> lookup f' p = Some (NFile i)) /\
  (forall p t m, lookup f p = Some (NLink t m) -> lookup f' p = Some (NLink t m)) /\
  (* a directory stays, or it is an ancestor of dst, all of whose entries were
     ancestors of dst as well and have gone with it *)
  (forall p, lookup f p = Some NDir ->
     lookup f' p = Some NDir \/
     (In p (parents_of dst) /\ lookup f' p = None /\
      forall c, In c (children f p) ->
                In (fst c) (parents_of dst) /\ lookup f' (fst c) = None)) /\
  (* an ancestor holding an entry off the dst chain stays, with everything
     that is not longer than it *)
  (forall d, In d (parents_of dst) -> lookup f d = Some NDir ->
     (exists c, In c (children f d) /\ ~ In (fst c) (parents_of dst)) ->
     forall p, length p <= length d -> lookup f' p = lookup f p) /\
  (* no existing ancestor is empty: nothing changes at all *)
  ((forall d, In d (parents_of dst) -> lookup f d = Some NDir -> children f d <> []) ->
   forall p, lookup f' p = lookup f p).

Lemma lsorted_app_l l1 : forall l2, lsorted (l1 ++ l2) -> lsorted l1.
Proof.
  induction l1 as [|x l1 IH]; intros l2 Hs; [exact I|].
  cbn [app lsorted] in *. destruct Hs as [Hx Hs]. split; [|exact (IH l2 Hs)].
  intros b Hb. apply Hx. apply in_or_app. left. exact Hb.
Qed.

(* the file-system argument: f0 before, f1 with the whole chain present,
   f' after removing the prefix [gone] of the reversed chain *)
Lemma abandon_fs dst rest f0 f1 f' gone keep :
  dst = ch_slash :: rest ->
  parents_exist f0 ->
  (forall d, In d (parents_of dst) -> lookup f0 d = Some NDir \/ lookup f0 d = None) ->
  (forall p, In p (parents_of dst) -> lookup f1 p = Some NDir) ->
  (forall p, ~ In p (parents_of dst) -> lookup f1 p = lookup f0 p) ->
  rev (parents_of dst) = gone ++ keep ->
  (forall p, In p gone -> p <> root_path -> lookup f' p = None) ->
  (forall p, ~ In p gone -> lookup f' p = lookup f1 p) ->
  (forall p, In p gone -> forall k, k <> root_path -> dirname k = p ->
             lookup f1 k <> None -> In k gone) ->
  match keep with
  | [] => True
  | h :: _ => exists k, k <> root_path /\ dirname k = h /\ lookup f' k <> None
  end ->
  abandoned dst f0 f' /\ parents_exist f'.
Proof.
  intros Habs Hpe Hpar HI HO Hsplit G1 G2 G3 G4.
  assert (Hsorted0 : lsorted (parents_of dst)) by apply parents_sorted.
  assert (Hchain : chain root_path (parents_of dst)).
  { rewrite Habs. apply parents_of_chain. }
  assert (Hne1 : forall d, In d (parents_of dst) -> 1 <= length d).
  { rewrite Habs. apply parents_abs_nonempty. }
  assert (Hshort : forall d, In d (parents_of dst) -> length d < length dst).
  { apply parents_shorter. }
  set (ds := parents_of dst) in *.
  assert (Hds : ds = rev keep ++ rev gone).
  { rewrite <- (rev_involutive ds). rewrite Hsplit. apply rev_app_distr. }
  assert (Hin_ds : forall p, In p ds <-> In p keep \/ In p gone).
  { intros p. rewrite Hds, in_app_iff, <- !in_rev. tauto. }
  assert (Hgone_ds : forall p, In p gone -> In p ds).
  { intros p Hp. apply Hin_ds. right. exact Hp. }
  assert (Hlt : forall a b, In a keep -> In b gone -> length a < length b).
  { intros a b Ha Hb. rewrite Hds in Hsorted0.
    apply (lsorted_app_lt (rev keep) (rev gone) Hsorted0); rewrite <- in_rev; assumption. }
  assert (Hf1_some : forall k, lookup f0 k <> None -> lookup f1 k <> None).
  { intros k Hk. destruct (str_in_dec k ds) as [Hd|Hd].
    - rewrite (HI k Hd). discriminate.
    - rewrite (HO k Hd). exact Hk. }
  assert (Hdn : forall k d, k <> root_path -> dirname k = d -> In d ds -> length d < length k).
  { intros k d Kr Kd Hd. rewrite <- Kd. apply dirname_shorter; [exact Kr|].
    rewrite Kd. intros ->. specialize (Hne1 [] Hd). simpl in Hne1. lia. }
  (* whatever is kept existed before *)
  assert (keep_old : forall p, In p keep -> lookup f0 p = Some NDir).
  { destruct keep as [|h keep']; [intros p []|].
    assert (Hhds : In h ds) by (apply Hin_ds; left; left; reflexivity).
    assert (Hh : lookup f0 h = Some NDir).
    { destruct (Hpar h Hhds) as [Hd|Hn]; [exact Hd|]. exfalso.
      destruct G4 as [k [Kr [Kd Kl]]].
      destruct (str_in_dec k gone) as [Kg|Kg]; [apply Kl; apply G1; assumption|].
      rewrite (G2 k Kg) in Kl.
      destruct (str_in_dec k ds) as [Kds|Kds].
      - pose proof (Hdn k h Kr Kd Hhds) as Hlen.
        apply Hin_ds in Kds. destruct Kds as [[Kk|Kk]|Kk]; [subst k; lia | | exact (Kg Kk)].
        cbn [rev] in Hds. rewrite Hds in Hsorted0.
        apply lsorted_app_l in Hsorted0.
        assert (length k < length h).
        { apply (lsorted_app_lt (rev keep') [h] Hsorted0);
            [rewrite <- in_rev; exact Kk | left; reflexivity]. }
        lia.
      - rewrite (HO k Kds) in Kl. apply Hpe in Kl. rewrite Kd, Hn in Kl. discriminate. }
    intros p [<-|Hp]; [exact Hh|].
    destruct (Hpar p) as [Hd|Hn]; [apply Hin_ds; left; right; exact Hp | exact Hd |].
    exfalso. apply in_rev in Hp. apply in_split in Hp. destruct Hp as [x [y Hxy]].
    assert (Hds' : ds = x ++ p :: (y ++ h :: rev gone)).
    { rewrite Hds. cbn [rev]. rewrite Hxy. repeat rewrite <- app_assoc. reflexivity. }
    rewrite Hds' in Hchain. apply chain_app in Hchain.
    assert (Hhn : lookup f0 h = None).
    { apply (chain_fresh f0 Hpe _ p Hn Hchain). apply in_or_app. right. left. reflexivity. }
    rewrite Hhn in Hh. discriminate. }
  (* every path is either removed or as before *)
  assert (Hchar : forall p, (In p gone /\ p <> root_path /\ lookup f' p = None) \/
                            lookup f' p = lookup f0 p).
  { intros p. destruct (str_in_dec p gone) as [Hg|Hg].
    - destruct (str_eqb_spec p root_path) as [->|Hr]; [right; reflexivity|].
      left. split; [exact Hg|]. split; [exact Hr|]. apply G1; assumption.
    - right. rewrite (G2 p Hg). destruct (str_in_dec p ds) as [Hd|Hd]; [|apply HO; exact Hd].
      rewrite (HI p Hd). symmetry. apply keep_old.
      apply Hin_ds in Hd. destruct Hd as [Hk|Hk]; [exact Hk | contradiction]. }
  (* the entries of a removed directory were removed before it *)
  assert (Hgc : forall p, In p gone -> forall k, k <> root_path -> dirname k = p ->
                lookup f0 k <> None -> In k gone /\ lookup f' k = None).
  { intros p Hp k Kr Kd Kl.
    assert (Kg : In k gone) by (apply (G3 p Hp k Kr Kd); apply Hf1_some; exact Kl).
    split; [exact Kg|]. apply G1; assumption. }
  split.
  - unfold abandoned. fold ds.
    split; [|split; [|split; [|split; [|split]]]].
    + intros p Hp. destruct (Hchar p) as [[Hg [Hr Hn]]|E]; [exact Hn | congruence].
    + intros p i Hp. destruct (Hchar p) as [[Hg [Hr Hn]]|E]; [|congruence].
      destruct (Hpar p (Hgone_ds p Hg)); congruence.
    + intros p t m Hp. destruct (Hchar p) as [[Hg [Hr Hn]]|E]; [|congruence].
      destruct (Hpar p (Hgone_ds p Hg)); congruence.
    + intros p Hold. destruct (Hchar p) as [[Hg [Hr Hn]]|E]; [right | left; congruence].
      split; [apply Hgone_ds; exact Hg|]. split; [exact Hn|].
      intros c Hc. apply in_children in Hc. destruct Hc as [Cr [Cd Cl]].
      destruct (Hgc p Hg _ Cr Cd Cl) as [Cg Cn]. split; [apply Hgone_ds; exact Cg | exact Cn].
    + intros d Hd Hold [c [Hc Hnc]] p Hlen.
      assert (Hk : In d keep).
      { apply Hin_ds in Hd. destruct Hd as [Hk|Hg]; [exact Hk|]. exfalso.
        apply in_children in Hc. destruct Hc as [Cr [Cd Cl]].
        apply Hnc. apply Hgone_ds. apply (Hgc d Hg (fst c) Cr Cd Cl). }
      destruct (Hchar p) as [[Hg _]|E]; [|exact E].
      specialize (Hlt d p Hk Hg). lia.
    + intros Hne.
      assert (aux : forall n p, length dst < n + length p -> In p gone ->
                                lookup f0 p = Some NDir -> False).
      { induction n as [|n IHn]; intros p Hlen Hg Hold.
        - specialize (Hshort p (Hgone_ds p Hg)). lia.
        - specialize (Hne p (Hgone_ds p Hg) Hold).
          destruct (children f0 p) as [|c cs] eqn:Ec; [congruence|].
          assert (Hc : In c (children f0 p)) by (rewrite Ec; left; reflexivity).
          apply in_children in Hc. destruct Hc as [Cr [Cd Cl]].
          destruct (Hgc p Hg (fst c) Cr Cd Cl) as [Cg _].
          pose proof (Hdn (fst c) p Cr Cd (Hgone_ds p Hg)) as Hl.
          apply (IHn (fst c)); [lia | exact Cg |].
          destruct (Hpar (fst c) (Hgone_ds _ Cg)); [assumption | contradiction]. }
      intros p. destruct (Hchar p) as [[Hg [Hr Hn]]|E]; [|exact E].
      rewrite Hn. destruct (Hpar p (Hgone_ds p Hg)) as [Hd|Hn0]; [|symmetry; exact Hn0].
      exfalso. apply (aux (S (length dst)) p); [lia | exact Hg | exact Hd].
  - intros p Hp. destruct (str_eqb_spec p root_path) as [->|Hr]; [reflexivity|].
    destruct (Hchar p) as [[_ [_ Hn]]|E]; [contradiction|].
    rewrite E in Hp. pose proof (Hpe p Hp) as Hd.
    destruct (Hchar (dirname p)) as [[Hg [Hr' Hn']]|E']; [|congruence].
    exfalso. destruct (Hgc (dirname p) Hg p Hr eq_refl Hp) as [_ Hn]. congruence.
Qed.

(* clean_up on a world whose file system has the whole chain of dst present
   and agrees with f0 elsewhere *)
Lemma abandon_cleanup o dst rest f0 w1 :
  benign o ->
  dst = ch_slash :: rest ->
  parents_exist f0 ->
  (forall d, In d (parents_of dst) -> lookup f0 d = Some NDir \/ lookup f0 d = None) ->
  keys_nodup (w_fs w1) ->
  (forall p, In p (parents_of dst) -> lookup (w_fs w1) p = Some NDir) ->
  (forall p, ~ In p (parents_of dst) -> lookup (w_fs w1) p = lookup f0 p) ->
  exists w',
    clean_up dst o w1 = (Some tt, w') /\
    w_tr w' = w_tr w1 /\
    fs_files (w_fs w') = fs_files (w_fs w1) /\
    fs_next (w_fs w') = fs_next (w_fs w1) /\
    keys_nodup (w_fs w') /\ parents_exist (w_fs w') /\
    abandoned dst f0 (w_fs w').
Proof.
  intros H Habs Hpe Hpar Hnd HI HO.
  destruct (clean_up_spec o dst w1 H Hnd (lsorted_nodup _ (parents_sorted dst)) HI)
    as [w' [gone [keep [E [Hsplit [T [FF [NN [ND [G1 [G2 [G3 G4]]]]]]]]]]]].
  destruct (abandon_fs dst rest f0 (w_fs w1) (w_fs w') gone keep
              Habs Hpe Hpar HI HO Hsplit G1 G2 G3 G4) as [Hab Hpe'].
  exists w'. auto 10.
Qed.

(* ---------- more single calls ---------- *)

Lemma k_open_read_any o w p :
  benign o ->
  exists w', k_open_read p o w = (Some (fs_open_read p (w_fs w)), w') /\
             w_fs w' = w_fs w /\ w_tr w' = w_tr w.
Proof.
  intros H. unfold k_open_read, k_open_gen. rewrite sys_benign by exact H. cbn.
  eexists. split; [reflexivity|]. split; reflexivity.
Qed.

Lemma k_fstat_dir o w p :
  benign o ->
  exists w', k_fstat (FdDir p) o w = (Some (inl (false, 0)), w') /\
             w_fs w' = w_fs w /\ w_tr w' = w_tr w.
Proof.
  intros H. unfold k_fstat. rewrite sys_benign by exact H. cbn.
  eexists. split; [reflexivity|]. split; reflexivity.
Qed.

Lemma k_unlink_file o w p j :
  benign o -> lookup (w_fs w) p = Some (NFile j) ->
  exists w', k_unlink p o w = (Some None, w') /\
             w_fs w' = del_dent p (w_fs w) /\ w_tr w' = w_tr w.
Proof.
  intros H Hl. unfold k_unlink. rewrite sys_unit_benign by exact H.
  unfold fs_unlink. rewrite Hl. cbn [fst snd].
  eexists. split; [reflexivity|]. split; reflexivity.
Qed.

Lemma throw_spec fr o w :
  exists w', throw fr o w = (Some tt, w') /\
             w_fs w' = w_fs w /\ w_tr w' = tr_push fr (w_tr w).
Proof. eexists. split; [reflexivity|]. split; reflexivity. Qed.

(* create_parents from a well-formed file system *)
Lemma create_parents_spec o w dst rest :
  benign o ->
  tr_ok (w_tr w) = true ->
  dst = ch_slash :: rest ->
  (forall d, In d (parents_of dst) ->
             lookup (w_fs w) d = Some NDir \/ lookup (w_fs w) d = None) ->
  keys_nodup (w_fs w) ->
  exists w1,
    create_parents dst o w = (Some tt, w1) /\
    w_tr w1 = w_tr w /\
    fs_files (w_fs w1) = fs_files (w_fs w) /\
    fs_next (w_fs w1) = fs_next (w_fs w) /\
    (forall p, In p (parents_of dst) -> lookup (w_fs w1) p = Some NDir) /\
    (forall p, ~ In p (parents_of dst) -> lookup (w_fs w1) p = lookup (w_fs w) p) /\
    (forall p, lookup (w_fs w) p <> None -> lookup (w_fs w1) p = lookup (w_fs w) p) /\
    lookup (w_fs w1) (dirname dst) = Some NDir /\
    keys_nodup (w_fs w1).
Proof.
  intros H Htr Habs Hpar Hnd.
  destruct (parents_of_chain rest) as [Hch Hlast]. rewrite <- Habs in Hch, Hlast.
  destruct (mkdir_all_make o H (parents_of dst) root_path w eq_refl Hch Hpar)
    as [w1 [E1 [T1 [F1 [N1 [I1 [O1 [P1 L1]]]]]]]].
  exists w1. split.
  { unfold create_parents, when_ok.
    rewrite (bind_some _ _ _ _ _ _ (is_ok_eq o w)). rewrite Htr. exact E1. }
  split; [exact T1|]. split; [exact F1|]. split; [exact N1|]. split; [exact I1|].
  split; [exact O1|]. split; [exact P1|]. split; [rewrite Hlast; exact L1|].
  exact (mkdir_all_nodup o H _ _ _ _ E1 Hnd).
Qed.

(* ---------- the source cannot be opened ---------- *)

Lemma sync_file_open_fails o w dst src off fr :
  benign o ->
  tr_ok (w_tr w) = true ->
  (exists rest, dst = ch_slash :: rest) ->
  (forall d, In d (parents_of dst) ->
             lookup (w_fs w) d = Some NDir \/ lookup (w_fs w) d = None) ->
  keys_nodup (w_fs w) ->
  parents_exist (w_fs w) ->
  (lookup (w_fs w) src <> None \/ ~ In src (parents_of dst)) ->
  (forall f1, lookup f1 src = lookup (w_fs w) src -> fs_files f1 = fs_files (w_fs w) ->
              exists e, fs_open_read src f1 = inr e /\
                match e with
                | ENOENT | ENOTDIR => throw_static M_src_missing
                | EACCES => throw_static M_src_denied
                | _ => throw_errno e
                end = throw fr) ->
  exists w',
    sync_file dst src off o w = (Some 0, w') /\
    w_tr w' = tr_push fr (w_tr w) /\
    fs_files (w_fs w') = fs_files (w_fs w) /\
    fs_next (w_fs w') = fs_next (w_fs w) /\
    keys_nodup (w_fs w') /\ parents_exist (w_fs w') /\
    abandoned dst (w_fs w) (w_fs w').
Proof.
  intros H Htr [rest Habs] Hpar Hnd Hpe Hsrc Hopen.
  destruct (create_parents_spec o w dst rest H Htr Habs Hpar Hnd)
    as [w1 [Ecp [T1 [F1 [N1 [I1 [O1 [P1 [L1 Hnd1]]]]]]]]].
  unfold sync_file, when_ok.
  rewrite (bind_some _ _ _ _ _ _ (is_ok_eq o w)). rewrite Htr.
  rewrite (bind_some _ _ _ _ _ _ Ecp).
  rewrite (bind_some _ _ _ _ _ _ (is_ok_eq o w1)). rewrite T1, Htr. cbn [negb].
  destruct (k_open_read_any o w1 src H) as [w2 [E2 [F2 T2]]].
  rewrite (bind_some _ _ _ _ _ _ E2).
  destruct (Hopen (w_fs w1)) as [e [Ho Hthrow]].
  { destruct Hsrc as [Hs|Hs]; [apply P1; exact Hs | apply O1; exact Hs]. }
  { exact F1. }
  rewrite Ho. cbv beta iota. rewrite Hthrow.
  destruct (throw_spec fr o w2) as [w3 [E3 [F3 T3]]].
  rewrite (bind_some _ _ _ _ _ _ E3).
  destruct (abandon_cleanup o dst rest (w_fs w) w3 H Habs Hpe Hpar)
    as [w' [E4 [T4 [FF4 [NN4 [ND4 [PE4 AB4]]]]]]].
  { rewrite F3, F2. exact Hnd1. }
  { intros p Hp. rewrite F3, F2. exact (I1 p Hp). }
  { intros p Hp. rewrite F3, F2. exact (O1 p Hp). }
  rewrite (bind_some _ _ _ _ _ _ E4). unfold ret_.
  exists w'. split; [reflexivity|].
  split; [rewrite T4, T3, T2, T1; reflexivity|].
  split; [rewrite FF4, F3, F2; exact F1|].
  split; [rewrite NN4, F3, F2; exact N1|].
  split; [exact ND4|]. split; [exact PE4 | exact AB4].
Qed.

Lemma get_file_ext f f' : fs_files f' = fs_files f -> forall k, get_file f' k = get_file f k.
Proof. intros E k. unfold get_file. rewrite E. reflexivity. Qed.

(* (A) the source does not exist *)
Theorem sync_file_src_missing o w dst src off :
  benign o ->
  tr_ok (w_tr w) = true ->
  (exists rest, dst = ch_slash :: rest) ->
  (forall d, In d (parents_of dst) ->
             lookup (w_fs w) d = Some NDir \/ lookup (w_fs w) d = None) ->
  keys_nodup (w_fs w) ->
  parents_exist (w_fs w) ->
  lookup (w_fs w) src = None ->
  ~ In src (parents_of dst) ->
  exists w',
    sync_file dst src off o w = (Some 0, w') /\
    w_tr w' = tr_push (FStatic M_src_missing) (w_tr w) /\
    fs_files (w_fs w') = fs_files (w_fs w) /\
    fs_next (w_fs w') = fs_next (w_fs w) /\
    (forall k, get_file (w_fs w') k = get_file (w_fs w) k) /\
    keys_nodup (w_fs w') /\ parents_exist (w_fs w') /\
    abandoned dst (w_fs w) (w_fs w').
Proof.
  intros H Htr Habs Hpar Hnd Hpe Hsrc Hnin.
  destruct (sync_file_open_fails o w dst src off (FStatic M_src_missing)
              H Htr Habs Hpar Hnd Hpe (or_intror Hnin))
    as [w' [E [T [FF [NN [ND [PE AB]]]]]]].
  { intros f1 Hl _. exists (missing_errno src f1). split.
    - unfold fs_open_read. rewrite Hl, Hsrc. reflexivity.
    - unfold missing_errno. destruct (anc_not_dir (length src) f1 src); reflexivity. }
  exists w'. split; [exact E|]. split; [exact T|]. split; [exact FF|]. split; [exact NN|].
  split; [apply get_file_ext; exact FF|]. split; [exact ND|]. split; [exact PE | exact AB].
Qed.

(* (B) the source is a file that may not be read *)
Theorem sync_file_src_denied o w dst src off i :
  benign o ->
  tr_ok (w_tr w) = true ->
  (exists rest, dst = ch_slash :: rest) ->
  (forall d, In d (parents_of dst) ->
             lookup (w_fs w) d = Some NDir \/ lookup (w_fs w) d = None) ->
  keys_nodup (w_fs w) ->
  parents_exist (w_fs w) ->
  lookup (w_fs w) src = Some (NFile i) ->
  f_readable (get_file (w_fs w) i) = false ->
  exists w',
    sync_file dst src off o w = (Some 0, w') /\
    w_tr w' = tr_push (FStatic M_src_denied) (w_tr w) /\
    fs_files (w_fs w') = fs_files (w_fs w) /\
    fs_next (w_fs w') = fs_next (w_fs w) /\
    (forall k, get_file (w_fs w') k = get_file (w_fs w) k) /\
    keys_nodup (w_fs w') /\ parents_exist (w_fs w') /\
    abandoned dst (w_fs w) (w_fs w').
Proof.
  intros H Htr Habs Hpar Hnd Hpe Hsrc Hrd.
  destruct (sync_file_open_fails o w dst src off (FStatic M_src_denied)
              H Htr Habs Hpar Hnd Hpe)
    as [w' [E [T [FF [NN [ND [PE AB]]]]]]].
  { left. congruence. }
  { intros f1 Hl Hf. exists EACCES. split; [|reflexivity]. unfold fs_open_read. rewrite Hl, Hsrc.
    rewrite (get_file_ext _ _ Hf i), Hrd. reflexivity. }
  exists w'. split; [exact E|]. split; [exact T|]. split; [exact FF|]. split; [exact NN|].
  split; [apply get_file_ext; exact FF|]. split; [exact ND|]. split; [exact PE | exact AB].
Qed.

(* (C) the source is a directory: the destination is created and unlinked again *)
Theorem sync_file_src_directory o w dst src off :
  benign o ->
  tr_ok (w_tr w) = true ->
  (exists rest, dst = ch_slash :: rest) ->
  lookup (w_fs w) dst = None ->
  (forall d, In d (parents_of dst) ->
             lookup (w_fs w) d = Some NDir \/ lookup (w_fs w) d = None) ->
  keys_nodup (w_fs w) ->
  parents_exist (w_fs w) ->
  lookup (w_fs w) src = Some NDir ->
  exists w',
    sync_file dst src off o w = (Some 0, w') /\
    w_tr w' = tr_push (FStatic M_not_regular) (w_tr w) /\
    fs_files (w_fs w') = (fs_next (w_fs w), mkFile [] true) :: fs_files (w_fs w) /\
    fs_next (w_fs w') = S (fs_next (w_fs w)) /\
    (forall k, k <> fs_next (w_fs w) -> get_file (w_fs w') k = get_file (w_fs w) k) /\
    (forall k, k < fs_next (w_fs w) -> get_file (w_fs w') k = get_file (w_fs w) k) /\
    keys_nodup (w_fs w') /\ parents_exist (w_fs w') /\
    abandoned dst (w_fs w) (w_fs w').
Proof.
  intros H Htr [rest Habs] Hdst Hpar Hnd Hpe Hsrc.
  destruct (create_parents_spec o w dst rest H Htr Habs Hpar Hnd)
    as [w1 [Ecp [T1 [F1 [N1 [I1 [O1 [P1 [L1 Hnd1]]]]]]]]].
  assert (Hdst1 : lookup (w_fs w1) dst = None).
  { rewrite O1; [exact Hdst | apply parents_of_not_self]. }
  unfold sync_file, when_ok.
  rewrite (bind_some _ _ _ _ _ _ (is_ok_eq o w)). rewrite Htr.
  rewrite (bind_some _ _ _ _ _ _ Ecp).
  rewrite (bind_some _ _ _ _ _ _ (is_ok_eq o w1)). rewrite T1, Htr. cbn [negb].
  (* open the source: a directory descriptor *)
  destruct (k_open_read_any o w1 src H) as [w2 [E2 [F2 T2]]].
  rewrite (bind_some _ _ _ _ _ _ E2).
  assert (Hop : fs_open_read src (w_fs w1) = inl (FdDir src)).
  { unfold fs_open_read. rewrite P1 by congruence. rewrite Hsrc. reflexivity. }
  rewrite Hop. cbv beta iota.
  (* create the destination *)
  destruct (k_open_excl_new o w2 dst H) as [w3 [E3 [F3 T3]]].
  { rewrite F2. exact Hdst1. }
  { rewrite F2. exact L1. }
  rewrite (bind_some _ _ _ _ _ _ E3). rewrite F2 in F3.
  (* fstat says: not a regular file *)
  destruct (k_fstat_dir o w3 src H) as [w4 [E4 [F4 T4]]].
  rewrite (bind_some _ _ _ _ _ _ E4). cbv beta iota.
  destruct (throw_spec (FStatic M_not_regular) o w4) as [w5 [E5 [F5 T5]]].
  rewrite (bind_some (throw_static M_not_regular) _ _ _ _ _ E5).
  destruct (k_close_benign o w5 H) as [w6 [E6 [F6 T6]]].
  rewrite (bind_some _ _ _ _ _ _ E6).
  destruct (k_close_benign o w6 H) as [w7 [E7 [F7 T7]]].
  rewrite (bind_some _ _ _ _ _ _ E7).
  assert (Fs7 : w_fs w7 = created dst (w_fs w1)) by congruence.
  destruct (k_unlink_file o w7 dst (fs_next (w_fs w1)) H) as [w8 [E8 [F8 T8]]].
  { rewrite Fs7. apply lookup_created_same. exact Hdst1. }
  rewrite (bind_some _ _ _ _ _ _ E8). rewrite Fs7 in F8.
  (* the dentries are those of w1 again *)
  assert (Hnd8 : keys_nodup (w_fs w8)).
  { rewrite F8. apply keys_nodup_del. apply keys_nodup_created; assumption. }
  assert (L8 : forall p, lookup (w_fs w8) p = lookup (w_fs w1) p).
  { intros p. rewrite F8. destruct (str_eqb_spec p dst) as [->|Hp].
    - rewrite Hdst1. apply lookup_del_dent_same.
      + apply keys_nodup_created; assumption.
      + apply (lookup_none_neq_root (w_fs w1)). exact Hdst1.
    - rewrite lookup_del_dent_other by exact Hp. apply lookup_created_other. exact Hp. }
  destruct (abandon_cleanup o dst rest (w_fs w) w8 H Habs Hpe Hpar Hnd8)
    as [w' [E9 [T9 [FF9 [NN9 [ND9 [PE9 AB9]]]]]]].
  { intros p Hp. rewrite L8. exact (I1 p Hp). }
  { intros p Hp. rewrite L8. exact (O1 p Hp). }
  rewrite (bind_some _ _ _ _ _ _ E9). unfold ret_.
  assert (FF : fs_files (w_fs w') = (fs_next (w_fs w), mkFile [] true) :: fs_files (w_fs w)).
  { rewrite FF9, F8. cbn [del_dent created fs_files]. rewrite F1, N1. reflexivity. }
  assert (GG : forall k, k <> fs_next (w_fs w) -> get_file (w_fs w') k = get_file (w_fs w) k).
  { intros k Hk. unfold get_file. rewrite FF. cbn [nlookup].
    apply Nat.eqb_neq in Hk. rewrite Hk. reflexivity. }
  exists w'. split; [reflexivity|].
  split; [rewrite T9, T8, T7, T6, T5, T4, T3, T2, T1; reflexivity|].
  split; [exact FF|].
  split; [rewrite NN9, F8; cbn [del_dent created fs_next]; rewrite N1; reflexivity|].
  split; [exact GG|].
  split; [intros k Hk; apply GG; lia|].
  split; [exact ND9|]. split; [exact PE9 | exact AB9].
Qed.

(* ---------- consequences in the form one uses ---------- *)

(* an ancestor that holds an entry off the chain survives *)
Corollary abandoned_keeps_busy_ancestor dst f f' d :
  abandoned dst f f' ->
  In d (parents_of dst) -> lookup f d = Some NDir ->
  (exists c, In c (children f d) /\ ~ In (fst c) (parents_of dst)) ->
  lookup f' d = Some NDir.
Proof.
  intros [_ [_ [_ [_ [H5 _]]]]] Hd Hold Hc.
  rewrite (H5 d Hd Hold Hc d (le_n _)). exact Hold.
Qed.

(* a directory that was empty before and is not an ancestor of dst survives;
   so does every directory with an entry that survives *)
Corollary abandoned_dir_with_entry dst f f' p c :
  abandoned dst f f' ->
  lookup f p = Some NDir -> In c (children f p) -> lookup f' (fst c) <> None ->
  lookup f' p = Some NDir.
Proof.
  intros [_ [_ [_ [H4 _]]]] Hold Hc Hl.
  destruct (H4 p Hold) as [E|[_ [_ Hall]]]; [exact E|].
  destruct (Hall c Hc) as [_ Hn]. contradiction.
Qed.

(* ---------- the hypotheses are satisfiable; concrete runs ---------- *)

Module AbandonExample.
  Local Open Scope char_scope.

  Definition p_s : str := ["/"; "s"].
  Definition p_x : str := ["/"; "s"; "/"; "x"].
  Definition p_d : str := ["/"; "d"].
  Definition p_a : str := ["/"; "s"; "/"; "a"].
  Definition p_b : str := ["/"; "s"; "/"; "a"; "/"; "b"].
  Definition p_dst : str := ["/"; "s"; "/"; "a"; "/"; "b"; "/"; "v"].
  Definition p_nosuch : str := ["/"; "n"; "o"].

  (* store root /s holding a file /s/x; a directory /d elsewhere *)
  Definition fsE : fs :=
    let f1 := snd (fs_mkdir p_s fs_empty) in
    let f2 := snd (fs_create_excl p_x f1) in
    snd (fs_mkdir p_d f2).

  Definition wE : world := mkW fsE 0 [] 0%Z tr_empty.

  Lemma no_faults_benign : benign no_faults.
  Proof. intros i. left. reflexivity. Qed.

  Ltac nodup_keys :=
    unfold keys_nodup; vm_compute;
    repeat (constructor; [simpl; intuition discriminate|]); constructor.

  (* the well-formedness conditions hold of a concrete file system *)
  Example wf_holds : keys_nodup fsE /\ parents_exist fsE.
  Proof.
    split; [nodup_keys|]. apply parents_exist_b_sound. vm_compute. reflexivity.
  Qed.

  Example hyps_hold :
    tr_ok (w_tr wE) = true /\
    (exists rest, p_dst = ch_slash :: rest) /\
    lookup (w_fs wE) p_dst = None /\
    (forall d, In d (parents_of p_dst) ->
               lookup (w_fs wE) d = Some NDir \/ lookup (w_fs wE) d = None) /\
    lookup (w_fs wE) p_nosuch = None /\ ~ In p_nosuch (parents_of p_dst) /\
    lookup (w_fs wE) p_d = Some NDir.
  Proof.
    split; [reflexivity|]. split; [eexists; reflexivity|]. split; [vm_compute; reflexivity|].
    split.
    { intros d Hin. vm_compute in Hin.
      destruct Hin as [<-|[<-|[<-|[]]]]; vm_compute; auto. }
    split; [vm_compute; reflexivity|].
    split; [vm_compute; intuition discriminate|]. vm_compute. reflexivity.
  Qed.

  (* source missing: /s/a and /s/a/b are made and removed again; the rmdir of
     /s fails with ENOTEMPTY and ends the clean-up; 3 mkdir + open + 3 rmdir *)
  Example run_missing :
    let '(r, w') := sync_file p_dst p_nosuch 0 no_faults wE in
    r = Some 0 /\
    w_tr w' = tr_push (FStatic M_src_missing) tr_empty /\
    lookup (w_fs w') p_a = None /\ lookup (w_fs w') p_b = None /\
    lookup (w_fs w') p_dst = None /\
    lookup (w_fs w') p_s = Some NDir /\ lookup (w_fs w') p_x = Some (NFile 1) /\
    w_fs w' = fsE /\
    w_n w' = 7 /\ hd_error (w_log w') = Some (CRmdir p_s, RErr ENOTEMPTY).
  Proof. vm_compute. repeat split; reflexivity. Qed.

  (* a directory as source: the destination is created (inode 2) and unlinked *)
  Example run_directory :
    let '(r, w') := sync_file p_dst p_d 0 no_faults wE in
    r = Some 0 /\
    w_tr w' = tr_push (FStatic M_not_regular) tr_empty /\
    lookup (w_fs w') p_a = None /\ lookup (w_fs w') p_b = None /\
    lookup (w_fs w') p_dst = None /\
    lookup (w_fs w') p_s = Some NDir /\ lookup (w_fs w') p_x = Some (NFile 1) /\
    fs_dents (w_fs w') = fs_dents fsE /\
    fs_files (w_fs w') = (2, mkFile [] true) :: fs_files fsE /\
    fs_next (w_fs w') = 3 /\
    w_n w' = 12.
  Proof. vm_compute. repeat split; reflexivity. Qed.

  (* the same under an oracle that shortens every transfer *)
  Example run_missing_short :
    let '(r, w') := sync_file p_dst p_nosuch 0 SyncExample.o2 wE in
    r = Some 0 /\ w_fs w' = fsE.
  Proof. vm_compute. split; reflexivity. Qed.

  (* the theorems instantiated: no existing ancestor of p_dst is empty, so
     nothing changes, whatever the benign oracle does *)
  Example missing_by_theorem o off :
    benign o ->
    exists w',
      sync_file p_dst p_nosuch off o wE = (Some 0, w') /\
      w_tr w' = tr_push (FStatic M_src_missing) tr_empty /\
      (forall p, lookup (w_fs w') p = lookup fsE p) /\
      (forall k, get_file (w_fs w') k = get_file fsE k).
  Proof.
    intros H.
    destruct hyps_hold as [H1 [H2 [_ [H4 [H5 [H6 _]]]]]]. destruct wf_holds as [W1 W2].
    destruct (sync_file_src_missing o wE p_dst p_nosuch off H H1 H2 H4 W1 W2 H5 H6)
      as [w' [E [T [_ [_ [G [_ [_ AB]]]]]]]].
    exists w'. split; [exact E|]. split; [exact T|]. split; [|exact G].
    destruct AB as [_ [_ [_ [_ [_ AB]]]]].
    apply AB. intros d Hd Hold. vm_compute in Hd.
    destruct Hd as [<-|[<-|[<-|[]]]]; vm_compute in Hold; try discriminate Hold.
    vm_compute. discriminate.
  Qed.

  Example directory_by_theorem o off :
    benign o ->
    exists w',
      sync_file p_dst p_d off o wE = (Some 0, w') /\
      w_tr w' = tr_push (FStatic M_not_regular) tr_empty /\
      (forall p, lookup (w_fs w') p = lookup fsE p) /\
      (forall k, k < 2 -> get_file (w_fs w') k = get_file fsE k).
  Proof.
    intros H.
    destruct hyps_hold as [H1 [H2 [H3 [H4 [_ [_ H7]]]]]]. destruct wf_holds as [W1 W2].
    destruct (sync_file_src_directory o wE p_dst p_d off H H1 H2 H3 H4 W1 W2 H7)
      as [w' [E [T [_ [_ [_ [G [_ [_ AB]]]]]]]]].
    exists w'. split; [exact E|]. split; [exact T|]. split; [|exact G].
    destruct AB as [_ [_ [_ [_ [_ AB]]]]].
    apply AB. intros d Hd Hold. vm_compute in Hd.
    destruct Hd as [<-|[<-|[<-|[]]]]; vm_compute in Hold; try discriminate Hold.
    vm_compute. discriminate.
  Qed.

  (* ----- two tempting statements that do NOT hold ----- *)

  (* 1. "a directory that disappears was empty before": /s holds only /s/a,
     /s/a holds only the empty /s/a/b; abandoning /s/a/b/c/v removes all three,
     although /s and /s/a had an entry. *)
  Definition p_c_dst : str := ["/"; "s"; "/"; "a"; "/"; "b"; "/"; "c"; "/"; "v"].
  Definition fsC : fs :=
    let f1 := snd (fs_mkdir p_s fs_empty) in
    let f2 := snd (fs_mkdir p_a f1) in
    snd (fs_mkdir p_b f2).

  Example removed_dir_was_not_empty :
    keys_nodup fsC /\ parents_exist fsC /\
    lookup fsC p_a = Some NDir /\ children fsC p_a = [(p_b, NDir)] /\
    let '(r, w') := sync_file p_c_dst p_nosuch 0 no_faults (mkW fsC 0 [] 0%Z tr_empty) in
    r = Some 0 /\ lookup (w_fs w') p_a = None /\ lookup (w_fs w') p_s = None /\
    fs_dents (w_fs w') = [].
  Proof.
    split; [nodup_keys|]. split; [apply parents_exist_b_sound; vm_compute; reflexivity|].
    vm_compute. repeat split; reflexivity.
  Qed.

  (* 2. "if some existing ancestor has an entry off the chain, nothing changes":
     /s holds /s/x, but the empty /s/a below it is still removed.  (What is
     true: /s itself and everything not longer than it is unchanged.) *)
  Definition fsD : fs :=
    let f1 := snd (fs_mkdir p_s fs_empty) in
    let f2 := snd (fs_create_excl p_x f1) in
    snd (fs_mkdir p_a f2).

  Example busy_ancestor_does_not_protect_descendants :
    keys_nodup fsD /\ parents_exist fsD /\
    In p_s (parents_of p_dst) /\ lookup fsD p_s = Some NDir /\
    In (p_x, NFile 1) (children fsD p_s) /\ ~ In p_x (parents_of p_dst) /\
    lookup fsD p_a = Some NDir /\
    let '(r, w') := sync_file p_dst p_nosuch 0 no_faults (mkW fsD 0 [] 0%Z tr_empty) in
    r = Some 0 /\ lookup (w_fs w') p_a = None /\
    lookup (w_fs w') p_s = Some NDir /\ lookup (w_fs w') p_x = Some (NFile 1).
  Proof.
    split; [nodup_keys|]. split; [apply parents_exist_b_sound; vm_compute; reflexivity|].
    split; [vm_compute; auto|]. split; [vm_compute; reflexivity|].
    split; [vm_compute; auto|]. split; [vm_compute; intuition discriminate|].
    vm_compute. repeat split; reflexivity.
  Qed.

  (* 3. why (A) asks that the source is not itself an ancestor of dst: then
     create_parents makes it a directory and the run ends as case (C) *)
  Example missing_source_on_the_chain :
    lookup fsE p_a = None /\ In p_a (parents_of p_dst) /\
    let '(r, w') := sync_file p_dst p_a 0 no_faults wE in
    r = Some 0 /\ w_tr w' = tr_push (FStatic M_not_regular) tr_empty /\
    fs_dents (w_fs w') = fs_dents fsE.
  Proof.
    split; [vm_compute; reflexivity|]. split; [vm_compute; auto|].
    vm_compute. repeat split; reflexivity.
  Qed.
End AbandonExample.

Print Assumptions sync_file_src_missing.
Print Assumptions sync_file_src_denied.
Print Assumptions sync_file_src_directory.
Print Assumptions AbandonExample.missing_by_theorem.
Print Assumptions AbandonExample.directory_by_theorem.
