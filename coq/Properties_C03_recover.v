(* C03 at the level of the WORLD, the RECOVERY statement a user relies on:
   a timeout pass over plain entries is interrupted at ANY point (any honest
   oracle: a crash before any call, any failing call with an errno other than
   ENOENT/ENOTDIR/EACCES/EEXIST, any non-zero short transfer); the daemon is
   restarted on the disk the pass has left (load_linq), and a fault-free pass
   runs.  RecoverFrame.v, RecoverPass.v, RecoverProofs.v.

   rec_names / rec_init (RecoverProofs.v) are the side conditions of
   PassProofs.handle_timeout_plain_pass (plain_ok, indep) made symmetric and
   stated for the first TWO candidate names (cand c e 0 = <store>/<rel>/<version>
   <ext>, cand c e 1 = <store>/<rel>/<version>-1<ext>) at both clocks (now: the
   crashed pass, now2: the pass after the restart): these names are free, lie
   below directories or nothing, and do not collide with each other, with the
   offset paths or with the queue directory; the sources are readable regular
   files; the file system is a tree (wft); the queue holds exactly the entries.
   The entries need be due only at the restart (now2); now2 is arbitrary. *)
From K Require Import Str Dec Trace Fs World Progs Elf Linq LinqSpec LinqProofs Sieve Handler Hoare
     SyncProofs AbandonProofs QueueProofs CrashFrame CrashLoad CrashQueue CrashCopy CrashProofs
     PassProofs PassProofs2 RecoverFrame RecoverPass RecoverProofs.

(* what the interrupted pass leaves: RecoverFrame.L k q' f' for some k -
   the queue directory holds the entries k, k+1, ... under their names (L_q);
   the popped entries have a COMPLETE version at cand now e 0 in a new inode
   (L_done); the entry k has nothing there or a new file holding a PREFIX of
   its source (L_cur: complete, or partial after a crash during the transfer);
   the later entries have nothing there (L_todo); above these names there are
   directories or nothing (L_par); every other name but the popped links
   (L_other) and every old inode but the journal (L_files) is as before *)
Theorem C03_recover_crash_leaves :
  forall cfg cpl oj d f0 now now2 es q0,
  rec_names cfg cpl d now now2 es -> rec_init cfg cpl oj d f0 now now2 es q0 ->
  forall (o : oracle) (rev : bool) (h : handler) (w : world),
  honest o ->
  h_cfg h = cfg -> h_cpl h = cpl -> h_journal h = oj -> h_q h = q0 ->
  w_fs w = f0 -> w_clock w = now ->
  exists k q', k <= length es /\
    L cfg cpl oj d f0 now es (q_head q0) k q' (w_fs (snd (handle_timeout rev h o w))).
Proof. exact crash_leaves. Qed.
Print Assumptions C03_recover_crash_leaves.

(* crash, restart, pass: (R1) every entry has at least one complete version,
   (R2) nothing that was there has changed, (R3) at most two new files per
   entry - ONE for the entries popped before the crash; the entry being copied
   at the crash may be stored a second time under the next free name
   (at-least-once, not exactly-once) -, the queue is empty, no error *)
Theorem C03_recover :
  forall cfg cpl oj d f0 now now2 es q0,
  rec_names cfg cpl d now now2 es -> rec_init cfg cpl oj d f0 now now2 es q0 ->
  forall (o : oracle) (rev : bool) (h : handler) (w : world)
         (o2 : oracle) (w2 : world) (rev2 : bool),
  honest o -> benign o2 ->
  h_cfg h = cfg -> h_cpl h = cpl -> h_journal h = oj -> h_q h = q0 ->
  w_fs w = f0 -> w_clock w = now ->
  w_fs w2 = w_fs (snd (handle_timeout rev h o w)) -> w_clock w2 = now2 ->
  tr_ok (w_tr w2) = true -> t_post (w_tr w2) = 0 ->
  Forall (fun e => (q_deb q0 <= now2 - e_time e)%Z) es ->
  exists (k : nat) (q2 : qmem) (w2' : world) (h3 : handler) (w3 : world),
    k <= length es /\
    load_linq d (q_deb q0) (q_len_guess q0) o2 w2 = (Some (Some q2), w2') /\
    QRel q2 (w_fs w2') (skipn k (map qent_of es)) /\ w_fs w2' = w_fs w2 /\
    handle_timeout rev2 (set_q q2 h) o2 w2' = (Some (TPause (-1), h3), w3) /\
    QRel (h_q h3) (w_fs w3) [] /\ tr_ok (w_tr w3) = true /\
    let f3 := w_fs w3 in
    (forall e, In e es -> exists x i,
        (x = cdn cfg cpl now e 0 \/ x = cdn cfg cpl now2 e 0 \/ x = cdn cfg cpl now2 e 1) /\
        lookup f3 x = Some (NFile i) /\ f_bytes (get_file f3 i) = e_bytes e) /\
    (forall x i, lookup f0 x = Some (NFile i) -> Str.under d x = false -> i < fs_next f0 -> nj oj i ->
        lookup f3 x = Some (NFile i) /\ get_file f3 i = get_file f0 i) /\
    exists vs : entry -> list str,
      (forall e, length (vs e) <= 2) /\
      (forall e x, In x (vs e) ->
         x = cdn cfg cpl now e 0 \/ x = cdn cfg cpl now2 e 0 \/ x = cdn cfg cpl now2 e 1) /\
      (forall j e, nth_error es j = Some e -> j < k -> vs e = [cdn cfg cpl now e 0]) /\
      (forall x i, lookup f3 x = Some (NFile i) -> lookup f0 x = None ->
                   exists e, In e es /\ In x (vs e)).
Proof. exact crash_then_recover. Qed.
Print Assumptions C03_recover.

(* non-vacuity: one file queued (restart at the same second and 7 s later) and
   two files queued; each pass crashed at EVERY call index, failed with EIO at
   every call index, crashed at every call index with 2-byte transfers, then
   restarted, by evaluation; a crash between copy and pop yields two versions,
   a crash during the transfer leaves a partial file *)
Example C03_recover_hyps_hold := RecoverExample.hyps_hold.
Example C03_recover_hyps_hold2 := RecoverExample2.hyps_hold2.
Example C03_recover_crash_at_every_call := RecoverExample.crash_at_every_call.
Example C03_recover_crash_at_every_call_later := RecoverExample.crash_at_every_call_later.
Example C03_recover_short_crash_at_every_call := RecoverExample.short_crash_at_every_call.
Example C03_recover_fail_at_every_call := RecoverExample.fail_at_every_call.
Example C03_recover_two_versions := RecoverExample.two_versions.
Example C03_recover_partial_version := RecoverExample.partial_version.
Example C03_recover_crash_at_every_call2 := RecoverExample2.crash_at_every_call2.
