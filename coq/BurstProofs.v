(* C02 in the property's own shape: a BURST of accepted writes (several files,
   each possibly several times, interleaved in any order, the environment
   rewriting the files and advancing the clock in between), then ONE timeout
   pass.  For every benign oracle (no call fails, the process does not die,
   transfers may be cut into arbitrary positive pieces).

     plain_iteration_from_head   one iteration of the loop from the point where
                                 q_get_head has delivered a plain head, possibly
                                 after skipping (and removing) heads queued again behind
     plain_iteration_skip        the same, starting from a queue sk ++ (p,0,t) :: rest
                                 whose prefix sk is due and superseded
     dup_pass_loop / handle_timeout_dup_pass
                                 the pass over a queue WITH duplicates: the due
                                 part of the queue stores exactly its WINNERS (the
                                 entries whose path is not queued again behind),
                                 in queue order; the superseded entries produce
                                 nothing; generalises PassProofs.handle_timeout_plain_pass
     history_queue               a history of accepted plain writes and environment
                                 changes leaves the queue = the writes in order of acceptance
     due_prefix_closed           the times along the queue are sorted, so a due
                                 entry is never behind one that is not due
     stored_iff_quiet            the winners = one entry per path whose LAST write is due
     burst_then_pass             the composition
     Module BurstPassExample     write a, write b, rewrite a, write a, clock +; the
                                 pass stores b then a (final content), one version each *)
From K Require Import Str Dec Trace Fs World Progs Sieve Handler Linq LinqSpec LinqProofs
     DecProofs SyncProofs AbandonProofs JournalProofs QueueProofs Confine DebounceProofs
     PassProofs PassProofs2 JournalHistoryProofs AcceptProofs MemberProofs MemberBurst.
From Coq Require Import Lia.
Arguments N.add : simpl never.
Arguments N.sub : simpl never.
Arguments N.mul : simpl never.
Arguments N.of_nat : simpl never.
Arguments N.eqb : simpl never.
Arguments N.leb : simpl never.
Arguments Nat.pow : simpl never.
Arguments Nat.mul : simpl never.

(* ====================================================================== *)
(* 1. one iteration, from the point where q_get_head has answered          *)
(* ====================================================================== *)

(* PassProofs.plain_head_iteration with the call of q_get_head factored out:
   [q] and [f0] are the queue and the file system q_get_head leaves *)
Lemma plain_iteration_from_head o w h rev fuel q wb f0 p t rest i b :
  benign o -> tr_ok (w_tr w) = true ->
  q_get_head (S (N.to_nat (q_size (h_q h)))) (h_q h) o (upd_tr tr_try w) =
    (Some (Some (QReady p 0%N), q), wb) ->
  w_fs wb = f0 -> w_clock wb = w_clock w -> tr_keep (tr_try (w_tr w)) (w_tr wb) ->
  keys_nodup f0 ->
  QRel q f0 ((p, 0%N, t) :: rest) ->
  plain_ok (h_cfg h) (h_cpl h) (h_journal h) (q_dir q) f0 (w_clock w) p i b ->
  exists w',
    handle_timeout_loop (S fuel) rev h o w =
      handle_timeout_loop fuel rev (set_q (popped p q) h) o w' /\
    step_post (h_cfg h) (h_cpl h) (h_journal h) (head_name q) f0 (w_fs w') (w_clock w) p b /\
    QRel (popped p q) (w_fs w') rest /\
    keys_nodup (w_fs w') /\
    tr_keep (w_tr w) (w_tr w') /\ w_clock w' = w_clock w.
Proof.
  intros H Hok Eb Fb Cb Kb Hnd HR HP.
  destruct HP as [Pabs Plast Pcpl Pvlen Pvslash Psrc Pfile Pino Prabs Pfree Ppar Pq
                  Pofree Popar Pone Ponin Podir Pjfits Pjino].
  set (cfg := h_cfg h) in *.
  set (dst := store_name cfg (h_cpl h) (w_clock w) p) in *.
  set (offp := offset_name cfg (h_cpl h) p) in *.
  cbn [handle_timeout_loop].
  rewrite (bind_some _ _ _ _ _ _ (is_ok_eq o w)). rewrite Hok. cbn [negb].
  rewrite (bind_some _ _ _ _ _ _ (try_eq o w)).
  set (wa := upd_tr tr_try w).
  assert (Hoka : tr_ok (w_tr wa) = true) by (apply tr_try_ok; exact Hok).
  fold wa in Eb. rewrite (bind_some _ _ _ _ _ _ Eb).
  rewrite (bind_some _ _ _ _ _ _ (finally_rethrow_eq _ o wb)).
  set (wc := upd_tr (tr_finally_rethrow_static M_linq_cannot_get_head) wb).
  assert (Kc : tr_keep (w_tr w) (w_tr wc)) by (apply tr_keep_finally_rethrow; assumption).
  assert (Fc : w_fs wc = f0) by exact Fb.
  assert (Cc : w_clock wc = w_clock w) by exact Cb.
  pose proof (tr_keep_ok _ _ Kc) as Hokc.
  clearbody wc. clear Eb.
  cbv iota beta.
  rewrite (bind_some _ _ _ _ _ _ (is_ok_eq o wc)). rewrite Hokc. cbv iota.
  cbn [set_q h_cfg h_cpl h_q h_journal]. fold cfg.
  assert (Ets : get_timestamp (c_version_pattern cfg) o wc =
                (Some (Some (version_of cfg (w_clock w))), wc)).
  { unfold version_of. rewrite <- Cc. apply get_timestamp_ok; [exact Hokc|].
    rewrite Cc. exact Pvlen. }
  rewrite (bind_some _ _ _ _ _ _ Ets).
  rewrite (bind_some _ _ _ _ _ _ (is_ok_eq o wc)). rewrite Hokc. rewrite Pvslash.
  rewrite (bind_some _ _ _ _ _ _ (ret_eq tt o wc)).
  rewrite (bind_some _ _ _ _ _ _ (is_ok_eq o wc)). rewrite Hokc.
  change (N.shiftr 0 2) with 0%N. change (N.odd 0) with false.
  change (N.testbit 0 1) with false. change (shift_right2 0) with 0.
  rewrite Pabs, Plast.
  assert (Hn0 : (N.of_nat (length p) <? 0)%N = false) by (apply N.ltb_ge; lia).
  assert (Hcpl : Nat.ltb (length p) (h_cpl h) = false) by (apply Nat.ltb_ge; exact Pcpl).
  rewrite Hn0, Hcpl. cbn [negb orb andb].
  rewrite (bind_some _ _ _ _ _ _ (ret_eq 0%N o wc)).
  rewrite (bind_some _ _ _ _ _ _ (is_ok_eq o wc)). rewrite Hokc. cbn [negb].
  rewrite (bind_some _ _ _ _ _ _ (get_fs_eq o wc)).
  change (N.to_nat 0) with 0.
  fold (rel_of (h_cpl h) p). fold (offset_name cfg (h_cpl h) p). fold offp.
  set (sp := create_store_path (c_store_root cfg) (rel_of (h_cpl h) p) (version_of cfg (w_clock w))).
  assert (Edst : current_path sp = dst) by apply current_path_create.
  assert (Habs : exists r, current_path sp = ch_slash :: r).
  { rewrite Edst. destruct Prabs as [r Hr]. unfold dst, store_name. rewrite Hr.
    eexists. reflexivity. }
  set (n := dir_entry_count (w_fs wc) (dirname (current_path sp))). clearbody n.
  destruct (file_store_plain o wc cfg (S n) sp p offp i b H Hokc Habs)
    as (wd & Ed & Kd & Cd & Ld & Bd & Id & Od & Pd & Gd & Nd & NDd);
    try (rewrite Fc); try (rewrite Edst); try assumption.
  rewrite Fc in Ld, Bd, Od, Pd, Gd, Nd, NDd. rewrite Edst in Ld, Id, Od, Pd.
  rewrite (bind_some _ _ _ _ _ _ Ed). clear Ed. cbv iota beta.
  pose proof (tr_keep_ok _ _ Kd) as Hokd.
  assert (HRd : QRel q (w_fs wd) ((p, 0%N, t) :: rest)).
  { apply (QRel_frame q f0); [exact HR | |].
    - intros x Hx. apply Pd; [|exact Hx]. intros ->. exact (Hx Pfree).
    - intros k Hk. destruct (under_join_dec (q_dir q) k dst (QR_nroot _ _ _ HR) Pq) as [A B].
      rewrite Od; [exact Hk | congruence | exact B]. }
  destruct (pop_ok q p 0%N t rest o wd H Hokd (NDd Hnd) HRd)
    as (we & Ee & HRe & Fe & NDe & Ke & Ce & Le & Oe & Ge).
  rewrite (bind_some _ _ _ _ _ _ Ee). clear Ee.
  pose proof (tr_keep_ok _ _ Ke) as Hoke.
  rewrite (bind_some _ _ _ _ _ _ (is_ok_eq o we)). rewrite Hoke. cbn [negb Nat.ltb Nat.leb andb].
  rewrite (bind_some _ _ _ _ _ _ (ret_eq tt o we)).
  destruct (record_event_ok o we (c_ev_stored cfg) (rel_of (h_cpl h) p)
              (set_q (popped p q) (set_q q h)) H Hoke)
    as (wf & Ef & Kf & Cf & Jf).
  { cbn [set_q h_journal]. rewrite Ce, Cd, Cc. exact Pjfits. }
  cbn [set_q h_journal] in Jf. rewrite Ce, Cd, Cc in Jf.
  rewrite (bind_some _ _ _ _ _ _ Ef). clear Ef.
  exists wf. split; [reflexivity|].
  assert (Lf : forall x, lookup (w_fs wf) x = lookup (w_fs we) x)
    by (intros x; exact (journal_step_lookup _ _ _ _ x Jf)).
  assert (Gde : forall k, get_file (w_fs we) k = get_file (w_fs wd) k)
    by (apply get_file_ext; exact Ge).
  destruct (under_join_dec (q_dir q) (q_head q) dst (QR_nroot _ _ _ HR) Pq) as [Hhd Hhp].
  fold (head_name q) in Hhd, Hhp.
  assert (Hjn : forall jn, h_journal h = Some jn -> fs_next f0 <> j_ino jn).
  { intros jn Hj. destruct (Pjino jn Hj) as [_ Hlt]. lia. }
  split; [|split; [|split; [|split]]].
  - constructor.
    + rewrite Lf, Oe by exact Hhd. exact Ld.
    + rewrite (journal_step_file _ _ _ _ _ Jf Hjn), Gde. exact Bd.
    + intros d Hd. rewrite Lf, Oe; [exact (Id d Hd)|]. intros ->. exact (Hhp Hd).
    + rewrite Lf. exact Le.
    + intros x X1 X2 X3. rewrite Lf, (Oe x X3). exact (Od x X1 X2).
    + intros x X1 X2. rewrite Lf, (Oe x X1). apply Pd; [|exact X2]. intros ->. exact (X2 Pfree).
    + intros k K1 K2. rewrite (journal_step_file _ _ _ _ _ Jf K2), Gde. exact (Gd k K1).
    + intros jn Hj. unfold journal_step in Jf. rewrite Hj in Jf. rewrite Hj.
      destruct Jf as (A1 & A2 & _).
      assert (Ej : get_file (w_fs we) (j_ino jn) = get_file f0 (j_ino jn)).
      { rewrite Gde. apply Gd. intros E. exact (Hjn jn Hj (eq_sym E)). }
      rewrite A1, A2, Ej. split; reflexivity.
    + rewrite (journal_step_next _ _ _ _ Jf), Fe. exact Nd.
  - exact (QRel_same_dents _ _ _ _ (journal_step_dents _ _ _ _ Jf) HRe).
  - exact (journal_step_nodup _ _ _ _ Jf NDe).
  - exact (tr_keep_trans _ _ _ Kc (tr_keep_trans _ _ _ Kd (tr_keep_trans _ _ _ Ke Kf))).
  - congruence.
Qed.

(* ====================================================================== *)
(* 2. superseded heads: what q_get_head skips                              *)
(* ====================================================================== *)

(* every entry of [sk] is queued again behind it ([tail] follows [sk]) *)
Fixpoint superseded (sk tail : list qent) : Prop :=
  match sk with
  | [] => True
  | e :: sk' => occurs (qpath e) (sk' ++ tail) = true /\ superseded sk' tail
  end.

Definition due_at (now deb : Z) (e : qent) : Prop := (deb <= now - snd e)%Z.

Lemma ref_head_superseded now deb tail : forall sk,
  Forall (due_at now deb) sk -> superseded sk tail ->
  ref_head now deb (sk ++ tail) = ref_head now deb tail /\
  ref_skip now deb (sk ++ tail) = length sk + ref_skip now deb tail.
Proof.
  induction sk as [|[[p m] t] sk IH]; intros Hdue Hsup; [split; reflexivity|].
  inversion Hdue as [|? ? Hd Hdue']; subst. destruct Hsup as [Hocc Hsup].
  unfold due_at in Hd. cbn [snd] in Hd. unfold qpath in Hocc. cbn [fst] in Hocc.
  destruct (IH Hdue' Hsup) as [I1 I2].
  cbn [app ref_head ref_skip length].
  assert (E : (now - t <? deb)%Z = false) by (apply Z.ltb_ge; exact Hd).
  rewrite E, Hocc. split; [exact I1 | rewrite I2; reflexivity].
Qed.

Lemma ref_head_ready now deb p m t rest :
  (deb <= now - t)%Z -> occurs p rest = false ->
  ref_head now deb ((p, m, t) :: rest) = (HReady p m, (p, m, t) :: rest) /\
  ref_skip now deb ((p, m, t) :: rest) = 0.
Proof.
  intros Hd Hocc. cbn [ref_head ref_skip].
  assert (E : (now - t <? deb)%Z = false) by (apply Z.ltb_ge; exact Hd).
  rewrite E, Hocc. split; reflexivity.
Qed.

Lemma ref_head_pause now deb rest :
  not_due now deb rest ->
  ref_head now deb rest = (HPause (pause_of now deb rest), rest) /\ ref_skip now deb rest = 0.
Proof.
  destruct rest as [|[[p m] t] rest]; intros Hn; [split; reflexivity|].
  cbn [not_due] in Hn. cbn [ref_head ref_skip pause_of].
  assert (E : (now - t <? deb)%Z = true) by (apply Z.ltb_lt; exact Hn).
  rewrite E. split; reflexivity.
Qed.

(* ----- the file system after [k] heads have been removed ----- *)

(* f0 is f with some names of the queue directory removed *)
Record skip_rel (qdir : str) (f f0 : fs) : Prop := {
  SR_files : fs_files f0 = fs_files f;
  SR_next : fs_next f0 = fs_next f;
  SR_out : forall x, Str.under qdir x = false -> lookup f0 x = lookup f x;
  SR_none : forall x, lookup f x = None -> lookup f0 x = None
}.

Lemma skip_rel_refl qdir f : skip_rel qdir f f.
Proof. constructor; auto. Qed.

Lemma lookup_del_dent_none f y x : lookup f x = None -> lookup (del_dent y f) x = None.
Proof.
  unfold lookup, del_dent. cbn [fs_dents]. destruct (str_eqb x root_path); [discriminate|].
  induction (fs_dents f) as [|[k v] l IH]; cbn [alookup aremove]; [reflexivity|].
  destruct (str_eqb x k) eqn:Exk; [discriminate|]. intros Hx.
  destruct (str_eqb y k); [exact Hx|]. cbn [alookup]. rewrite Exk. exact (IH Hx).
Qed.

Lemma del_heads_skip_rel d : d <> root_path -> forall k h f, skip_rel d f (del_heads d h k f).
Proof.
  intros Hd. induction k as [|k IH]; intros h f; cbn [del_heads]; [apply skip_rel_refl|].
  destruct (IH (h + 1)%N (del_dent (join d (dec h)) f)) as [A1 A2 A3 A4].
  constructor.
  - rewrite A1. reflexivity.
  - rewrite A2. reflexivity.
  - intros x Hx. rewrite (A3 x Hx). apply lookup_del_dent_other.
    intros ->. rewrite (under_join d (dec h) Hd) in Hx. discriminate.
  - intros x Hx. apply A4. apply lookup_del_dent_none. exact Hx.
Qed.

(* the hypotheses on the entries to come survive the removal of queue links *)
Lemma all_ok_del cfg cpl oj qdir f x tg tm now :
  keys_nodup f -> lookup f x = Some (NLink tg tm) -> forall es,
  all_ok cfg cpl oj qdir f now es -> all_ok cfg cpl oj qdir (del_dent x f) now es.
Proof.
  intros Hnd Hx. induction es as [|e es IH]; intros Hall; [exact I|].
  destruct Hall as [Hp [Hi Hall]].
  split; [apply (plain_ok_del f x tg tm Hx); exact Hp|].
  split; [exact Hi | exact (IH Hall)].
Qed.

Lemma all_ok_del_heads cfg cpl oj qdir d now es : forall k h f,
  keys_nodup f ->
  (forall i, i < k -> exists tg tm, lookup f (join d (dec (h + N.of_nat i))) = Some (NLink tg tm)) ->
  all_ok cfg cpl oj qdir f now es -> all_ok cfg cpl oj qdir (del_heads d h k f) now es.
Proof.
  induction k as [|k IH]; intros h f Hnd Hl Hall; cbn [del_heads]; [exact Hall|].
  destruct (Hl 0 ltac:(lia)) as (tg & tm & H0).
  change (N.of_nat 0) with 0%N in H0. rewrite N.add_0_r in H0.
  apply IH.
  - apply keys_nodup_del. exact Hnd.
  - intros i Hi. destruct (Hl (S i) ltac:(lia)) as (tg' & tm' & Hi').
    exists tg', tm'. rewrite lookup_del_dent_other.
    + replace (h + 1 + N.of_nat i)%N with (h + N.of_nat (S i))%N by lia. exact Hi'.
    + intros E. apply join_dec_inj in E. lia.
  - exact (all_ok_del _ _ _ _ _ _ _ _ _ Hnd H0 es Hall).
Qed.

(* the first [k] entries of a queue are links *)
Lemma QRel_links q f ents k : QRel q f ents -> k <= length ents ->
  forall i, i < k -> exists tg tm,
    lookup f (join (q_dir q) (dec (q_head q + N.of_nat i))) = Some (NLink tg tm).
Proof.
  intros HR Hk i Hi.
  destruct (nth_error ents i) as [[[p m] t]|] eqn:E.
  - exists (encode m p), t. exact (QR_ent _ _ _ HR i p m t E).
  - apply nth_error_None in E. lia.
Qed.

(* ----- q_get_head on a queue whose head region is superseded ----- *)

(* ... and the first entry that is not superseded is due: it is delivered *)
Lemma get_head_skips_ready o q w sk p m t rest :
  benign o -> tr_ok (w_tr w) = true -> keys_nodup (w_fs w) ->
  QRel q (w_fs w) (sk ++ (p, m, t) :: rest) ->
  Forall (due_at (w_clock w) (q_deb q)) sk -> superseded sk ((p, m, t) :: rest) ->
  (q_deb q <= w_clock w - t)%Z -> occurs p rest = false ->
  exists q' w',
    q_get_head (S (N.to_nat (q_size q))) q o w = (Some (Some (QReady p m), q'), w') /\
    QRel q' (w_fs w') ((p, m, t) :: rest) /\
    w_fs w' = del_heads (q_dir q) (q_head q) (length sk) (w_fs w) /\
    keys_nodup (w_fs w') /\ tr_keep (w_tr w) (w_tr w') /\ w_clock w' = w_clock w /\
    q_dir q' = q_dir q /\ q_deb q' = q_deb q /\ q_len_guess q' = q_len_guess q.
Proof.
  intros H Hok Hnd HR Hdue Hsup Hd Hocc.
  assert (Hfuel : length (sk ++ (p, m, t) :: rest) <= S (N.to_nat (q_size q))).
  { rewrite (QR_size _ _ _ HR), Nat2N.id. lia. }
  destruct (get_head_ok o H _ _ q w Hok Hnd HR Hfuel)
    as (r & q' & w' & E & Hr & HR' & F' & Hnd' & K' & C' & D1 & D2 & D3).
  destruct (ref_head_superseded (w_clock w) (q_deb q) ((p, m, t) :: rest) sk Hdue Hsup) as [R1 R2].
  destruct (ref_head_ready (w_clock w) (q_deb q) p m t rest Hd Hocc) as [R3 R4].
  rewrite R1, R3 in Hr, HR'. rewrite R2, R4, Nat.add_0_r in F'. cbn [fst snd] in Hr, HR'.
  destruct r as [z|p' m']; cbn [hres] in Hr; [discriminate|]. injection Hr as -> ->.
  exists q', w'. auto 12.
Qed.

(* ... and what follows is not due (or nothing follows): pause *)
Lemma get_head_skips_pause o q w sk rest :
  benign o -> tr_ok (w_tr w) = true -> keys_nodup (w_fs w) ->
  QRel q (w_fs w) (sk ++ rest) ->
  Forall (due_at (w_clock w) (q_deb q)) sk -> superseded sk rest ->
  not_due (w_clock w) (q_deb q) rest ->
  exists q' w',
    q_get_head (S (N.to_nat (q_size q))) q o w =
      (Some (Some (QPause (pause_of (w_clock w) (q_deb q) rest)), q'), w') /\
    QRel q' (w_fs w') rest /\
    w_fs w' = del_heads (q_dir q) (q_head q) (length sk) (w_fs w) /\
    keys_nodup (w_fs w') /\ tr_keep (w_tr w) (w_tr w') /\ w_clock w' = w_clock w /\
    q_dir q' = q_dir q /\ q_deb q' = q_deb q /\ q_len_guess q' = q_len_guess q.
Proof.
  intros H Hok Hnd HR Hdue Hsup Hstop.
  assert (Hfuel : length (sk ++ rest) <= S (N.to_nat (q_size q))).
  { rewrite (QR_size _ _ _ HR), Nat2N.id. lia. }
  destruct (get_head_ok o H _ _ q w Hok Hnd HR Hfuel)
    as (r & q' & w' & E & Hr & HR' & F' & Hnd' & K' & C' & D1 & D2 & D3).
  destruct (ref_head_superseded (w_clock w) (q_deb q) rest sk Hdue Hsup) as [R1 R2].
  destruct (ref_head_pause (w_clock w) (q_deb q) rest Hstop) as [R3 R4].
  rewrite R1, R3 in Hr, HR'. rewrite R2, R4, Nat.add_0_r in F'. cbn [fst snd] in Hr, HR'.
  destruct r as [z|p' m']; cbn [hres] in Hr; [|discriminate]. injection Hr as ->.
  exists q', w'. auto 12.
Qed.

(* ====================================================================== *)
(* 3. the iteration on sk ++ (p,0,t) :: rest, and the last iteration        *)
(* ====================================================================== *)

Lemma plain_iteration_skip o w h rev fuel sk p t rest i b :
  benign o -> tr_ok (w_tr w) = true -> keys_nodup (w_fs w) ->
  QRel (h_q h) (w_fs w) (sk ++ (p, 0%N, t) :: rest) ->
  Forall (due_at (w_clock w) (q_deb (h_q h))) sk -> superseded sk ((p, 0%N, t) :: rest) ->
  (q_deb (h_q h) <= w_clock w - t)%Z -> occurs p rest = false ->
  let f0 := del_heads (q_dir (h_q h)) (q_head (h_q h)) (length sk) (w_fs w) in
  plain_ok (h_cfg h) (h_cpl h) (h_journal h) (q_dir (h_q h)) f0 (w_clock w) p i b ->
  exists q' w',
    handle_timeout_loop (S fuel) rev h o w =
      handle_timeout_loop fuel rev (set_q (popped p q') h) o w' /\
    q_dir q' = q_dir (h_q h) /\ q_deb q' = q_deb (h_q h) /\ q_len_guess q' = q_len_guess (h_q h) /\
    step_post (h_cfg h) (h_cpl h) (h_journal h) (head_name q') f0 (w_fs w') (w_clock w) p b /\
    lookup f0 (head_name q') = Some (NLink (encode 0%N p) t) /\
    QRel (popped p q') (w_fs w') rest /\
    keys_nodup (w_fs w') /\
    tr_keep (w_tr w) (w_tr w') /\ w_clock w' = w_clock w.
Proof.
  intros H Hok Hnd HR Hdue Hsup Hd Hocc f0 HP.
  set (wa := upd_tr tr_try w).
  assert (Hoka : tr_ok (w_tr wa) = true) by (apply tr_try_ok; exact Hok).
  destruct (get_head_skips_ready o (h_q h) wa sk p 0%N t rest H Hoka Hnd HR Hdue Hsup Hd Hocc)
    as (q' & wb & Eb & HRb & Fb & Hndb & Kb & Cb & D1 & D2 & D3).
  change (w_fs wa) with (w_fs w) in Fb. fold f0 in Fb.
  change (w_clock wa) with (w_clock w) in Cb. change (w_tr wa) with (tr_try (w_tr w)) in Kb.
  rewrite Fb in HRb, Hndb.
  destruct (plain_iteration_from_head o w h rev fuel q' wb f0 p t rest i b H Hok Eb Fb Cb Kb Hndb HRb)
    as (w' & E & SP & HR' & Hnd' & K' & C').
  { rewrite D1. exact HP. }
  exists q', w'. split; [exact E|]. split; [exact D1|]. split; [exact D2|]. split; [exact D3|].
  split; [exact SP|]. split; [exact (QRel_head _ _ _ _ _ _ HRb)|]. auto.
Qed.

(* the last iteration of a pass: superseded due heads are removed, then pause *)
Lemma pass_stops_skip o w h rev fuel sk rest :
  benign o -> tr_ok (w_tr w) = true -> keys_nodup (w_fs w) ->
  QRel (h_q h) (w_fs w) (sk ++ rest) ->
  Forall (due_at (w_clock w) (q_deb (h_q h))) sk -> superseded sk rest ->
  not_due (w_clock w) (q_deb (h_q h)) rest ->
  exists q' w',
    handle_timeout_loop (S fuel) rev h o w =
      (Some (TPause (pause_of (w_clock w) (q_deb (h_q h)) rest), set_q q' h), w') /\
    q_dir q' = q_dir (h_q h) /\ q_deb q' = q_deb (h_q h) /\ q_len_guess q' = q_len_guess (h_q h) /\
    w_fs w' = del_heads (q_dir (h_q h)) (q_head (h_q h)) (length sk) (w_fs w) /\
    QRel q' (w_fs w') rest /\ keys_nodup (w_fs w') /\
    tr_keep (w_tr w) (w_tr w') /\ w_clock w' = w_clock w.
Proof.
  intros H Hok Hnd HR Hdue Hsup Hstop.
  set (wa := upd_tr tr_try w).
  assert (Hoka : tr_ok (w_tr wa) = true) by (apply tr_try_ok; exact Hok).
  destruct (get_head_skips_pause o (h_q h) wa sk rest H Hoka Hnd HR Hdue Hsup Hstop)
    as (q' & wb & Eb & HRb & Fb & Hndb & Kb & Cb & D1 & D2 & D3).
  change (w_fs wa) with (w_fs w) in Fb.
  change (w_clock wa) with (w_clock w) in Cb, Eb. change (w_tr wa) with (tr_try (w_tr w)) in Kb.
  cbn [handle_timeout_loop].
  rewrite (bind_some _ _ _ _ _ _ (is_ok_eq o w)). rewrite Hok. cbn [negb].
  rewrite (bind_some _ _ _ _ _ _ (try_eq o w)). fold wa.
  rewrite (bind_some _ _ _ _ _ _ Eb).
  rewrite (bind_some _ _ _ _ _ _ (finally_rethrow_eq _ o wb)).
  set (wc := upd_tr (tr_finally_rethrow_static M_linq_cannot_get_head) wb).
  assert (Kc : tr_keep (w_tr w) (w_tr wc)) by (apply tr_keep_finally_rethrow; assumption).
  cbv iota beta.
  rewrite (bind_some _ _ _ _ _ _ (is_ok_eq o wc)). rewrite (tr_keep_ok _ _ Kc). cbv iota.
  unfold ret_. exists q', wc. split; [reflexivity|].
  split; [exact D1|]. split; [exact D2|]. split; [exact D3|].
  split; [exact Fb|]. split; [exact HRb|]. split; [exact Hndb|]. split; [exact Kc | exact Cb].
Qed.

(* ====================================================================== *)
(* 4. the winners of a queue with duplicates                               *)
(* ====================================================================== *)

(* the entries of the due part [due] whose path is not queued again behind
   them ([rest] = what follows the due part): the ones a pass stores *)
Fixpoint winners (due rest : list qent) : list qent :=
  match due with
  | [] => []
  | e :: d' => if occurs (qpath e) (d' ++ rest) then winners d' rest else e :: winners d' rest
  end.

Lemma winners_nil_inv rest : forall due, winners due rest = [] -> superseded due rest.
Proof.
  induction due as [|e due IH]; intros Hw; [exact I|]. cbn [winners] in Hw.
  destruct (occurs (qpath e) (due ++ rest)) eqn:Eo; [|discriminate].
  split; [exact Eo | exact (IH Hw)].
Qed.

Lemma winners_cons_inv rest x xs : forall due, winners due rest = x :: xs ->
  exists sk d', due = sk ++ x :: d' /\ superseded sk (x :: d' ++ rest) /\
                occurs (qpath x) (d' ++ rest) = false /\ winners d' rest = xs.
Proof.
  induction due as [|e due IH]; intros Hw; [discriminate|]. cbn [winners] in Hw.
  destruct (occurs (qpath e) (due ++ rest)) eqn:Eo.
  - destruct (IH Hw) as (sk & d' & -> & Hs & Ho & Hx).
    exists (e :: sk), d'. split; [reflexivity|]. split; [|split; assumption].
    split; [|exact Hs]. rewrite <- app_assoc in Eo. exact Eo.
  - injection Hw as <- <-. exists [], due. split; [reflexivity|]. split; [exact I|].
    split; [exact Eo | reflexivity].
Qed.

(* without duplicates every due entry is a winner: PassProofs.last_writes *)
Lemma winners_last_writes es rest : last_writes es rest -> winners (map qent_of es) rest = map qent_of es.
Proof.
  induction es as [|e es IH]; intros Hl; [reflexivity|]. destruct Hl as [Ho Hl].
  cbn [map winners]. unfold qent_of at 1. unfold qpath. cbn [fst]. rewrite Ho, (IH Hl). reflexivity.
Qed.

(* ====================================================================== *)
(* 5. what the pass leaves, relative to the file system before it          *)
(* ====================================================================== *)

Record pass_facts (cfg : config) (cpl : nat) (oj : option journal) (qdir : str) (now : Z)
       (f : fs) (es : list entry) (f' : fs) : Prop := {
  (* inode numbers are handed out in the order of the winners *)
  PF_next : fs_next f' = fs_next f + length es;
  (* names outside the queue directory that existed are untouched *)
  PF_out : forall x, lookup f x <> None -> Str.under qdir x = false -> lookup f' x = lookup f x;
  (* so is every old inode but the journal *)
  PF_files : forall k, k < fs_next f -> (forall jn, oj = Some jn -> k <> j_ino jn) ->
                       get_file f' k = get_file f k;
  (* the k-th winner has its version, with its content *)
  PF_ver : forall k e, nth_error es k = Some e ->
     lookup f' (store_name cfg cpl now (e_path e)) = Some (NFile (fs_next f + k)) /\
     f_bytes (get_file f' (fs_next f + k)) = e_bytes e;
  (* and these are the only new files *)
  PF_only : forall x i', lookup f' x = Some (NFile i') -> lookup f x = None ->
     exists e, In e es /\ x = store_name cfg cpl now (e_path e);
  (* the journal is appended to: one line per winner, in order *)
  PF_journal : forall jn, oj = Some jn ->
     f_bytes (get_file f' (j_ino jn)) = f_bytes (get_file f (j_ino jn)) ++ jlines cfg cpl oj now es
}.

Lemma pass_facts_nil cfg cpl oj qdir now f f' : skip_rel qdir f f' -> pass_facts cfg cpl oj qdir now f [] f'.
Proof.
  intros [A1 A2 A3 A4]. constructor.
  - cbn [length]. lia.
  - intros x _ Hu. exact (A3 x Hu).
  - intros k _ _. apply get_file_ext. exact A1.
  - intros k e Hk. destruct k; discriminate.
  - intros x i' A B. rewrite (A4 x B) in A. discriminate.
  - intros jn _. unfold jlines. cbn [map concat]. rewrite app_nil_r.
    rewrite (get_file_ext _ _ A1). reflexivity.
Qed.

Lemma pass_facts_cons cfg cpl oj qdir now hname f f0 f1 f' e es :
  Str.under qdir hname = true ->
  skip_rel qdir f f0 ->
  step_post cfg cpl oj hname f0 f1 now (e_path e) (e_bytes e) ->
  Str.under qdir (store_name cfg cpl now (e_path e)) = false ->
  (forall jn, oj = Some jn -> j_ino jn < fs_next f) ->
  pass_facts cfg cpl oj qdir now f1 es f' ->
  pass_facts cfg cpl oj qdir now f (e :: es) f'.
Proof.
  intros Hhn [A1 A2 A3 A4] [Sdst Sbytes Spar Shead Sother Sexist Sfiles Sjournal Snext] Hue Hj
         [N X G V W J].
  set (dst := store_name cfg cpl now (e_path e)) in *.
  assert (G00 : forall k, get_file f0 k = get_file f k) by (apply get_file_ext; exact A1).
  assert (X0 : forall x, lookup f x <> None -> Str.under qdir x = false -> lookup f1 x = lookup f x).
  { intros x A B. rewrite <- (A3 x B). apply Sexist; [intros ->; congruence|].
    rewrite (A3 x B). exact A. }
  assert (G0 : forall k, k < fs_next f -> (forall jn, oj = Some jn -> k <> j_ino jn) ->
                         get_file f1 k = get_file f k).
  { intros k A B. rewrite <- G00. apply Sfiles; [lia | exact B]. }
  constructor.
  - rewrite N, Snext, A2. cbn [length]. lia.
  - intros x A B. rewrite X; [exact (X0 x A B) | rewrite (X0 x A B); exact A | exact B].
  - intros k A B. rewrite G; [exact (G0 k A B) | rewrite Snext; lia | exact B].
  - intros k e0 Hk. destruct k as [|k].
    + cbn [nth_error] in Hk. injection Hk as <-. rewrite Nat.add_0_r. fold dst. rewrite <- A2.
      split.
      * rewrite X; [exact Sdst | congruence | exact Hue].
      * rewrite G; [exact Sbytes | rewrite Snext; lia|].
        intros jn E. specialize (Hj jn E). lia.
    + cbn [nth_error] in Hk. destruct (V k e0 Hk) as [V1 V2].
      rewrite Snext, A2 in V1, V2. rewrite Nat.add_succ_r. split; assumption.
  - intros x i' A B. pose proof (A4 x B) as B0.
    destruct (lookup f1 x) as [nd|] eqn:E1.
    + destruct (str_eqb_spec x dst) as [->|Hxd]; [exists e; split; [left; reflexivity | reflexivity]|].
      exfalso.
      destruct (str_in_dec x (parents_of dst)) as [Hin|Hnin].
      * assert (Hux : Str.under qdir x = false).
        { destruct (Str.under qdir x) eqn:Eu; [|reflexivity].
          pose proof (under_ancestor _ _ _ Eu (parents_of_prefix _ _ Hin)) as Hd.
          fold dst in Hue. congruence. }
        pose proof (Spar x Hin) as E2.
        rewrite X in A; [congruence | congruence | exact Hux].
      * destruct (str_eqb_spec x hname) as [->|Hxh]; [congruence|].
        rewrite (Sother x Hxd Hnin Hxh) in E1. congruence.
    + destruct (W x i' A E1) as (e0 & Hin & Hx). exists e0. split; [right; exact Hin | exact Hx].
  - intros jn E. rewrite (J jn E). destruct (Sjournal jn E) as [S1 _]. rewrite S1, G00.
    unfold jlines. cbn [map concat]. rewrite app_assoc. reflexivity.
Qed.

(* ====================================================================== *)
(* 6. the pass over a queue with duplicates                                *)
(* ====================================================================== *)

Lemma set_q_set_q q1 q2 h : set_q q2 (set_q q1 h) = set_q q2 h.
Proof. reflexivity. Qed.

Theorem dup_pass_loop o rev : benign o -> forall es due rest fuel h w,
  tr_ok (w_tr w) = true -> keys_nodup (w_fs w) ->
  QRel (h_q h) (w_fs w) (due ++ rest) ->
  Forall (due_at (w_clock w) (q_deb (h_q h))) due ->          (* the prefix is due *)
  not_due (w_clock w) (q_deb (h_q h)) rest ->                 (* what follows is not *)
  map qent_of es = winners due rest ->                        (* the entries that are last writes *)
  all_ok (h_cfg h) (h_cpl h) (h_journal h) (q_dir (h_q h)) (w_fs w) (w_clock w) es ->
  length es < fuel ->
  exists qf w',
    handle_timeout_loop fuel rev h o w =
      (Some (TPause (pause_of (w_clock w) (q_deb (h_q h)) rest), set_q qf h), w') /\
    q_dir qf = q_dir (h_q h) /\ q_deb qf = q_deb (h_q h) /\ q_len_guess qf = q_len_guess (h_q h) /\
    pass_facts (h_cfg h) (h_cpl h) (h_journal h) (q_dir (h_q h)) (w_clock w) (w_fs w) es (w_fs w') /\
    QRel qf (w_fs w') rest /\ keys_nodup (w_fs w') /\
    tr_keep (w_tr w) (w_tr w') /\ w_clock w' = w_clock w.
Proof.
  intros H. induction es as [|e es IH]; intros due rest fuel h w Hok Hnd HR Hdue Hstop Hwin Hall Hfuel.
  - destruct fuel as [|fuel]; [cbn [length] in Hfuel; lia|].
    cbn [map] in Hwin. symmetry in Hwin. apply winners_nil_inv in Hwin.
    destruct (pass_stops_skip o w h rev fuel due rest H Hok Hnd HR Hdue Hwin Hstop)
      as (q' & w' & E & D1 & D2 & D3 & F' & HR' & Hnd' & K' & C').
    exists q', w'. split; [exact E|]. split; [exact D1|]. split; [exact D2|]. split; [exact D3|].
    split; [|auto].
    apply pass_facts_nil. rewrite F'. apply del_heads_skip_rel. exact (QR_nroot _ _ _ HR).
  - destruct fuel as [|fuel]; [cbn [length] in Hfuel; lia|].
    cbn [map] in Hwin. symmetry in Hwin.
    destruct (winners_cons_inv rest _ _ due Hwin) as (sk & d' & -> & Hsup & Hocc & Hwin').
    change (qent_of e) with (e_path e, 0%N, e_time e) in Hsup, Hocc, HR, Hdue.
    change (qpath (e_path e, 0%N, e_time e)) with (e_path e) in Hocc.
    rewrite <- app_assoc in HR. cbn [app] in HR.
    apply Forall_app in Hdue. destruct Hdue as [Hdsk Hdue]. inversion Hdue as [|? ? Hde Hdue']; subst.
    unfold due_at in Hde. cbn [snd] in Hde.
    pose proof (QR_nroot _ _ _ HR) as Hnr.
    set (f0 := del_heads (q_dir (h_q h)) (q_head (h_q h)) (length sk) (w_fs w)).
    assert (Hall0 : all_ok (h_cfg h) (h_cpl h) (h_journal h) (q_dir (h_q h)) f0 (w_clock w) (e :: es)).
    { apply all_ok_del_heads; [exact Hnd | | exact Hall].
      apply (QRel_links _ _ _ _ HR). rewrite app_length. lia. }
    pose proof Hall0 as [Hp0 [Hind0 _]].
    destruct (plain_iteration_skip o w h rev fuel sk (e_path e) (e_time e) (d' ++ rest) (e_ino e) (e_bytes e)
                H Hok Hnd HR Hdsk Hsup Hde Hocc Hp0)
      as (q' & w1 & E1 & D1 & D2 & D3 & S1 & Hh1 & HR1 & Hnd1 & K1 & C1).
    fold f0 in S1, Hh1.
    set (h1 := set_q (popped (e_path e) q') h) in *.
    assert (Eq1 : q_dir (h_q h1) = q_dir (h_q h)) by exact D1.
    assert (Ed1 : q_deb (h_q h1) = q_deb (h_q h)) by exact D2.
    assert (Eg1 : q_len_guess (h_q h1) = q_len_guess (h_q h)) by exact D3.
    assert (Hall1 : all_ok (h_cfg h1) (h_cpl h1) (h_journal h1) (q_dir (h_q h1)) (w_fs w1) (w_clock w1) es).
    { rewrite C1, Eq1. exact (all_ok_step _ _ _ _ _ _ _ _ _ _ _ _ S1 Hh1 Hall0). }
    assert (Hdue1 : Forall (due_at (w_clock w1) (q_deb (h_q h1))) d') by (rewrite C1, Ed1; exact Hdue').
    assert (Hstop1 : not_due (w_clock w1) (q_deb (h_q h1)) rest) by (rewrite C1, Ed1; exact Hstop).
    assert (Hfuel1 : length es < fuel) by (cbn [length] in Hfuel; lia).
    destruct (IH d' rest fuel h1 w1 (tr_keep_ok _ _ K1) Hnd1 HR1 Hdue1 Hstop1 (eq_sym Hwin') Hall1 Hfuel1)
      as (qf & w' & E & F1 & F2 & F3 & PF & HR' & Hnd' & K' & C').
    rewrite C1, Ed1 in E. rewrite C1, Eq1 in PF.
    change (h_cfg h1) with (h_cfg h) in PF. change (h_cpl h1) with (h_cpl h) in PF.
    change (h_journal h1) with (h_journal h) in PF.
    unfold h1 in E at 2. rewrite set_q_set_q in E.
    exists qf, w'. split; [rewrite E1; exact E|].
    split; [congruence|]. split; [congruence|]. split; [congruence|].
    split.
    { apply (pass_facts_cons _ _ _ _ _ (head_name q') (w_fs w) f0 (w_fs w1)).
      - unfold head_name. rewrite D1. apply under_join. exact Hnr.
      - apply del_heads_skip_rel. exact Hnr.
      - exact S1.
      - exact (PO_dst_q _ _ _ _ _ _ _ _ _ Hp0).
      - apply (all_ok_jino _ _ _ _ _ _ _ Hall). discriminate.
      - exact PF. }
    split; [exact HR'|]. split; [exact Hnd'|].
    split; [exact (tr_keep_trans _ _ _ K1 K') | congruence].
Qed.
Print Assumptions dup_pass_loop.

(* "a pass over a queue whose due part consists of plain entries, some of them
   written again later, stores exactly one version for each WINNER (each entry
   that is the last write of its path), in queue order; the superseded entries
   are removed and produce nothing; the queue is then the part that is not due" *)
Theorem handle_timeout_dup_pass o rev es due rest h w :
  benign o ->
  tr_ok (w_tr w) = true -> keys_nodup (w_fs w) ->
  QRel (h_q h) (w_fs w) (due ++ rest) ->
  Forall (due_at (w_clock w) (q_deb (h_q h))) due ->
  not_due (w_clock w) (q_deb (h_q h)) rest ->
  map qent_of es = winners due rest ->
  all_ok (h_cfg h) (h_cpl h) (h_journal h) (q_dir (h_q h)) (w_fs w) (w_clock w) es ->
  exists qf w',
    handle_timeout rev h o w =
      (Some (TPause (pause_of (w_clock w) (q_deb (h_q h)) rest), set_q qf h), w') /\
    q_dir qf = q_dir (h_q h) /\ q_deb qf = q_deb (h_q h) /\ q_len_guess qf = q_len_guess (h_q h) /\
    pass_facts (h_cfg h) (h_cpl h) (h_journal h) (q_dir (h_q h)) (w_clock w) (w_fs w) es (w_fs w') /\
    QRel qf (w_fs w') rest /\ keys_nodup (w_fs w') /\
    tr_ok (w_tr w') = true /\ (t_post (w_tr w) = 0 -> w_tr w' = w_tr w) /\
    w_clock w' = w_clock w.
Proof.
  intros H Hok Hnd HR Hdue Hstop Hwin Hall.
  assert (Hlen : length (winners due rest) <= length due).
  { clear. induction due as [|e due IH]; cbn [winners length]; [lia|].
    destruct (occurs _ _); cbn [length]; lia. }
  assert (Hfuel : length es < S (S (N.to_nat (q_size (h_q h))))).
  { rewrite (QR_size _ _ _ HR), Nat2N.id, app_length.
    rewrite <- (map_length qent_of es), Hwin. lia. }
  destruct (dup_pass_loop o rev H es due rest _ h w Hok Hnd HR Hdue Hstop Hwin Hall Hfuel)
    as (qf & w' & E & D1 & D2 & D3 & PF & HR' & Hnd' & [K1 K2] & C').
  unfold handle_timeout.
  rewrite (bind_some _ _ _ _ _ _ E).
  rewrite (bind_some _ _ _ _ _ _ (is_ok_eq o w')). rewrite K1. unfold ret_.
  exists qf, w'. split; [reflexivity|]. auto 12.
Qed.
Print Assumptions handle_timeout_dup_pass.

(* ====================================================================== *)
(* 7. histories: accepted plain writes interleaved with the environment    *)
(* ====================================================================== *)

(* a step of a history: klunok handles the close-after-write event of [path]
   (written by [pid]), or the environment (editors, other processes, time)
   replaces the world by [w2] *)
Inductive step :=
| Write (pid : N) (path : str) (nc : option config)
| Env (w2 : world).

(* side conditions of an accepted plain write (those of AcceptProofs.accept_write_plain):
   the policy says "queue it, no history, no project"; it is not the
   configuration file; the time stamp of the journal line is a file name; the
   path is one the kernel produces and its link target fits the read buffer *)
Record write_ok (h : handler) (now : Z) (pid : N) (path : str) : Prop := {
  WO_dec : push_decision (c_rules (h_cfg h)) (h_cpl h) (pid_mem pid (h_pids h)) path = (true, false, None);
  WO_cfg : h_cfg_path h <> Some path;
  WO_jfits : journal_fits (h_journal h) (c_ev_write_by_editor (h_cfg h)) now;
  WO_normal : normal path;
  WO_fits : fits (q_len_guess (h_q h)) (path, 0%N, now)
}.

(* side conditions of an environment step: the queue directory is left alone,
   no error is pending, the clock does not move backwards *)
Record env_ok (q : qmem) (w w2 : world) : Prop := {
  EO_queue : queue_untouched q (w_fs w) (w_fs w2);
  EO_tr : tr_ok (w_tr w2) = true;
  EO_clock : (w_clock w <= w_clock w2)%Z
}.

(* running a history *)
Fixpoint run (o : oracle) (s : list step) (h : handler) (w : world) : option handler * world :=
  match s with
  | [] => (Some h, w)
  | Write pid path nc :: s' =>
      match handle_close_write pid path nc h o w with
      | (Some h1, w1) => run o s' h1 w1
      | (None, w1) => (None, w1)
      end
  | Env w2 :: s' => run o s' h w2
  end.

(* the side conditions hold at every step along the run *)
Fixpoint hist_ok (o : oracle) (s : list step) (h : handler) (w : world) : Prop :=
  match s with
  | [] => True
  | Write pid path nc :: s' =>
      write_ok h (w_clock w) pid path /\
      forall h1 w1, handle_close_write pid path nc h o w = (Some h1, w1) -> hist_ok o s' h1 w1
  | Env w2 :: s' => env_ok (h_q h) w w2 /\ hist_ok o s' h w2
  end.

(* what the history should leave in the queue: one plain entry per write, in
   order of acceptance, stamped with the clock of the write *)
Fixpoint accepted (now : Z) (s : list step) : list qent :=
  match s with
  | [] => []
  | Write _ path _ :: s' => (path, 0%N, now) :: accepted now s'
  | Env w2 :: s' => accepted (w_clock w2) s'
  end.

Fixpoint pushes (s : list step) (q : qmem) : qmem :=
  match s with
  | [] => q
  | Write _ path _ :: s' => pushes s' (pushed path q)
  | Env _ :: s' => pushes s' q
  end.

Fixpoint clock_after (now : Z) (s : list step) : Z :=
  match s with
  | [] => now
  | Write _ _ _ :: s' => clock_after now s'
  | Env w2 :: s' => clock_after (w_clock w2) s'
  end.

Fixpoint clock_mono (now : Z) (s : list step) : Prop :=
  match s with
  | [] => True
  | Write _ _ _ :: s' => clock_mono now s'
  | Env w2 :: s' => (now <= w_clock w2)%Z /\ clock_mono (w_clock w2) s'
  end.

Lemma pushes_dir s : forall q, q_dir (pushes s q) = q_dir q.
Proof. induction s as [|[pid p nc|w2] s IH]; intros q; cbn [pushes]; [reflexivity| |]; rewrite IH; reflexivity. Qed.
Lemma pushes_deb s : forall q, q_deb (pushes s q) = q_deb q.
Proof. induction s as [|[pid p nc|w2] s IH]; intros q; cbn [pushes]; [reflexivity| |]; rewrite IH; reflexivity. Qed.
Lemma pushes_guess s : forall q, q_len_guess (pushes s q) = q_len_guess q.
Proof. induction s as [|[pid p nc|w2] s IH]; intros q; cbn [pushes]; [reflexivity| |]; rewrite IH; reflexivity. Qed.

(* "the queue then refines exactly the list of (path, 0, time of that write) in
   order of acceptance" -- from any queue [ents0] *)
Theorem history_queue o : benign o -> forall s h w ents0,
  tr_ok (w_tr w) = true -> QRel (h_q h) (w_fs w) ents0 -> hist_ok o s h w ->
  exists w',
    run o s h w = (Some (set_q (pushes s (h_q h)) h), w') /\
    QRel (pushes s (h_q h)) (w_fs w') (ents0 ++ accepted (w_clock w) s) /\
    tr_ok (w_tr w') = true /\ w_clock w' = clock_after (w_clock w) s /\
    clock_mono (w_clock w) s.
Proof.
  intros H. induction s as [|[pid path nc|w2] s IH]; intros h w ents0 Hok HR Hs.
  - exists w. cbn [run pushes accepted clock_after clock_mono]. rewrite set_q_self, app_nil_r. auto.
  - destruct Hs as [[Wd Wc Wj Wn Wf] Hs].
    change 0%N with (linq_meta false None) in Wf.
    destruct (accept_write_plain o w h pid path nc ents0 false H Hok HR Wd Wc Wj Wn Wf)
      as (w1 & E1 & HR1 & _ & _ & T1 & _ & C1 & _).
    cbv zeta in *. change (linq_meta false None) with 0%N in HR1.
    specialize (Hs _ _ E1).
    set (h1 := set_q (pushed path (h_q h)) h) in *.
    destruct (IH h1 w1 (ents0 ++ [(path, 0%N, w_clock w)]) T1 HR1 Hs) as (w' & E & HR' & T' & C' & M').
    exists w'. cbn [run pushes accepted clock_after clock_mono]. rewrite E1.
    rewrite C1, <- app_assoc in HR'. rewrite C1 in C', M'.
    split; [exact E|]. auto.
  - destruct Hs as [[Eq Et Ec] Hs].
    destruct (IH h w2 ents0 Et (QRel_env _ _ _ _ HR Eq) Hs) as (w' & E & HR' & T' & C' & M').
    exists w'. cbn [run pushes accepted clock_after clock_mono]. auto 10.
Qed.
Print Assumptions history_queue.

(* ----- the times along the queue ----- *)

Lemma accepted_bounds s : forall now, clock_mono now s ->
  forall e, In e (accepted now s) -> (now <= snd e)%Z /\ (snd e <= clock_after now s)%Z.
Proof.
  assert (Hca : forall s now, clock_mono now s -> (now <= clock_after now s)%Z).
  { clear s. induction s as [|[pid p nc|w2] s IH]; intros now Hm; cbn [clock_after clock_mono] in Hm |- *.
    - lia.
    - exact (IH now Hm).
    - destruct Hm as [A B]. specialize (IH _ B). lia. }
  induction s as [|[pid p nc|w2] s IH]; intros now Hm e Hin; cbn [accepted clock_after clock_mono] in *.
  - destruct Hin.
  - destruct Hin as [<-|Hin]; [cbn [snd]; split; [lia | exact (Hca s now Hm)] | exact (IH now Hm e Hin)].
  - destruct Hm as [A B]. destruct (IH _ B e Hin). lia.
Qed.

Lemma accepted_sorted s : forall now, clock_mono now s -> times_sorted (accepted now s).
Proof.
  induction s as [|[pid p nc|w2] s IH]; intros now Hm; cbn [accepted clock_mono times_sorted] in *.
  - exact I.
  - split; [|exact (IH now Hm)]. intros e' Hin. cbn [snd].
    exact (proj1 (accepted_bounds s now Hm e' Hin)).
  - destruct Hm as [_ B]. exact (IH _ B).
Qed.

(* ----- the due part of a queue ----- *)

Fixpoint due_part (now deb : Z) (q : list qent) : list qent :=
  match q with
  | [] => []
  | e :: q' => if (now - snd e <? deb)%Z then [] else e :: due_part now deb q'
  end.

Fixpoint rest_part (now deb : Z) (q : list qent) : list qent :=
  match q with
  | [] => []
  | e :: q' => if (now - snd e <? deb)%Z then q else rest_part now deb q'
  end.

Lemma due_rest_split now deb q : q = due_part now deb q ++ rest_part now deb q.
Proof.
  induction q as [|e q IH]; cbn [due_part rest_part]; [reflexivity|].
  destruct (now - snd e <? deb)%Z; [reflexivity|]. cbn [app]. rewrite <- IH. reflexivity.
Qed.

Lemma due_part_due now deb q : Forall (due_at now deb) (due_part now deb q).
Proof.
  induction q as [|e q IH]; cbn [due_part]; [constructor|].
  destruct (now - snd e <? deb)%Z eqn:E; constructor; [|exact IH].
  unfold due_at. apply Z.ltb_ge in E. lia.
Qed.

Lemma rest_part_not_due now deb q : not_due now deb (rest_part now deb q).
Proof.
  induction q as [|[[p m] t] q IH]; cbn [rest_part]; [exact I|]. cbn [snd].
  destruct (now - t <? deb)%Z eqn:E; [|exact IH]. cbn [not_due]. apply Z.ltb_lt. exact E.
Qed.

(* "since the times are non-decreasing along the queue and the debounce is
   uniform, a due entry is never behind one that is not due" *)
Lemma due_prefix_closed now deb a e b :
  times_sorted (a ++ e :: b) -> due_at now deb e -> Forall (due_at now deb) a.
Proof.
  induction a as [|x a IH]; intros Hs Hd; [constructor|]. cbn [app times_sorted] in Hs.
  destruct Hs as [Hx Hs]. constructor; [|exact (IH Hs Hd)].
  unfold due_at in *. specialize (Hx e ltac:(apply in_or_app; right; left; reflexivity)). lia.
Qed.

(* hence NOTHING after the due part is due: the pass stops at the first entry
   that is not due without leaving any due entry behind *)
Lemma rest_part_all_young now deb q :
  times_sorted q -> Forall (fun e => (now - snd e < deb)%Z) (rest_part now deb q).
Proof.
  induction q as [|e q IH]; intros Hs; cbn [rest_part]; [constructor|].
  destruct Hs as [Hx Hs].
  destruct (now - snd e <? deb)%Z eqn:E; [|exact (IH Hs)]. apply Z.ltb_lt in E.
  constructor; [exact E|]. apply Forall_forall. intros e' Hin. specialize (Hx e' Hin). lia.
Qed.

(* ----- which paths a pass stores ----- *)

Lemma occurs_app p a b : occurs p (a ++ b) = occurs p a || occurs p b.
Proof.
  induction a as [|e a IH]; cbn [app occurs]; [reflexivity|]. rewrite IH, orb_assoc. reflexivity.
Qed.

(* the winners: one entry for each path queued in the due part and not behind it *)
Lemma winners_paths rest p : forall due,
  In p (map qpath (winners due rest)) <-> (occurs p due = true /\ occurs p rest = false).
Proof.
  induction due as [|e due IH]; cbn [winners occurs map In].
  - split; [intros [] | intros [A _]; discriminate].
  - destruct (occurs (qpath e) (due ++ rest)) eqn:Eo.
    + rewrite IH. destruct (str_eqb_spec p (qpath e)) as [->|Hne]; cbn [orb]; [|tauto].
      rewrite occurs_app in Eo. split; [tauto|]. intros [_ B]. rewrite B, orb_false_r in Eo. auto.
    + cbn [map In]. rewrite IH. rewrite occurs_app in Eo. apply orb_false_iff in Eo. destruct Eo as [E1 E2].
      destruct (str_eqb_spec p (qpath e)) as [->|Hne]; cbn [orb].
      * split; [intros _; auto | intros _; left; reflexivity].
      * split; [intros [X|X]; [congruence | exact X] | intros X; right; exact X].
Qed.

(* exactly one version per distinct path *)
Lemma winners_nodup rest : forall due, NoDup (map qpath (winners due rest)).
Proof.
  induction due as [|e due IH]; cbn [winners map]; [constructor|].
  destruct (occurs (qpath e) (due ++ rest)) eqn:Eo; [exact IH|].
  cbn [map]. constructor; [|exact IH]. intros Hin. apply winners_paths in Hin. destruct Hin as [A _].
  rewrite occurs_app, A in Eo. discriminate.
Qed.

(* each winner IS a queued entry of the due part, and the LAST one of its path *)
Lemma winners_last rest : forall due e, In e (winners due rest) ->
  exists a b, due = a ++ e :: b /\ occurs (qpath e) (b ++ rest) = false.
Proof.
  induction due as [|x due IH]; intros e Hin; cbn [winners] in Hin; [destruct Hin|].
  destruct (occurs (qpath x) (due ++ rest)) eqn:Eo.
  - destruct (IH e Hin) as (a & b & -> & Hb). exists (x :: a), b. split; [reflexivity | exact Hb].
  - destruct Hin as [<-|Hin]; [exists [], due; split; [reflexivity | exact Eo]|].
    destruct (IH e Hin) as (a & b & -> & Hb). exists (x :: a), b. split; [reflexivity | exact Hb].
Qed.

Lemma last_time_app2 p a b :
  last_time p (a ++ b) = match last_time p b with Some t => Some t | None => last_time p a end.
Proof.
  induction a as [|e a IH]; cbn [app last_time]; [destruct (last_time p b); reflexivity|].
  rewrite IH. destruct (last_time p b); reflexivity.
Qed.

Lemma last_time_in p q t : last_time p q = Some t -> exists e, In e q /\ qpath e = p /\ snd e = t.
Proof.
  induction q as [|e q IH]; cbn [last_time]; [discriminate|].
  destruct (last_time p q) as [t'|] eqn:E.
  - intros X. injection X as ->. destruct (IH eq_refl) as (e' & A & B). exists e'. split; [right; exact A | exact B].
  - destruct (str_eqb_spec p (qpath e)) as [->|_]; [|discriminate].
    intros X. injection X as <-. exists e. split; [left; reflexivity | split; reflexivity].
Qed.

(* "the first pass at or after the end of its quiet period stores it; writes to
   other files do not delay it": on a queue with sorted times, a path gets a
   version in this pass IFF its LAST accepted write is at least the debounce old --
   whatever else has been queued before, in between or after *)
Theorem stored_iff_quiet now deb q p :
  times_sorted q ->
  In p (map qpath (winners (due_part now deb q) (rest_part now deb q))) <->
  exists t, last_time p q = Some t /\ (deb <= now - t)%Z.
Proof.
  intros Hs. rewrite winners_paths.
  pose proof (due_part_due now deb q) as Hd. pose proof (rest_part_all_young now deb q Hs) as Hy.
  assert (El : last_time p q = match last_time p (rest_part now deb q) with
                               | Some t => Some t | None => last_time p (due_part now deb q) end).
  { rewrite (due_rest_split now deb q) at 1. apply last_time_app2. }
  rewrite El. clear El.
  set (due := due_part now deb q) in *. set (rest := rest_part now deb q) in *.
  split.
  - intros [A B]. apply last_time_none in B. rewrite B.
    destruct (last_time p due) as [t|] eqn:E.
    + exists t. split; [reflexivity|]. destruct (last_time_in _ _ _ E) as (e & Hin & _ & <-).
      rewrite Forall_forall in Hd. exact (Hd e Hin).
    + apply last_time_none in E. congruence.
  - intros (t & E & Ht). destruct (last_time p rest) as [t'|] eqn:Er.
    + exfalso. injection E as ->. destruct (last_time_in _ _ _ Er) as (e & Hin & _ & <-).
      rewrite Forall_forall in Hy. specialize (Hy e Hin). lia.
    + split; [|apply last_time_none; exact Er].
      destruct (occurs p due) eqn:Eo; [reflexivity|]. apply last_time_none in Eo. congruence.
Qed.

(* the "not delayed" half spelled out: once clock >= (time of the last write of p) + debounce,
   p is among the paths this pass stores, even though other paths written LATER
   are in the queue and are not due yet *)
Corollary not_delayed_by_others now deb q p t :
  times_sorted q -> last_time p q = Some t -> (deb <= now - t)%Z ->
  In p (map qpath (winners (due_part now deb q) (rest_part now deb q))).
Proof. intros Hs E Ht. apply stored_iff_quiet; [exact Hs|]. exists t. auto. Qed.

(* ====================================================================== *)
(* 8. a burst, then the pass                                               *)
(* ====================================================================== *)

(* an empty queue has exactly one in-memory representation *)
Lemma QRel_nil_q q f : QRel q f [] -> q = mkQ (q_dir q) 0 0 (q_deb q) (q_len_guess q) [].
Proof.
  intros HR. pose proof (QR_size _ _ _ HR) as Hs. pose proof (QR_head0 _ _ _ HR eq_refl) as Hh.
  pose proof (QR_bag _ _ _ HR) as Hb. destruct q as [d hd sz db g bag]. cbn [q_size q_head q_bag length] in *.
  change (N.of_nat 0) with 0%N in Hs. subst hd sz.
  destruct bag as [|x bag]; [reflexivity|]. exfalso.
  specialize (Hb x). unfold bag_count in Hb. cbn [filter count_paths] in Hb.
  rewrite str_eqb_refl in Hb. discriminate Hb.
Qed.

Lemma all_due_parts now deb q : Forall (due_at now deb) q -> due_part now deb q = q /\ rest_part now deb q = [].
Proof.
  induction q as [|e q IH]; intros Hd; [split; reflexivity|].
  inversion Hd as [|? ? He Hd']; subst. destruct (IH Hd') as [I1 I2]. cbn [due_part rest_part].
  unfold due_at in He. assert (E : (now - snd e <? deb)%Z = false) by (apply Z.ltb_ge; lia).
  rewrite E, I1, I2. split; reflexivity.
Qed.

(* THE PROPERTY.  Start from an empty queue.  A history [s] of accepted plain
   writes (any number of files, each any number of times, in any order) and of
   environment steps (files rewritten, clock advanced; the queue directory is
   left alone), each step under its side conditions (hist_ok).  Then:

   (burst)  the run does not fail and the queue refines exactly the accepted
            writes, in order of acceptance, stamped with their times, which are
            sorted;
   (split)  at the clock [now] the history ends in, the queue is a due part
            followed by a part in which NOTHING is due;
   (who)    the WINNERS of the due part -- its entries that are the last queued
            write of their path -- have pairwise distinct paths, and a path is
            among them iff its last accepted write is at least the debounce old;
   (pass)   given, for the winners (es: path, time, inode and content b_p AT THE
            PASS) the side conditions of PassProofs (all_ok: plain_ok each,
            pairwise independent store names) on the file system OF THE PASS,
            handle_timeout stores for each winner exactly one version holding
            b_p, in the order of the last writes (inode numbers fs_next + k),
            creates no other file, changes nothing else outside the queue
            directory but the journal (one line per version), leaves exactly the
            not-due part in the queue and returns its wait (-1 if nothing is
            left: then the in-memory queue is the empty one). *)
Theorem burst_then_pass o rev h0 w0 s :
  benign o -> tr_ok (w_tr w0) = true -> QRel (h_q h0) (w_fs w0) [] ->
  hist_ok o s h0 w0 ->
  let ents := accepted (w_clock w0) s in
  let hb := set_q (pushes s (h_q h0)) h0 in
  let deb := q_deb (h_q h0) in
  exists wb,
    (* burst *)
    run o s h0 w0 = (Some hb, wb) /\
    QRel (h_q hb) (w_fs wb) ents /\ tr_ok (w_tr wb) = true /\
    w_clock wb = clock_after (w_clock w0) s /\ times_sorted ents /\
    let now := w_clock wb in
    let due := due_part now deb ents in
    let rest := rest_part now deb ents in
    (* split *)
    ents = due ++ rest /\ Forall (due_at now deb) due /\
    Forall (fun e => (now - snd e < deb)%Z) rest /\
    (* who *)
    NoDup (map qpath (winners due rest)) /\
    (forall p, In p (map qpath (winners due rest)) <->
               exists t, last_time p ents = Some t /\ (deb <= now - t)%Z) /\
    (* pass *)
    forall es,
      keys_nodup (w_fs wb) ->
      map qent_of es = winners due rest ->
      all_ok (h_cfg h0) (h_cpl h0) (h_journal h0) (q_dir (h_q h0)) (w_fs wb) now es ->
      exists qf w',
        handle_timeout rev hb o wb = (Some (TPause (pause_of now deb rest), set_q qf h0), w') /\
        q_dir qf = q_dir (h_q h0) /\ q_deb qf = deb /\ q_len_guess qf = q_len_guess (h_q h0) /\
        pass_facts (h_cfg h0) (h_cpl h0) (h_journal h0) (q_dir (h_q h0)) now (w_fs wb) es (w_fs w') /\
        QRel qf (w_fs w') rest /\ keys_nodup (w_fs w') /\
        tr_ok (w_tr w') = true /\ (t_post (w_tr wb) = 0 -> w_tr w' = w_tr wb) /\
        w_clock w' = now /\
        (rest = [] -> qf = mkQ (q_dir (h_q h0)) 0 0 deb (q_len_guess (h_q h0)) []).
Proof.
  intros H Hok HR Hs. cbv zeta.
  destruct (history_queue o H s h0 w0 [] Hok HR Hs) as (wb & E & HRb & Tb & Cb & Mb).
  cbn [app] in HRb.
  pose proof (accepted_sorted s (w_clock w0) Mb) as Hsort.
  exists wb. split; [exact E|]. split; [exact HRb|]. split; [exact Tb|]. split; [exact Cb|].
  split; [exact Hsort|].
  set (ents := accepted (w_clock w0) s) in *.
  set (deb := q_deb (h_q h0)). set (now := w_clock wb).
  split; [apply due_rest_split|]. split; [apply due_part_due|].
  split; [apply rest_part_all_young; exact Hsort|].
  split; [apply winners_nodup|].
  split; [intros p; apply stored_iff_quiet; exact Hsort|].
  intros es Hnd Hwin Hall.
  set (hb := set_q (pushes s (h_q h0)) h0).
  assert (Ed : q_deb (h_q hb) = deb) by apply pushes_deb.
  assert (Eq : q_dir (h_q hb) = q_dir (h_q h0)) by apply pushes_dir.
  assert (Eg : q_len_guess (h_q hb) = q_len_guess (h_q h0)) by apply pushes_guess.
  destruct (handle_timeout_dup_pass o rev es (due_part now deb ents) (rest_part now deb ents) hb wb
              H Tb Hnd) as (qf & w' & E' & D1 & D2 & D3 & PF & HR' & Hnd' & T' & T'' & C').
  { change (h_q hb) with (pushes s (h_q h0)). rewrite <- (due_rest_split now deb ents). exact HRb. }
  { rewrite Ed. apply due_part_due. }
  { rewrite Ed. apply rest_part_not_due. }
  { exact Hwin. }
  { rewrite Eq. exact Hall. }
  rewrite Ed in E'. rewrite Eq in PF.
  exists qf, w'. split; [exact E'|]. split; [congruence|]. split; [congruence|]. split; [congruence|].
  split; [exact PF|]. split; [exact HR'|]. split; [exact Hnd'|]. split; [exact T'|].
  split; [exact T''|]. split; [exact C'|].
  intros Er. fold now deb in HR'. rewrite Er in HR'. rewrite (QRel_nil_q _ _ HR'). congruence.
Qed.
Print Assumptions burst_then_pass.

(* the special case of the task statement: EVERY entry is due at the pass.
   One version per distinct path, in the order of the LAST writes, holding the
   content at the pass; the queue is empty and the wait is indefinite. *)
Corollary burst_then_pass_all_due o rev h0 w0 s :
  benign o -> tr_ok (w_tr w0) = true -> QRel (h_q h0) (w_fs w0) [] ->
  hist_ok o s h0 w0 ->
  let ents := accepted (w_clock w0) s in
  let hb := set_q (pushes s (h_q h0)) h0 in
  let deb := q_deb (h_q h0) in
  let now := clock_after (w_clock w0) s in
  Forall (due_at now deb) ents ->
  exists wb,
    run o s h0 w0 = (Some hb, wb) /\ QRel (h_q hb) (w_fs wb) ents /\ w_clock wb = now /\
    forall es,
      keys_nodup (w_fs wb) ->
      map qent_of es = keep_last ents ->
      all_ok (h_cfg h0) (h_cpl h0) (h_journal h0) (q_dir (h_q h0)) (w_fs wb) now es ->
      exists w',
        handle_timeout rev hb o wb =
          (Some (TPause (-1), set_q (mkQ (q_dir (h_q h0)) 0 0 deb (q_len_guess (h_q h0)) []) h0), w') /\
        pass_facts (h_cfg h0) (h_cpl h0) (h_journal h0) (q_dir (h_q h0)) now (w_fs wb) es (w_fs w') /\
        QRel (mkQ (q_dir (h_q h0)) 0 0 deb (q_len_guess (h_q h0)) []) (w_fs w') [] /\
        keys_nodup (w_fs w') /\ tr_ok (w_tr w') = true /\ w_clock w' = now.
Proof.
  intros H Hok HR Hs. cbv zeta. intros Hdue.
  destruct (burst_then_pass o rev h0 w0 s H Hok HR Hs) as (wb & E & HRb & Tb & Cb & _ & Hrest).
  cbv zeta in Hrest. destruct Hrest as (_ & _ & _ & _ & _ & Hpass).
  rewrite Cb in Hpass. destruct (all_due_parts _ _ _ Hdue) as [P1 P2]. rewrite P1, P2 in Hpass.
  exists wb. split; [exact E|]. split; [exact HRb|]. split; [exact Cb|].
  intros es Hnd Hwin Hall.
  assert (Ek : forall q, winners q [] = keep_last q).
  { induction q as [|e q IH]; cbn [winners keep_last]; [reflexivity|]. rewrite app_nil_r, IH. reflexivity. }
  rewrite <- Ek in Hwin.
  destruct (Hpass es Hnd Hwin Hall) as (qf & w' & E' & _ & _ & _ & PF & HR' & Hnd' & T' & _ & C' & Eqf).
  specialize (Eqf eq_refl). subst qf. exists w'. cbn [pause_of] in E'. auto 10.
Qed.
Print Assumptions burst_then_pass_all_due.

(* ====================================================================== *)
(* 9. a concrete burst                                                     *)
(* ====================================================================== *)

(* The configuration, handler and world of AcceptProofs.AcceptExample (debounce
   5 s, clock 100 s).  Two files: a = /h/x/i (inode 2, content "one") and
   b = /h/a (inode 4, content "a").  History:
       100 s  write a          (pid 9)
       100 s  write b          (pid 7, the editor)
       101 s  the environment rewrites a: "two!!"
       101 s  write a again
       110 s  the clock has moved past every debounce
   The queue is then  a@100, b@100, a@101.  The pass at 110 s removes a@100
   without storing anything, stores b ("a", inode 6) and then a (its FINAL
   content "two!!", inode 7): one version each, in the order b, a. *)
Module BurstPassExample.
  Import AcceptExample.
  Local Open Scope char_scope.

  Definition pa : str := p_i.
  Definition pb : str := p_a.

  Definition tick (t : Z) (w : world) : world := mkW (w_fs w) (w_n w) (w_log w) t (w_tr w).

  Definition H1 : handler := set_q (pushed pa q0) h0.
  Definition W1 : world := snd (handle_close_write 9 pa None h0 o2 w0).
  Definition H2 : handler := set_q (pushed pb (pushed pa q0)) h0.
  Definition W2 : world := snd (handle_close_write 7 pb None H1 o2 W1).
  Definition E1 : world := env 101 W2.                  (* a rewritten, clock 101 *)
  Definition H3 : handler := set_q (pushed pa (pushed pb (pushed pa q0))) h0.
  Definition W3 : world := snd (handle_close_write 9 pa None H2 o2 E1).
  Definition E2 : world := tick 110 W3.

  Definition hist : list step :=
    [Write 9 pa None; Write 7 pb None; Env E1; Write 9 pa None; Env E2].

  Definition va : str := p_st ++ ["/"; "x"; "/"; "i"; "/"; "v"; "1"; "1"; "0"].
  Definition vb : str := p_st ++ ["/"; "a"; "/"; "v"; "1"; "1"; "0"].
  Definition n2 : str := ["/"; "q"; "/"; "2"].

  (* ----- direct evaluation, transfers cut into pieces of at most 2 bytes ----- *)
  Example run_burst_then_pass :
    match run o2 hist h0 w0 with
    | (Some hb, wb) =>
        hb = H3 /\ w_clock wb = 110%Z /\
        lookup (w_fs wb) n0 = Some (NLink pa 100%Z) /\
        lookup (w_fs wb) n1 = Some (NLink pb 100%Z) /\
        lookup (w_fs wb) n2 = Some (NLink pa 101%Z) /\
        match handle_timeout false hb o2 wb with
        | (Some (TPause z, h'), w') =>
            z = (-1)%Z /\ h' = h0 /\
            (* one version each, b first, a with its final content *)
            lookup (w_fs w') vb = Some (NFile 6) /\ get_file (w_fs w') 6 = mkFile ["a"] true /\
            lookup (w_fs w') va = Some (NFile 7) /\ get_file (w_fs w') 7 = mkFile two true /\
            fs_next (w_fs w') = 8 /\
            (* the queue directory is empty *)
            lookup (w_fs w') n0 = None /\ lookup (w_fs w') n1 = None /\ lookup (w_fs w') n2 = None /\
            (* the journal: three accepted writes, two stored versions *)
            f_bytes (get_file (w_fs w') 1) =
              old ++ journal_line ["1"; "0"; "0"] ["W"] 9 pa
                  ++ journal_line ["1"; "0"; "0"] ["W"] 7 pb
                  ++ journal_line ["1"; "0"; "1"] ["W"] 9 pa
                  ++ journal_line ["1"; "1"; "0"] stored 0 ["a"]
                  ++ journal_line ["1"; "1"; "0"] stored 0 ["x"; "/"; "i"] /\
            w_tr w' = tr_empty
        | _ => False
        end
    | _ => False
    end.
  Proof. vm_compute. repeat split; reflexivity. Qed.

  (* ----- the same by the theorem ----- *)

  Lemma tick_untouched q t w : queue_untouched q (w_fs w) (w_fs (tick t w)).
  Proof. split; reflexivity. Qed.
  Lemma env_untouched' q t w : queue_untouched q (w_fs w) (w_fs (env t w)).
  Proof. split; intros; apply lookup_set_file. Qed.

  Lemma jfits_at (h : handler) ev now :
    h_journal h = Some jA -> Nat.leb (length (ts_of jA now)) 255 = true -> journal_fits (h_journal h) ev now.
  Proof. intros -> Hl jn e Ej _. injection Ej as <-. apply Nat.leb_le. exact Hl. Qed.

  Lemma write_ok_by_check (h : handler) now pid p :
    h_cfg h = cfgA -> h_cpl h = 3 -> h_pids h = [7%N] -> h_cfg_path h = Some p_c ->
    h_journal h = Some jA -> q_len_guess (h_q h) = 16 ->
    push_decision rulesA 3 (pid_mem pid [7%N]) p = (true, false, None) ->
    p <> p_c -> Nat.leb (length (ts_of jA now)) 255 = true -> normalb p = true ->
    Nat.leb (length (encode 0 p)) 16 = true ->
    write_ok h now pid p.
  Proof.
    intros Ec El Ep Ecp Ej Eg Hd Hne Hts Hn Hf. constructor.
    - rewrite Ec, El, Ep. exact Hd.
    - rewrite Ecp. intros X. injection X as X. congruence.
    - apply jfits_at; assumption.
    - apply normalb_spec. exact Hn.
    - rewrite Eg. apply fits16. exact Hf.
  Qed.

  Ltac wok := apply write_ok_by_check;
    [reflexivity | reflexivity | reflexivity | reflexivity | reflexivity | reflexivity
    | vm_compute; reflexivity
    | (let E := fresh in intros E; vm_compute in E; discriminate E)
    | vm_compute; reflexivity | vm_compute; reflexivity | vm_compute; reflexivity].

  (* (injection would evaluate the worlds) *)
  Lemma pair_some_inv (a b : handler) (u v : world) : (Some a, u) = (Some b, v) -> b = a /\ v = u.
  Proof. intros E. split; [|exact (eq_sym (f_equal snd E))].
    exact (eq_sym (f_equal (fun x => match fst x with Some y => y | None => a end) E)). Qed.

  Lemma hist_is_ok : hist_ok o2 hist h0 w0.
  Proof.
    unfold hist. cbn [hist_ok].
    split; [wok|]. intros h1 w1 X1.
    assert (Y1 : handle_close_write 9 pa None h0 o2 w0 = (Some H1, W1)) by (vm_compute; reflexivity).
    rewrite Y1 in X1. apply pair_some_inv in X1. destruct X1 as [-> ->].
    split; [wok|]. intros h2 w2 X2.
    assert (Y2 : handle_close_write 7 pb None H1 o2 W1 = (Some H2, W2)) by (vm_compute; reflexivity).
    rewrite Y2 in X2. apply pair_some_inv in X2. destruct X2 as [-> ->].
    split.
    { constructor; [apply env_untouched' | vm_compute; reflexivity | vm_compute; discriminate]. }
    split; [wok|]. intros h3 w3 X3.
    assert (Y3 : handle_close_write 9 pa None H2 o2 E1 = (Some H3, W3)) by (vm_compute; reflexivity).
    rewrite Y3 in X3. apply pair_some_inv in X3. destruct X3 as [-> ->].
    split; [|exact I].
    constructor; [apply tick_untouched | vm_compute; reflexivity | vm_compute; discriminate].
  Qed.

  (* the world the history ends in *)
  Definition WB : world := snd (run o2 hist h0 w0).

  Lemma ents_eq : accepted (w_clock w0) hist = [(pa, 0%N, 100%Z); (pb, 0%N, 100%Z); (pa, 0%N, 101%Z)].
  Proof. vm_compute. reflexivity. Qed.

  Lemma now_eq : clock_after (w_clock w0) hist = 110%Z.
  Proof. vm_compute. reflexivity. Qed.

  (* the winners with what the file system OF THE PASS holds for them *)
  Definition es : list entry := [mkE pb 100 4 ["a"]; mkE pa 101 2 two].

  Lemma es_winners : map qent_of es = keep_last (accepted (w_clock w0) hist).
  Proof. vm_compute. reflexivity. Qed.

  Lemma WB_nodup : keys_nodup (w_fs WB).
  Proof.
    unfold keys_nodup. vm_compute.
    repeat (constructor; [let Hin := fresh in intros Hin; cbn [In] in Hin;
                          repeat (destruct Hin as [Hin|Hin]; [discriminate Hin|]); exact Hin|]).
    constructor.
  Qed.

  Ltac neq := let E := fresh in intros E; vm_compute in E; discriminate E.
  Ltac not_in := let Hin := fresh in intros Hin; vm_compute in Hin;
                 repeat (destruct Hin as [Hin|Hin]; [discriminate Hin|]); exact Hin.

  Lemma indep_ba : indep cfgA 3 110 pb pa.
  Proof. constructor; [neq | not_in | not_in | neq | not_in | not_in]. Qed.

  Lemma WB_all_ok : all_ok cfgA 3 (Some jA) p_q (w_fs WB) 110 es.
  Proof.
    unfold es. cbn [all_ok e_path e_ino e_bytes].
    split; [apply plain_okb_sound; vm_compute; reflexivity|].
    split; [constructor; [exact indep_ba | constructor]|].
    split; [apply plain_okb_sound; vm_compute; reflexivity|].
    split; [constructor | exact I].
  Qed.

  (* every hypothesis of burst_then_pass_all_due holds of this history *)
  Example hyps_hold :
    benign o2 /\ tr_ok (w_tr w0) = true /\ QRel (h_q h0) (w_fs w0) [] /\ hist_ok o2 hist h0 w0 /\
    Forall (due_at (clock_after (w_clock w0) hist) (q_deb (h_q h0))) (accepted (w_clock w0) hist) /\
    keys_nodup (w_fs WB) /\ map qent_of es = keep_last (accepted (w_clock w0) hist) /\
    all_ok (h_cfg h0) (h_cpl h0) (h_journal h0) (q_dir (h_q h0)) (w_fs WB)
           (clock_after (w_clock w0) hist) es.
  Proof.
    split; [exact o2_benign|]. split; [reflexivity|]. split; [exact q0_rel|]. split; [exact hist_is_ok|].
    split.
    { rewrite ents_eq, now_eq. repeat (constructor; [unfold due_at; vm_compute; discriminate|]). constructor. }
    split; [exact WB_nodup|]. split; [exact es_winners|]. rewrite now_eq. exact WB_all_ok.
  Qed.

  Example burst_by_theorem :
    exists wb w',
      run o2 hist h0 w0 = (Some H3, wb) /\
      QRel (h_q H3) (w_fs wb) [(pa, 0%N, 100%Z); (pb, 0%N, 100%Z); (pa, 0%N, 101%Z)] /\
      handle_timeout false H3 o2 wb = (Some (TPause (-1), h0), w') /\
      lookup (w_fs w') vb = Some (NFile 6) /\ f_bytes (get_file (w_fs w') 6) = ["a"] /\
      lookup (w_fs w') va = Some (NFile 7) /\ f_bytes (get_file (w_fs w') 7) = two /\   (* not "one" *)
      f_bytes (get_file (w_fs w0) 2) = one /\
      fs_next (w_fs w') = 8 /\
      (forall x i', lookup (w_fs w') x = Some (NFile i') -> lookup (w_fs wb) x = None -> x = vb \/ x = va) /\
      QRel q0 (w_fs w') [] /\ tr_ok (w_tr w') = true.
  Proof.
    destruct hyps_hold as (A1 & A2 & A3 & A4 & A5 & A6 & A7 & A8).
    destruct (burst_then_pass_all_due o2 false h0 w0 hist A1 A2 A3 A4 A5) as (wb & E & HRb & Cb & Hpass).
    assert (Ew : wb = WB) by (unfold WB; rewrite E; reflexivity). subst wb.
    destruct (Hpass es A6 A7 A8) as (w' & E' & PF & HR' & _ & T' & _).
    rewrite ents_eq in HRb. rewrite now_eq in PF.
    exists WB, w'. split; [exact E|]. split; [exact HRb|]. split; [exact E'|].
    destruct PF as [PN _ _ PV PO _].
    assert (Nx : fs_next (w_fs WB) = 6) by (vm_compute; reflexivity).
    destruct (PV 0 _ eq_refl) as [V1 V2]. destruct (PV 1 _ eq_refl) as [V3 V4].
    rewrite Nx in V1, V2, V3, V4, PN.
    assert (Nb : store_name (h_cfg h0) (h_cpl h0) 110 pb = vb) by (vm_compute; reflexivity).
    assert (Na : store_name (h_cfg h0) (h_cpl h0) 110 pa = va) by (vm_compute; reflexivity).
    cbn [e_path e_bytes] in V1, V2, V3, V4. rewrite Nb in V1. rewrite Na in V3.
    split; [exact V1|]. split; [exact V2|]. split; [exact V3|]. split; [exact V4|].
    split; [reflexivity|]. split; [exact PN|].
    split.
    { intros x i' X1 X2. destruct (PO x i' X1 X2) as (e & [<-|[<-|[]]] & ->); cbn [e_path]; [left | right]; assumption. }
    split; [exact HR' | exact T'].
  Qed.

  (* ----- the same burst, but the pass comes at 105 s: a@100 and b@100 are due,
     a@101 is not.  b is stored although a was written after it and is still
     pending ("not delayed"); the earlier entry of a is removed and produces
     nothing; a waits for its own quiet period: 1 s more ----- *)
  Definition E2' : world := tick 105 W3.
  Definition hist' : list step :=
    [Write 9 pa None; Write 7 pb None; Env E1; Write 9 pa None; Env E2'].
  Definition vb' : str := p_st ++ ["/"; "a"; "/"; "v"; "1"; "0"; "5"].
  Definition WB' : world := snd (run o2 hist' h0 w0).

  Example run_burst_then_early_pass :
    match handle_timeout false H3 o2 WB' with
    | (Some (TPause z, h'), w') =>
        z = 1%Z /\ q_head (h_q h') = 2%N /\ q_size (h_q h') = 1%N /\ q_bag (h_q h') = [pa] /\
        lookup (w_fs w') vb' = Some (NFile 6) /\ get_file (w_fs w') 6 = mkFile ["a"] true /\
        fs_next (w_fs w') = 7 /\
        lookup (w_fs w') n0 = None /\ lookup (w_fs w') n1 = None /\
        lookup (w_fs w') n2 = Some (NLink pa 101%Z) /\
        w_tr w' = tr_empty
    | _ => False
    end.
  Proof. vm_compute. repeat split; reflexivity. Qed.

  Lemma hist'_is_ok : hist_ok o2 hist' h0 w0.
  Proof.
    unfold hist'. cbn [hist_ok].
    split; [wok|]. intros h1 w1 X1.
    assert (Y1 : handle_close_write 9 pa None h0 o2 w0 = (Some H1, W1)) by (vm_compute; reflexivity).
    rewrite Y1 in X1. apply pair_some_inv in X1. destruct X1 as [-> ->].
    split; [wok|]. intros h2 w2 X2.
    assert (Y2 : handle_close_write 7 pb None H1 o2 W1 = (Some H2, W2)) by (vm_compute; reflexivity).
    rewrite Y2 in X2. apply pair_some_inv in X2. destruct X2 as [-> ->].
    split.
    { constructor; [apply env_untouched' | vm_compute; reflexivity | vm_compute; discriminate]. }
    split; [wok|]. intros h3 w3 X3.
    assert (Y3 : handle_close_write 9 pa None H2 o2 E1 = (Some H3, W3)) by (vm_compute; reflexivity).
    rewrite Y3 in X3. apply pair_some_inv in X3. destruct X3 as [-> ->].
    split; [|exact I].
    constructor; [apply tick_untouched | vm_compute; reflexivity | vm_compute; discriminate].
  Qed.

  Definition es' : list entry := [mkE pb 100 4 ["a"]].

  Lemma WB'_nodup : keys_nodup (w_fs WB').
  Proof.
    unfold keys_nodup. vm_compute.
    repeat (constructor; [let Hin := fresh in intros Hin; cbn [In] in Hin;
                          repeat (destruct Hin as [Hin|Hin]; [discriminate Hin|]); exact Hin|]).
    constructor.
  Qed.

  Example early_pass_by_theorem :
    exists qf w',
      handle_timeout false H3 o2 WB' = (Some (TPause 1, set_q qf h0), w') /\
      QRel qf (w_fs w') [(pa, 0%N, 101%Z)] /\
      lookup (w_fs w') vb' = Some (NFile 6) /\ f_bytes (get_file (w_fs w') 6) = ["a"] /\
      fs_next (w_fs w') = 7 /\
      (forall x i', lookup (w_fs w') x = Some (NFile i') -> lookup (w_fs WB') x = None -> x = vb') /\
      (* by the characterisation: b is stored in this pass, a is not *)
      (exists t, last_time pb (accepted (w_clock w0) hist') = Some t /\ (5 <= 105 - t)%Z) /\
      ~ (exists t, last_time pa (accepted (w_clock w0) hist') = Some t /\ (5 <= 105 - t)%Z).
  Proof.
    destruct (burst_then_pass o2 false h0 w0 hist' o2_benign eq_refl q0_rel hist'_is_ok)
      as (wb & E & HRb & Tb & Cb & Hsort & Hrest).
    assert (Ew : wb = WB') by (unfold WB'; rewrite E; reflexivity). subst wb.
    cbv zeta in Hrest. destruct Hrest as (_ & _ & _ & _ & Hwho & Hpass).
    assert (Ec : w_clock WB' = 105%Z) by (vm_compute; reflexivity).
    assert (Ee : accepted (w_clock w0) hist' = [(pa, 0%N, 100%Z); (pb, 0%N, 100%Z); (pa, 0%N, 101%Z)])
      by (vm_compute; reflexivity).
    rewrite Ec, Ee in Hpass, Hwho. change (q_deb (h_q h0)) with 5%Z in Hpass, Hwho.
    assert (Ed : due_part 105 5 [(pa, 0%N, 100%Z); (pb, 0%N, 100%Z); (pa, 0%N, 101%Z)]
                 = [(pa, 0%N, 100%Z); (pb, 0%N, 100%Z)]) by (vm_compute; reflexivity).
    assert (Er : rest_part 105 5 [(pa, 0%N, 100%Z); (pb, 0%N, 100%Z); (pa, 0%N, 101%Z)]
                 = [(pa, 0%N, 101%Z)]) by (vm_compute; reflexivity).
    rewrite Ed, Er in Hpass, Hwho.
    destruct (Hpass es' WB'_nodup) as (qf & w' & E' & _ & _ & _ & PF & HR' & _).
    { vm_compute. reflexivity. }
    { unfold es'. cbn [all_ok e_path e_ino e_bytes].
      split; [apply plain_okb_sound; vm_compute; reflexivity|]. split; [constructor | exact I]. }
    exists qf, w'. split; [exact E'|]. split; [exact HR'|].
    destruct PF as [PN _ _ PV PO _].
    assert (Nx : fs_next (w_fs WB') = 6) by (vm_compute; reflexivity).
    destruct (PV 0 _ eq_refl) as [V1 V2]. rewrite Nx in V1, V2, PN.
    assert (Nb : store_name (h_cfg h0) (h_cpl h0) 105 pb = vb') by (vm_compute; reflexivity).
    cbn [e_path e_bytes] in V1, V2. rewrite Nb in V1.
    split; [exact V1|]. split; [exact V2|]. split; [exact PN|].
    split.
    { intros x i' X1 X2. destruct (PO x i' X1 X2) as (e & [<-|[]] & ->). exact Nb. }
    rewrite Ee. split.
    - apply Hwho. vm_compute. left. reflexivity.
    - intros Hq. apply Hwho in Hq. vm_compute in Hq. destruct Hq as [Hq|[]]. discriminate Hq.
  Qed.
End BurstPassExample.
Print Assumptions BurstPassExample.run_burst_then_early_pass.
Print Assumptions BurstPassExample.early_pass_by_theorem.
Print Assumptions BurstPassExample.run_burst_then_pass.
Print Assumptions BurstPassExample.hyps_hold.
Print Assumptions BurstPassExample.burst_by_theorem.
Print Assumptions plain_iteration_from_head.
Print Assumptions plain_iteration_skip.
Print Assumptions pass_stops_skip.
Print Assumptions due_prefix_closed.
Print Assumptions rest_part_all_young.
Print Assumptions stored_iff_quiet.
Print Assumptions not_delayed_by_others.
Print Assumptions winners_last_writes.
