(* C01 Debounce: nothing is copied before its quiet period has elapsed.
   Queue level: an item is handed to the store exactly when get_head yields it. *)
From K Require Import Str SetM SetProofs Linq LinqSpec LinqProofs DebounceProofs.
Local Open Scope Z_scope.

(* In every state reachable by any interleaving of accepted writes (LPush), clock
   advances (LTick n, n >= 0), timeout passes (LHead/LPop), debounce changes
   (LRedeb) and restarts (LReload): if the queue yields a path now, then every
   accepted write of that path -- in particular the most recent -- is at least
   the debounce interval now in force old.  The history [snd c] records every
   accepted write with the clock value at which it was accepted.  Project roots
   are queue entries like files, so the statement covers snapshots too. *)
Theorem C01_no_early_yield :
  forall (deb : Z) (g : nat) (now0 : Z) (ops : list lop) (p : str) (m : N) (l' : linq),
  Forall wf_op ops -> Forall mono_op ops ->
  let c := lhrun (linit deb g now0, []) ops in
  let l := ls_q (fst c) in
  get_head (N.to_nat (l_size l)) (ls_now (fst c)) l = (HReady p m, l') ->
  forall t, In (p, t) (snd c) -> ls_now (fst c) - t >= l_deb l.
Proof. exact model_ready_old. Qed.
Print Assumptions C01_no_early_yield.

(* While something is pending but not yet due the wait requested is positive and
   never longer than the time after which any pending item becomes due; an
   indefinite wait (-1) is requested exactly when nothing is pending. *)
Theorem C01_pause_sound :
  forall (deb : Z) (g : nat) (now0 : Z) (ops : list lop) (w : Z) (l' : linq),
  Forall wf_op ops -> Forall mono_op ops ->
  let c := lhrun (linit deb g now0, []) ops in
  let l := ls_q (fst c) in
  get_head (N.to_nat (l_size l)) (ls_now (fst c)) l = (HPause w, l') ->
  (w = -1 /\ l_dir l' = []) \/
  (0 < w /\ l_dir l' <> [] /\
   forall e, In e (l_dir l') -> w <= snd (snd e) + l_deb l - ls_now (fst c)).
Proof. exact model_pause_sound. Qed.
Print Assumptions C01_pause_sound.

(* non-vacuity: a write, a later write of the same file, a debounce change and a
   restart; the file is yielded only 4 s after its second write *)
Example C01_example :
  let a := [ch_slash; "a"%char] in
  let ops1 := [LPush a 0%N; LTick 3; LPush a 0%N; LRedeb 4; LReload 0; LTick 3] in
  let ops2 := ops1 ++ [LTick 1] in
  Forall wf_op ops2 /\ Forall mono_op ops2 /\
  (let c := lhrun (linit 2 0 100, []) ops1 in
   fst (get_head 9 (ls_now (fst c)) (ls_q (fst c))) = HPause 1) /\
  (let c := lhrun (linit 2 0 100, []) ops2 in
   fst (get_head 9 (ls_now (fst c)) (ls_q (fst c))) = HReady a 0%N /\ snd c = [(a, 100); (a, 103)]).
Proof.
  split; [|split].
  - repeat constructor; simpl; try exact I; eexists; (split; [reflexivity|]); simpl; auto.
  - repeat constructor; simpl; try exact I; lia.
  - vm_compute. auto.
Qed.
