(* C13 "No content of an executed file (including malformed or truncated ELF
   images) makes the daemon access memory outside its own objects; such inputs
   are either processed or rejected with an error", and the C07 side "the
   dynamic loader recorded from a previously seen editor binary": the headline
   statements about the ELF reader (src/elfinterp.c, Elf.v), proved in
   ElfProofs.v against the layout specification of ElfSpec.v. *)
From K Require Import Str Trace Fs World Elf Handler SyncProofs AttrProofs ElfSpec ElfProofs.

(* the reader computes the ELF64 layout specification, on every byte string,
   under every benign oracle; it only reads *)
Theorem C13_elf_reader_refines_spec : forall (o : oracle) (w : world) (i : nat) (b : str),
  benign o -> f_bytes (get_file (w_fs w) i) = b ->
  exists w', get_elf_interpreter_raw i o w = (Some (elf_interp_spec b), w') /\
             w_fs w' = w_fs w /\ w_tr w' = w_tr w /\ w_clock w' = w_clock w /\
             exists l, w_log w' = l ++ w_log w /\ w_n w' = length l + w_n w /\ Forall read_entry l.
Proof. exact elf_reader_refines_spec. Qed.
Print Assumptions C13_elf_reader_refines_spec.

(* every oracle: bounded reads only, the answer is the specification's or None
   (then the errno is on the trace) or the process died; a returned string ends
   strictly inside the buffer it was read into *)
Theorem C13_elf_reads_in_bounds : forall (o : oracle) (w : world) (i : nat) (b : str)
    (r : option (option str)) (w' : world),
  f_bytes (get_file (w_fs w) i) = b ->
  get_elf_interpreter_raw i o w = (r, w') ->
  outcome o w (elf_interp_spec b) (r, w') /\
  (r = None \/ r = Some None \/ r = Some (elf_interp_spec b)) /\
  (forall s, r = Some (Some s) ->
     elf_interp_spec b = Some s /\ w_tr w' = w_tr w /\
     exists off sz : N,
       (off < two63 /\ 0 < sz /\ sz <= two32 /\ off + sz <= flen b)%N /\
       let seg := slice b (N.to_nat off) (N.to_nat sz) in
       length seg = N.to_nat sz /\ last_is_nul seg = true /\ s = c_string seg /\
       (exists rest, seg = s ++ rest) /\ length s < length seg /\
       Forall (fun c => (N_of_ascii c =? 0)%N = false) s).
Proof. exact elf_reads_in_bounds. Qed.
Print Assumptions C13_elf_reads_in_bounds.

(* one read: the bytes delivered are a slice inside the file, at most [want] *)
Theorem C13_read_slice_in_file : forall (i : nat) (pos want : N) (o : oracle) (w : world)
    (r : option (str + errno)) (w' : world),
  k_read_at i pos want o w = (r, w') ->
  let b := f_bytes (get_file (w_fs w) i) in
  match r with
  | None => w' = w
  | Some (inr e) => w' = Hoare.after_call (CReadN want) (RFault e) (w_fs w) w
  | Some (inl bs) =>
      w' = Hoare.after_call (CReadN want) (RInt (Z.of_nat (length bs))) (w_fs w) w /\
      (N.of_nat (length bs) <= want)%N /\
      (bs = [] \/ (pos + N.of_nat (length bs) <= flen b)%N /\ bs = slice b (N.to_nat pos) (length bs))
  end.
Proof. exact k_read_at_in_file. Qed.
Print Assumptions C13_read_slice_in_file.

(* every input is processed or rejected *)
Theorem C13_elf_spec_total : forall b : str,
  elf_interp_spec b = None \/
  exists s, elf_interp_spec b = Some s /\
            Forall (fun c => (N_of_ascii c =? 0)%N = false) s /\
            (N.of_nat (length s) < two32)%N /\ length s < length b.
Proof. exact elf_spec_total_reject_or_accept. Qed.
Print Assumptions C13_elf_spec_total.

(* truncated images of the harness are rejected, whole ones accepted *)
Theorem C13_elf_truncated_rejected : forall (interp : str) (phnum n : nat),
  2 <= phnum -> (N.of_nat phnum < 65536)%N -> (N.of_nat (length interp) < two32)%N ->
  n < length (mk_elf interp phnum) ->
  elf_interp_spec (firstn n (mk_elf interp phnum)) = None.
Proof. exact elf_truncated_rejected. Qed.
Print Assumptions C13_elf_truncated_rejected.
