(* C03, world level, part 2: the queue under EVERY oracle.

   - read_entry / q_pop_head / q_get_head under every oracle (failing calls,
     crashes): the only change they make to the file system is the removal of
     the link of the current head, and the in-memory queue is updated exactly
     when that unlinkat has succeeded;
   - the invariant G of the timeout pass: relative to the entries [ents0] the
     queue held at the start, memory and disk hold the suffix [skipn k ents0]
     (QueueProofs.QRel), the dentry keys are unique, and the store invariant of
     StoreFs.v holds relative to two reference file systems;
   - handle_timeout_loop keeps G (with k only growing) as postcondition and as
     crash condition, for every oracle. *)
From K Require Import Str Dec Trace Fs World Progs Elf Linq LinqSpec LinqProofs Sieve Handler Hoare
     Confine Confine2 SyncProofs AbandonProofs StoreFs StoreLogic StoreProgs DecProofs QueueProofs
     CrashFrame.
From Coq Require Import Lia.

(* ---------- more rules of the program logic ---------- *)

Lemma ht_oracles {A} (O1 O2 : oracle -> Prop) P (m : M A) Q C :
  (forall o, O2 o -> O1 o) -> ht O1 P m Q C -> ht O2 P m Q C.
Proof. intros HO H o w Ho Hp. apply H; auto. Qed.

Lemma ht_conseq3 {A} O (P P' : world -> Prop) (m : M A) (Q Q' : A -> world -> Prop) (C C' : world -> Prop) :
  (forall w, P' w -> P w) -> (forall a w, Q a w -> Q' a w) -> (forall w, C w -> C' w) ->
  ht O P m Q C -> ht O P' m Q' C'.
Proof.
  intros H1 H2 H3 H o w Ho Hp. specialize (H o w Ho (H1 w Hp)).
  destruct (m o w) as [[a|] w']; auto.
Qed.

Lemma ht_conj {A} O (P1 P2 : world -> Prop) (m : M A) (Q1 Q2 : A -> world -> Prop) (C1 C2 : world -> Prop) :
  ht O P1 m Q1 C1 -> ht O P2 m Q2 C2 ->
  ht O (fun w => P1 w /\ P2 w) m (fun a w => Q1 a w /\ Q2 a w) (fun w => C1 w /\ C2 w).
Proof.
  intros H1 H2 o w Ho [Hp1 Hp2]. specialize (H1 o w Ho Hp1). specialize (H2 o w Ho Hp2).
  destruct (m o w) as [[a|] w']; auto.
Qed.

(* the initial world may be named *)
Lemma ht_freeze {A} O (P : world -> Prop) (m : M A) Q C :
  (forall w0, P w0 -> ht O (fun w => w = w0) m Q C) -> ht O P m Q C.
Proof. intros H o w Ho Hp. exact (H w Hp o w Ho eq_refl). Qed.

(* a pure consequence of the precondition may be used for the program *)
Lemma ht_pure_pre {A} O (phi : Prop) (P : world -> Prop) (m : M A) Q C :
  (forall w, P w -> phi) -> (phi -> ht O P m Q C) -> ht O P m Q C.
Proof. intros H1 H2 o w Ho Hp. exact (H2 (H1 w Hp) o w Ho Hp). Qed.

Lemma ht_mod_tr O (P : world -> Prop) g (Q : unit -> world -> Prop) C :
  (forall w, P w -> Q tt (QueueProofs.upd_tr g w)) -> ht O P (mod_tr g) Q C.
Proof. intros H o w _ Hp. rewrite mod_tr_eq. apply H. exact Hp. Qed.

Lemma ht_is_ok O (P : world -> Prop) (Q : bool -> world -> Prop) C :
  (forall w, P w -> Q (tr_ok (w_tr w)) w) -> ht O P is_ok Q C.
Proof. intros H o w _ Hp. rewrite is_ok_eq. apply H. exact Hp. Qed.

(* ---------- the error trace: an error stays until it is caught ---------- *)

Lemma tr_push_not_ok fr t : tr_ok (tr_push fr t) = false.
Proof. reflexivity. Qed.

Lemma tr_rethrow_context_not_ok s t : tr_ok t = false -> tr_ok (tr_rethrow_context s t) = false.
Proof.
  intros H. unfold tr_rethrow_context.
  destruct (Nat.eqb (t_post t) 0 && negb (tr_ok t)); [reflexivity | exact H].
Qed.

Lemma tr_decrement_frames t : t_frames (snd (tr_decrement t)) = t_frames t.
Proof. unfold tr_decrement. destruct (t_post t); reflexivity. Qed.

Lemma tr_finally_rethrow_not_ok m t : tr_ok t = false -> tr_ok (tr_finally_rethrow_static m t) = false.
Proof.
  intros H. unfold tr_finally_rethrow_static.
  pose proof (tr_decrement_frames t) as E. destruct (tr_decrement t) as [b t']. cbn [snd] in E.
  assert (H' : tr_ok t' = false) by (unfold tr_ok in *; rewrite E; exact H).
  destruct (b && negb (tr_ok t')); [reflexivity | exact H'].
Qed.

(* ---------- read_entry under every oracle ---------- *)

(* the file system is [f1] throughout; a returned target is the complete
   target of the link; no target is returned only if an error is in the trace
   or (model of the 64 doubling attempts) the buffer never reached the length
   of the target *)
Definition re_post (f1 : fs) (p : str) (fuel size : nat) (r : option str) (w : world) : Prop :=
  w_fs w = f1 /\
  match r with
  | Some x => exists t, lookup f1 p = Some (NLink x t)
  | None => tr_ok (w_tr w) = false \/ fuel = 0 \/
            exists x t, lookup f1 p = Some (NLink x t) /\ size * 2 ^ (fuel - 1) <= length x
  end.

Lemma ht_read_entry_loop O f1 dir name : forall fuel size,
  ht O (fun w => w_fs w = f1) (read_entry_loop fuel dir name size)
     (re_post f1 (join dir name) fuel size) (fun w => w_fs w = f1).
Proof.
  induction fuel as [|fuel IH]; intros size; cbn [read_entry_loop].
  - apply ht_ret. intros w Hw. split; [exact Hw|]. right. left. reflexivity.
  - eapply ht_bind; [apply ht_mod_tr with (Q := fun _ w => w_fs w = f1); intros w Hw; exact Hw|intros ?].
    eapply ht_bind with
      (R := fun r w => w_fs w = f1 /\
              match r with
              | inl x => exists y t, lookup f1 (join dir name) = Some (NLink y t) /\ x = firstn size y
              | inr _ => True
              end).
    { unfold k_readlinkat. apply ht_sys.
      - auto.
      - intros w e Hw. cbn. auto.
      - intros w Hw. rewrite Hw. unfold fs_readlink.
        destruct (lookup f1 (join dir name)) as [[| |y t]|]; cbn; (split; [reflexivity|]); try exact I.
        exists y, t. auto. }
    intros r.
    eapply ht_bind with
      (R := fun _ w => w_fs w = f1 /\
              match r with
              | inl x => exists y t, lookup f1 (join dir name) = Some (NLink y t) /\ x = firstn size y
              | inr _ => tr_ok (w_tr w) = false
              end).
    { destruct r as [x|e].
      - apply ht_ret. auto.
      - unfold throw_errno, throw. apply ht_mod_tr. intros w [Hw _]. split; [exact Hw | reflexivity]. }
    intros ?.
    eapply ht_bind with
      (R := fun _ w => w_fs w = f1 /\
              match r with
              | inl x => exists y t, lookup f1 (join dir name) = Some (NLink y t) /\ x = firstn size y
              | inr _ => tr_ok (w_tr w) = false
              end).
    { unfold rethrow_context. apply ht_mod_tr. intros w [Hw Hr]. split; [exact Hw|].
      destruct r; [exact Hr|]. cbn [QueueProofs.upd_tr w_tr]. apply tr_rethrow_context_not_ok. exact Hr. }
    intros ?.
    eapply ht_bind with
      (R := fun _ w => w_fs w = f1 /\
              match r with
              | inl x => exists y t, lookup f1 (join dir name) = Some (NLink y t) /\ x = firstn size y
              | inr _ => tr_ok (w_tr w) = false
              end).
    { unfold finally_rethrow_static. apply ht_mod_tr. intros w [Hw Hr]. split; [exact Hw|].
      destruct r; [exact Hr|]. cbn [QueueProofs.upd_tr w_tr]. apply tr_finally_rethrow_not_ok. exact Hr. }
    intros ?.
    eapply ht_bind with
      (R := fun b w => (w_fs w = f1 /\
              match r with
              | inl x => exists y t, lookup f1 (join dir name) = Some (NLink y t) /\ x = firstn size y
              | inr _ => tr_ok (w_tr w) = false
              end) /\ b = tr_ok (w_tr w)).
    { apply ht_is_ok. auto. }
    intros b. destruct b; cbn [negb].
    + destruct r as [x|e].
      * destruct (Nat.ltb_spec (length x) size) as [Hlt|Hge].
        -- apply ht_ret. intros w [[Hw [y [t [Hl Hx]]]] _]. split; [exact Hw|].
           exists t. subst x. rewrite firstn_length in Hlt.
           rewrite firstn_all2 by lia. exact Hl.
        -- apply ht_pure_pre with
             (phi := exists y t, lookup f1 (join dir name) = Some (NLink y t) /\ size <= length y).
           { intros w [[_ [y [t [Hl Hx]]]] _]. exists y, t. split; [exact Hl|].
             subst x. rewrite firstn_length in Hge. lia. }
           intros [y [t [Hl Hlen]]].
           eapply ht_conseq3; [| | |apply (IH (size * 2))].
           ++ intros w [[Hw _] _]. exact Hw.
           ++ intros r w [Hw Hr]. split; [exact Hw|]. destruct r as [z|]; [exact Hr|].
              destruct Hr as [Hr|[Hr|[y' [t' [Hl' Hlen']]]]].
              ** left. exact Hr.
              ** right. right. exists y, t. split; [exact Hl|]. subst fuel.
                 replace (1 - 1) with 0 by lia. rewrite Nat.pow_0_r. lia.
              ** right. right. exists y', t'. split; [exact Hl'|].
                 destruct fuel as [|fuel'].
                 { replace (0 - 1) with 0 in Hlen' by lia. replace (1 - 1) with 0 by lia.
                   rewrite Nat.pow_0_r in *. lia. }
                 replace (S fuel' - 1) with fuel' in Hlen' by lia.
                 replace (S (S fuel') - 1) with (S fuel') by lia.
                 rewrite Nat.pow_succ_r'. lia.
           ++ auto.
      * apply ht_ret. intros w [[Hw Hr] Hb]. split; [exact Hw|]. left. exact Hr.
    + apply ht_ret. intros w [[Hw _] Hb]. split; [exact Hw|]. left. symmetry. exact Hb.
Qed.

Lemma ht_read_entry O f1 q name :
  ht O (fun w => w_fs w = f1) (read_entry q name)
     (fun r w => w_fs w = f1 /\
        match r with
        | Some x => exists t, lookup f1 (join (q_dir q) name) = Some (NLink x t)
        | None => tr_ok (w_tr w) = false \/
                  exists x t, lookup f1 (join (q_dir q) name) = Some (NLink x t) /\
                              S (q_len_guess q) * 2 ^ 63 <= length x
        end)
     (fun w => w_fs w = f1).
Proof.
  unfold read_entry, when_ok.
  eapply ht_bind with (R := fun b w => w_fs w = f1 /\ b = tr_ok (w_tr w)); [apply ht_is_ok; auto|].
  intros b. destruct b.
  - eapply ht_conseq3; [| | |apply (ht_read_entry_loop O f1 (q_dir q) name 64 (S (q_len_guess q)))].
    + intros w [Hw _]. exact Hw.
    + intros r w [Hw Hr]. split; [exact Hw|]. destruct r as [x|]; [exact Hr|].
      destruct Hr as [Hr|[Hr|Hr]]; [left; exact Hr | discriminate | right; exact Hr].
    + auto.
  - apply ht_ret. intros w [Hw Hb]. split; [exact Hw|]. left. symmetry. exact Hb.
Qed.

(* ---------- q_pop_head under every oracle ---------- *)

Lemma ht_pop_raw O f1 q :
  (forall x t, lookup f1 (head_name q) = Some (NLink x t) -> length x < S (q_len_guess q) * 2 ^ 63) ->
  ht O (fun w => w_fs w = f1) (q_pop_head q)
     (fun q' w => (q' = q /\ w_fs w = f1) \/
                  (exists x t, lookup f1 (head_name q) = Some (NLink x t) /\
                               q' = popped (strip x) q /\ w_fs w = del_dent (head_name q) f1))
     (fun w => w_fs w = f1).
Proof.
  intros Hfit. unfold q_pop_head, when_ok.
  eapply ht_bind with (R := fun b w => w_fs w = f1); [apply ht_is_ok; auto|].
  intros b. destruct b; [|apply ht_ret; auto].
  eapply ht_bind; [apply ht_read_entry|]. intros r.
  eapply ht_bind with
    (R := fun b w => (w_fs w = f1 /\
            match r with
            | Some x => exists t, lookup f1 (head_name q) = Some (NLink x t)
            | None => tr_ok (w_tr w) = false
            end) /\ b = tr_ok (w_tr w)).
  { apply ht_is_ok. intros w [Hw Hr]. split; [|reflexivity]. split; [exact Hw|].
    destruct r as [x|]; [exact Hr|]. destruct Hr as [Hr|[x [t [Hl Hlen]]]]; [exact Hr|].
    specialize (Hfit x t Hl). lia. }
  intros b2. destruct b2; cbn [negb]; [|apply ht_ret; intros w [[Hw _] _]; auto].
  destruct r as [x|].
  2:{ (* no target and no error: excluded *)
      intros o w _ [[_ Hr] Hb]. congruence. }
  apply ht_pure_pre with (phi := exists t, lookup f1 (head_name q) = Some (NLink x t)).
  { intros w [[_ Hr] _]. exact Hr. }
  intros [t Hl].
  eapply ht_bind with
    (R := fun r w => match r with
                     | Some _ => w_fs w = f1
                     | None => w_fs w = del_dent (head_name q) f1
                     end).
  { unfold k_unlinkat, sys_unit. apply ht_sys.
    - intros w [[Hw _] _]. exact Hw.
    - intros w e [[Hw _] _]. cbn. exact Hw.
    - intros w [[Hw _] _]. rewrite Hw. fold (head_name q). unfold fs_unlink. rewrite Hl. cbn. reflexivity. }
  intros r. destruct r as [e|].
  - eapply ht_bind with (R := fun _ w => w_fs w = f1).
    + unfold throw_errno, throw. apply ht_mod_tr. intros w Hw. exact Hw.
    + intros ?. apply ht_ret. auto.
  - apply ht_ret. intros w Hw. right. exists x, t. split; [exact Hl|]. split; [reflexivity | exact Hw].
Qed.

(* ---------- the invariant of the pass ---------- *)

(* the queue directory does not nest with any of the four trees the pass writes to *)
Definition qdir_ok2 (c : config) (d : str) : Prop :=
  qdir_ok c d /\ nn d (c_unstable_root c) /\ nn d (c_offset_root c).

Lemma qdir_ok2_queue c : disjoint_locs c -> qdir_ok2 c (c_queue_path c).
Proof.
  intros D. split; [apply qdir_ok_queue; exact D|].
  destruct D as [PW _]. unfold cfg_locs in PW. cbn [pairwise app] in PW.
  destruct PW as [_ [_ [H3 [H4 _]]]]. rewrite Forall_forall in H3, H4.
  split.
  - apply nn_sym. apply H3. cbn. tauto.
  - apply H4. cbn. tauto.
Qed.

Lemma ht_pre_or {A} O (P1 P2 : world -> Prop) (m : M A) Q C :
  ht O P1 m Q C -> ht O P2 m Q C -> ht O (fun w => P1 w \/ P2 w) m Q C.
Proof. intros H1 H2 o w Ho [Hp|Hp]; [apply H1 | apply H2]; assumption. Qed.

Lemma tok_pure {A} (P : fs -> Prop) (phi : Prop) (m : M A) : tok P m -> tok (fun f => P f /\ phi) m.
Proof.
  intros H o w Ho [Hp Hphi]. specialize (H o w Ho Hp). destruct (m o w) as [[a|] w']; tauto.
Qed.

Lemma tri_pure {A} (P : fs -> Prop) (R : A -> Prop) (phi : Prop) (m : M A) :
  tri P R m -> tri (fun f => P f /\ phi) R m.
Proof.
  intros H o w Ho [Hp Hphi]. specialize (H o w Ho Hp). destruct (m o w) as [[a|] w']; tauto.
Qed.

Lemma htf_ex_pre {A B} (P : B -> fs -> Prop) (m : M A) Q C :
  (forall x, htf (P x) m Q C) -> htf (fun f => exists x, P x f) m Q C.
Proof. intros H o w Ho [x Hp]. exact (H x o w Ho Hp). Qed.

Lemma htf_pure_pre {A} (phi : Prop) (P : fs -> Prop) (m : M A) Q C :
  (phi -> htf P m Q C) -> htf (fun f => phi /\ P f) m Q C.
Proof. intros H o w Ho [Hphi Hp]. exact (H Hphi o w Ho Hp). Qed.

Lemma skipn_cons_inv {A} (l : list A) : forall k e rest,
  skipn k l = e :: rest -> skipn (S k) l = rest /\ k < length l.
Proof.
  induction l as [|x l IH]; intros k e rest H.
  - destruct k; discriminate.
  - destruct k as [|k]; cbn [skipn] in H.
    + inversion H; subst. split; [reflexivity | cbn; lia].
    + destruct (IH k e rest H) as [H1 H2]. split; [exact H1 | cbn; lia].
Qed.

(* the tail of one iteration of handle_timeout_loop over a file head, after the
   copy loop has returned [r2] (same text as in Handler.v) *)
Definition file_tail (fuel' : nat) (reverse : bool) (h1 : handler) (cfg : config) (path rel : str)
           (pre_off : nat) (r2 : option str * bool * store_path) : M (tresult * handler) :=
  let '(ev, is_stored, sp') := r2 in
  do q2 <- q_pop_head (h_q h1);
  let h2 := set_q q2 h1 in
  do b4 <- is_ok;
  if negb b4 then
    throw_context path;; throw_static M_store_cannot_copy;; ret_ (TError, h2)
  else
    (if Nat.ltb 0 pre_off && is_stored then
       let ns := name_start path pre_off pre_off in
       let project_path :=
         c_unstable_root cfg ++ ch_slash :: (firstn (pre_off - ns) (skipn ns path))
                            ++ skipn pre_off path in
       do u <- k_unlink project_path;
       match u with
       | None | Some ENOENT => ret_ tt
       | Some e => throw_errno e
       end;;
       create_parents project_path;;
       do b5 <- is_ok;
       (if b5 then
          do l <- k_link (current_path sp') project_path;
          match l with Some e => throw_errno e | None => ret_ tt end
        else ret_ tt)
     else ret_ tt);;
    record_event ev 0%N rel h2;;
    handle_timeout_loop fuel' reverse h2.

Section Pass.
Variables (c : config) (oj : option journal) (f0 fm : fs) (d : str) (ents0 : list qent) (h0 : N).
Hypothesis D : disjoint_locs c.
Hypothesis Hd : qdir_ok2 c d.

(* the k-th entry of the original queue still has its original name h0 + k *)
Definition NQ (k : nat) (q : qmem) : Prop :=
  k < length ents0 -> q_head q = (h0 + N.of_nat k)%N.

Definition G (k : nat) (q : qmem) (f : fs) : Prop :=
  ((Inv c oj f0 f /\ Inv c oj fm f) /\ FRq q (skipn k ents0) f) /\ NQ k q.

Definition CG (k : nat) (f : fs) : Prop :=
  exists k' q', (k <= k' /\ k' <= length ents0) /\ q_dir q' = d /\ G k' q' f.

Lemma G_CG k q f : k <= length ents0 -> q_dir q = d -> G k q f -> CG k f.
Proof. intros Hk Hq H. exists k, q. auto. Qed.

Lemma CG_mono k k' f : k <= k' -> CG k' f -> CG k f.
Proof. intros Hle [k'' [q' [[H1 H2] H3]]]. exists k'', q'. split; [lia | exact H3]. Qed.

Let Hqd : qdir_ok c d := proj1 Hd.

Lemma aw_store p : inside (c_store_root c) p -> away d p.
Proof. apply nn_away. pose proof Hqd as [_ [H _]]. exact H. Qed.
Lemma aw_pstore p : inside (c_project_store_root c) p -> away d p.
Proof. apply nn_away. pose proof Hqd as [_ [_ H]]. exact H. Qed.
Lemma aw_unst p : inside (c_unstable_root c) p -> away d p.
Proof. apply nn_away. pose proof Hd as [_ [H _]]. exact H. Qed.
Lemma aw_off p : inside (c_offset_root c) p -> away d p.
Proof. apply nn_away. pose proof Hd as [_ [_ H]]. exact H. Qed.

Ltac frq := first [ apply FRq_add | apply FRq_del | apply FRq_files ].

Lemma G_tok {A} k q (m : M A) :
  tok (Inv c oj f0) m -> tok (Inv c oj fm) m -> tok (FRq q (skipn k ents0)) m -> tok (G k q) m.
Proof. intros H1 H2 H3. apply tok_pure. apply tok_conj; [apply tok_conj; assumption | assumption]. Qed.

Lemma G_ro {A} k q (m : M A) : (forall P, tok P m) -> tok (G k q) m.
Proof. intros H. apply H. Qed.

Lemma G_record_event k q ev pid path h : h_journal h = oj -> tok (G k q) (record_event ev pid path h).
Proof.
  intros E. apply G_tok; try (apply tok_record_event; assumption).
  eapply fk_record_event; frq.
Qed.

Lemma G_project_store_loop k q fuel rev sp unstable head cfg ev :
  q_dir q = d ->
  spI (c_project_store_root c) sp ->
  StoreFs.under (c_unstable_root c) unstable -> unstable <> root_path -> unstable <> [] ->
  tok (G k q) (project_store_loop fuel rev sp unstable head cfg ev).
Proof.
  intros Eq Hs Hu Hu1 Hu2. apply G_tok; try (apply tok_project_store_loop; assumption).
  eapply fk_project_store_loop with (root := c_project_store_root c); try frq; try assumption.
  - rewrite Eq. apply aw_pstore.
  - intros r. rewrite Eq. apply aw_unst. destruct Hu as [x ->]. right.
    exists (x ++ ch_slash :: r). rewrite <- app_assoc. reflexivity.
Qed.

Lemma G_file_store_loop k q fuel sp head offp off ish cfg :
  q_dir q = d ->
  spI (c_store_root c) sp -> StoreFs.under (c_offset_root c) offp ->
  tri (G k q) (fun r => spI (c_store_root c) (snd r)) (file_store_loop fuel sp head offp off ish cfg).
Proof.
  intros Eq Hs Ho.
  eapply tri_weaken.
  - apply tri_pure. apply tri_conj; [apply tri_conj|].
    + apply (tri_file_store_loop c oj f0 D fuel sp head offp off ish cfg (c_store_root c) Hs Ho).
    + apply (tri_file_store_loop c oj fm D fuel sp head offp off ish cfg (c_store_root c) Hs Ho).
    + eapply fk_file_store_loop with (root := c_store_root c); try frq; try assumption.
      * rewrite Eq. apply aw_store.
      * rewrite Eq. apply aw_off. destruct Ho as [x ->]. right. exists x. reflexivity.
  - intros r [[H _] _]. exact H.
Qed.

(* the block that refreshes the hard link of a stored file in the unstable project tree *)
Lemma G_link_block k q (cond : bool) project_path sp' :
  q_dir q = d ->
  StoreFs.under (c_unstable_root c) project_path -> spI (c_store_root c) sp' ->
  tok (G k q)
    (if cond then
       do u <- k_unlink project_path;
       match u with
       | None | Some ENOENT => ret_ tt
       | Some e => throw_errno e
       end;;
       create_parents project_path;;
       do b5 <- is_ok;
       (if b5 then
          do l <- k_link (current_path sp') project_path;
          match l with Some e => throw_errno e | None => ret_ tt end
        else ret_ tt)
     else ret_ tt).
Proof.
  intros Eq Hpu Hr2. destruct cond; [|apply tok_ret].
  assert (Haw : away (q_dir q) project_path).
  { rewrite Eq. apply aw_unst. destruct Hpu as [x ->]. right. exists x. reflexivity. }
  assert (Hps : forall f1, safe_path c f1 project_path)
    by (intros f1; apply not_kept_safe; apply unst_not_kept; assumption).
  assert (Hpi : imm c project_path) by (right; exact Hpu).
  assert (Hcur : imm c (current_path sp'))
    by (left; left; apply current_path_under; exact Hr2).
  apply G_tok.
  - apply tok_bind; [apply tok_unlink; apply Hps|intros u].
    apply tok_bind; [destruct u as [[]|]; tk_with leaf1|intros ?].
    apply tok_bind; [apply tok_create_parents; apply IV_add|intros ?].
    apply tok_bind; [tk_with leaf1|intros b5]. destruct b5; [|apply tok_ret].
    apply tok_bind; [apply tok_link; assumption|intros l]. destruct l; tk_with leaf1.
  - apply tok_bind; [apply tok_unlink; apply Hps|intros u].
    apply tok_bind; [destruct u as [[]|]; tk_with leaf1|intros ?].
    apply tok_bind; [apply tok_create_parents; apply IV_add|intros ?].
    apply tok_bind; [tk_with leaf1|intros b5]. destruct b5; [|apply tok_ret].
    apply tok_bind; [apply tok_link; assumption|intros l]. destruct l; tk_with leaf1.
  - apply tok_bind; [eapply fk_unlink; try frq; exact Haw|intros u].
    apply tok_bind; [destruct u as [[]|]; tk_with leaf1|intros ?].
    apply tok_bind; [eapply fk_create_parents; try frq; exact Haw|intros ?].
    apply tok_bind; [tk_with leaf1|intros b5]. destruct b5; [|apply tok_ret].
    apply tok_bind; [eapply fk_link; try frq; exact Haw|intros l]. destruct l; tk_with leaf1.
Qed.


(* ---------- the queue operations keep G, with k growing ---------- *)

Lemma G_fit k q f : G k q f ->
  forall x t, lookup f (head_name q) = Some (NLink x t) -> length x < S (q_len_guess q) * 2 ^ 63.
Proof.
  intros [[_ [_ HR]] _] x t Hl. destruct (skipn k ents0) as [|[[p m] t'] rest] eqn:E.
  - pose proof (QR_free _ _ _ HR (q_head q)) as Hf. cbn [length] in Hf.
    unfold head_name in Hl. rewrite Hf in Hl by lia. discriminate.
  - pose proof (QRel_head _ _ _ _ _ _ HR) as Hh. unfold head_name in Hl. rewrite Hh in Hl.
    inversion Hl; subst x t'. pose proof (QR_wf _ _ _ HR) as Hw. apply Forall_inv in Hw.
    destruct Hw as [_ Hfit]. exact Hfit.
Qed.

Lemma G_popped k q f x t :
  q_dir q = d -> G k q f -> lookup f (head_name q) = Some (NLink x t) ->
  k < length ents0 /\ G (S k) (popped (strip x) q) (del_dent (head_name q) f).
Proof.
  intros Eq [[[H0 Hm] [[Hnd Hcl] HR]] HN] Hl. destruct (skipn k ents0) as [|[[p m] t'] rest] eqn:E.
  - pose proof (QR_free _ _ _ HR (q_head q)) as Hf. cbn [length] in Hf.
    unfold head_name in Hl. rewrite Hf in Hl by lia. discriminate.
  - pose proof (QRel_head _ _ _ _ _ _ HR) as Hh. unfold head_name in Hl. rewrite Hh in Hl.
    inversion Hl; subst x t'. clear Hl.
    pose proof (QR_wf _ _ _ HR) as Hw. apply Forall_inv in Hw. destruct Hw as [Hnorm _].
    unfold qpath in Hnorm. cbn [fst] in Hnorm. rewrite (strip_encode m p Hnorm).
    destruct (skipn_cons_inv ents0 k _ _ E) as [E' Hlt]. split; [exact Hlt|].
    assert (Hsafe : forall f1, safe_path c f1 (head_name q)).
    { intros f1. unfold head_name. rewrite Eq. apply not_kept_safe. apply qdir_not_kept. exact Hqd. }
    split; [split; [split|split]|].
    + apply Inv_del; [apply Hsafe | exact H0].
    + apply Inv_del; [apply Hsafe | exact Hm].
    + split; [apply keys_nodup_del; exact Hnd|]. destruct Hcl as [Hne Hc]. split; [exact Hne|].
      intros x Hdx Hr Hx. apply (Hc x Hdx Hr). eapply lookup_del_dent_some. exact Hx.
    + rewrite E'. apply (QRel_pop q f p m t rest Hnd HR).
    + intros Hlt2. destruct rest as [|e2 rest2].
      * exfalso. pose proof (skipn_length (S k) ents0) as Hl. rewrite E' in Hl. cbn [length] in Hl. lia.
      * rewrite (popped_head q f _ _ _ p HR). rewrite (HN Hlt). lia.
Qed.

Definition pop_post (k : nat) (q q' : qmem) (f : fs) : Prop :=
  q_dir q' = d /\ ((q' = q /\ G k q f) \/ (k < length ents0 /\ G (S k) q' f)).

Lemma htf_pop k q : q_dir q = d -> htf (G k q) (q_pop_head q) (pop_post k q) (G k q).
Proof.
  intros Eq. unfold htf. apply ht_freeze. intros w0 Hw0.
  eapply ht_conseq3; [| | |apply (ht_pop_raw (fun _ => True) (w_fs w0) q (G_fit k q _ Hw0))].
  - intros w ->. reflexivity.
  - intros q' w [[-> Hw]|[x [t [Hl [-> Hw]]]]]; rewrite Hw.
    + split; [exact Eq|]. left. auto.
    + split; [exact Eq|]. right. eapply G_popped; eauto.
  - intros w Hw. rewrite Hw. exact Hw0.
Qed.

Definition gh_post (k : nat) (r : option qhead * qmem) (f : fs) : Prop :=
  exists k', (k <= k' /\ k' <= length ents0) /\ q_dir (snd r) = d /\ G k' (snd r) f.

Lemma gh_here k q hd f : k <= length ents0 -> q_dir q = d -> G k q f -> gh_post k (hd, q) f.
Proof. intros Hk Eq H. exists k. cbn [snd]. auto. Qed.

Lemma htf_get_head fuel : forall k q,
  q_dir q = d -> k <= length ents0 -> htf (G k q) (q_get_head fuel q) (gh_post k) (CG k).
Proof.
  induction fuel as [|fuel IH]; intros k q Eq Hk; rewrite q_get_head_unfold.
  all: assert (HPC : forall f, G k q f -> CG k f) by (intros f HGf; eapply G_CG; [| |exact HGf]; assumption).
  all: assert (Hret : forall hd, htf (G k q) (ret_ (hd, q)) (gh_post k) (CG k))
         by (intros hd; apply htf_ret; intros f; apply gh_here; assumption).
  all: eapply htf_bind_tri; [apply tri_of_tok; apply G_ro; intros P; tk_with leaf1 | exact HPC | intros b _].
  all: destruct (negb b); [apply Hret|].
  all: destruct (q_size q =? 0)%N; [apply Hret|].
  all: eapply htf_bind_tri; [apply tri_of_tok; apply G_ro; intros P; tk_with leaf1 | exact HPC | intros st _].
  all: destruct st as [mtime|e];
    [|eapply htf_bind_tri; [apply tri_of_tok; apply G_ro; intros P; tk_with leaf1 | exact HPC | intros ? _]; apply Hret].
  all: eapply htf_bind_tri; [apply tri_of_tok; apply G_ro; intros P; tk_with leaf1 | exact HPC | intros now _].
  all: match goal with |- htf _ (if ?x then _ else _) _ _ => destruct x end; [apply Hret|].
  all: eapply htf_bind_tri; [apply tri_of_tok; apply G_ro; intros P; tk_with leaf1 | exact HPC | intros t _].
  all: eapply htf_bind_tri; [apply tri_of_tok; apply G_ro; intros P; tk_with leaf1 | exact HPC | intros b2 _].
  all: destruct t as [target|]; [|apply Hret].
  all: destruct b2; [|apply Hret].
  all: destruct (decode target) as [meta path].
  all: match goal with |- htf _ (if ?x then _ else _) _ _ => destruct x end; [|apply Hret].
  - apply Hret.
  - eapply htf_bind.
    + eapply htf_conseq; [| | |apply (htf_pop k q Eq)]; [auto | intros a f H; exact H | exact HPC].
    + intros q'. unfold pop_post. unfold htf. apply ht_pure. intros Eq'.
      apply ht_pre_or.
      * apply ht_pure. intros ->. apply (IH k q Eq Hk).
      * apply ht_pure. intros Hlt.
        eapply ht_conseq3; [| | |apply (IH (S k) q' Eq' Hlt)].
        -- auto.
        -- intros r w [k' [[H1 H2] H3]]. exists k'. split; [lia | exact H3].
        -- intros w. apply CG_mono. lia.
Qed.


(* ---------- the loop of the pass ---------- *)

Definition LQ (k : nat) (r : tresult * handler) (f : fs) : Prop :=
  exists k', (k <= k' /\ k' <= length ents0) /\ G k' (h_q (snd r)) f /\
             HI c oj (snd r) /\ q_dir (h_q (snd r)) = d.

Lemma LQ_here k r h f :
  k <= length ents0 -> HI c oj h -> q_dir (h_q h) = d -> G k (h_q h) f -> LQ k (r, h) f.
Proof. intros Hk Hh Eq H. exists k. cbn [snd]. auto. Qed.

Lemma LQ_mono k k' r f : k <= k' -> LQ k' r f -> LQ k r f.
Proof. intros Hle [k'' [[H1 H2] H3]]. exists k''. split; [lia | exact H3]. Qed.

Definition loop_ok (fuel : nat) : Prop := forall rev h k,
  HI c oj h -> q_dir (h_q h) = d -> k <= length ents0 ->
  htf (G k (h_q h)) (handle_timeout_loop fuel rev h) (LQ k) (CG k).

(* after a queue operation: continue with the same k or with k + 1 *)
Lemma htf_after_pop {B} k q q' (mq : M B) (Q : B -> fs -> Prop) (C : fs -> Prop) :
  k <= length ents0 ->
  (forall k', k <= k' -> k' <= length ents0 -> q_dir q' = d -> htf (G k' q') mq Q C) ->
  htf (pop_post k q q') mq Q C.
Proof.
  intros Hk Hm. unfold pop_post, htf. apply ht_pure. intros Eq'. apply ht_pre_or.
  - apply ht_pure. intros E. rewrite <- E. apply (Hm k); auto.
  - apply ht_pure. intros Hlt. apply (Hm (S k)); auto; lia.
Qed.

Lemma tailG fuel rev h1 path rel pre_off r2 k :
  loop_ok fuel -> HI c oj h1 -> q_dir (h_q h1) = d -> k <= length ents0 ->
  spI (c_store_root c) (snd r2) ->
  htf (G k (h_q h1)) (file_tail fuel rev h1 c path rel pre_off r2) (LQ k) (CG k).
Proof.
  intros IH Hh1 Eq Hk Hr2. destruct r2 as [[ev is_stored] sp']. cbn [snd] in Hr2. unfold file_tail.
  eapply htf_bind.
  { eapply htf_conseq; [| | |apply (htf_pop k (h_q h1) Eq)];
      [auto | intros a f H; exact H | intros f HGf; eapply G_CG; [| |exact HGf]; assumption]. }
  intros q2. apply (htf_after_pop k (h_q h1) q2); [exact Hk|]. intros k' Hk1 Hk2 Eq2.
  assert (HPC : forall f, G k' q2 f -> CG k f).
  { intros f H. apply (CG_mono k k'); [exact Hk1 | eapply G_CG; [| |exact H]; assumption]. }
  assert (Hh2 : HI c oj (set_q q2 h1)).
  { apply HI_set_q; [exact Hh1 | congruence]. }
  cbv zeta.
  eapply htf_bind_tri; [apply tri_of_tok; apply G_ro; intros P; tk_with leaf1 | exact HPC | intros b4 _].
  destruct (negb b4).
  { eapply htf_bind_tri; [apply tri_of_tok; apply G_ro; intros P; tk_with leaf1 | exact HPC | intros ? _].
    eapply htf_bind_tri; [apply tri_of_tok; apply G_ro; intros P; tk_with leaf1 | exact HPC | intros ? _].
    apply htf_ret. intros f Hf. apply (LQ_mono k k'); [exact Hk1|]. apply LQ_here; auto. }
  eapply htf_bind_tri; [apply tri_of_tok | exact HPC | intros ? _].
  { apply G_link_block; [exact Eq2 | eexists; reflexivity | exact Hr2]. }
  eapply htf_bind_tri; [apply tri_of_tok | exact HPC | intros ? _].
  { apply G_record_event. destruct Hh2 as [_ [E _]]. exact E. }
  eapply htf_conseq; [| | |apply (IH rev (set_q q2 h1) k' Hh2 Eq2 Hk2)].
  - auto.
  - intros r f. apply LQ_mono. exact Hk1.
  - intros f. apply CG_mono. exact Hk1.
Qed.

Lemma loopG fuel : loop_ok fuel.
Proof.
  induction fuel as [|fuel IH]; intros rev h k Hh Eq Hk; cbn [handle_timeout_loop].
  { apply htf_ret. intros f Hf. apply LQ_here; auto. }
  assert (HPC : forall f, G k (h_q h) f -> CG k f) by (intros f HGf; eapply G_CG; [| |exact HGf]; assumption).
  eapply htf_bind_tri; [apply tri_of_tok; apply G_ro; intros P; tk_with leaf1 | exact HPC | intros b _].
  destruct (negb b); [apply htf_ret; intros f Hf; apply LQ_here; auto|].
  eapply htf_bind_tri; [apply tri_of_tok; apply G_ro; intros P; tk_with leaf1 | exact HPC | intros ? _].
  eapply htf_bind; [apply (htf_get_head _ k (h_q h) Eq Hk)|]. intros r.
  destruct r as [hd q1]. unfold gh_post. cbn [snd].
  apply htf_ex_pre. intros k1. apply htf_pure_pre. intros [Hk1 Hk2]. apply htf_pure_pre. intros Eq1.
  assert (Hh1 : HI c oj (set_q q1 h)) by (apply HI_set_q; [exact Hh | congruence]).
  set (h1 := set_q q1 h) in *.
  assert (Eqh1 : q_dir (h_q h1) = d) by exact Eq1.
  assert (HPC1 : forall f, G k1 q1 f -> CG k f).
  { intros f H. apply (CG_mono k k1); [exact Hk1 | eapply G_CG; [| |exact H]; assumption]. }
  assert (Hret : forall r, htf (G k1 q1) (ret_ (r, h1)) (LQ k) (CG k)).
  { intros r. apply htf_ret. intros f Hf. apply (LQ_mono k k1); [exact Hk1|]. apply LQ_here; auto. }
  eapply htf_bind_tri; [apply tri_of_tok; apply G_ro; intros P; tk_with leaf1 | exact HPC1 | intros ? _].
  eapply htf_bind_tri; [apply tri_of_tok; apply G_ro; intros P; tk_with leaf1 | exact HPC1 | intros b1 _].
  destruct b1; [|apply Hret].
  destruct hd as [[z|path meta]|]; [apply Hret| |apply Hret].
  pose proof Hh1 as [Ecfg [Ej _]].
  rewrite Ecfg.
  eapply htf_bind_tri; [apply tri_of_tok; apply G_ro; intros P; tk_with leaf1 | exact HPC1 | intros v _].
  eapply htf_bind_tri; [apply tri_of_tok; apply G_ro; intros P; tk_with leaf1 | exact HPC1 | intros bv _].
  eapply htf_bind_tri;
    [apply tri_of_tok; apply G_ro; intros P;
     destruct v; [destruct bv; [destruct (existsb is_slash s)|]|]; tk_with leaf1
    | exact HPC1 | intros ? _].
  eapply htf_bind_tri; [apply tri_of_tok; apply G_ro; intros P; tk_with leaf1 | exact HPC1 | intros b2 _].
  destruct v as [version|]; [|apply Hret].
  destruct b2; [|apply Hret].
  match goal with |- htf _ (if ?x then _ else _) _ _ => destruct x end.
  { eapply htf_bind_tri; [apply tri_of_tok; apply G_ro; intros P; tk_with leaf1 | exact HPC1 | intros ? _].
    eapply htf_bind_tri; [apply tri_of_tok; apply G_ro; intros P; tk_with leaf1 | exact HPC1 | intros ? _].
    apply Hret. }
  destruct (N.odd meta).
  - (* project head *)
    eapply htf_bind_tri; [apply tri_of_tok; apply G_ro; intros P; tk_with leaf1 | exact HPC1 | intros f _].
    eapply htf_bind_tri; [apply tri_of_tok | exact HPC1 | intros ev _].
    { apply G_project_store_loop.
      - exact Eq1.
      - apply spI_create.
      - exists (basename path). reflexivity.
      - apply app_slash_ne_root. apply dl_unst_ne. exact D.
      - intros E. apply app_eq_nil in E. destruct E as [_ E]. discriminate E. }
    eapply htf_bind_tri; [apply tri_of_tok; apply G_record_event; exact Ej | exact HPC1 | intros ? _].
    eapply htf_bind.
    { eapply htf_conseq; [| | |apply (htf_pop k1 (h_q h1) Eqh1)];
        [auto | intros ? ? H; exact H | exact HPC1]. }
    intros q2. apply (htf_after_pop k1 (h_q h1) q2); [exact Hk2|]. intros k' Hk3 Hk4 Eq2.
    eapply htf_conseq; [| | |apply (IH rev (set_q q2 h1) k')].
    + auto.
    + intros r f'. apply LQ_mono. lia.
    + intros f' H. apply (CG_mono k k1); [exact Hk1|]. apply (CG_mono k1 k'); [exact Hk3 | exact H].
    + apply HI_set_q; [exact Hh1 | congruence].
    + exact Eq2.
    + exact Hk4.
  - (* file head *)
    eapply htf_bind_tri;
      [apply tri_of_tok; apply G_ro; intros P; destruct (N.testbit meta 1); tk_with leaf1
      | exact HPC1 | intros off _].
    eapply htf_bind_tri; [apply tri_of_tok; apply G_ro; intros P; tk_with leaf1 | exact HPC1 | intros b3 _].
    destruct (negb b3); [apply Hret|].
    eapply htf_bind_tri; [apply tri_of_tok; apply G_ro; intros P; tk_with leaf1 | exact HPC1 | intros f _].
    eapply htf_bind_tri.
    + apply (G_file_store_loop k1 q1 _ _ path _ _ _ c Eq1).
      * apply spI_create.
      * eexists. reflexivity.
    + exact HPC1.
    + intros r2 Hr2.
      eapply htf_conseq; [| | |apply (tailG fuel rev h1 path _ _ r2 k1 IH Hh1 Eqh1 Hk2 Hr2)].
      * auto.
      * intros r f'. apply LQ_mono. exact Hk1.
      * intros f'. apply CG_mono. exact Hk1.
Qed.

End Pass.
