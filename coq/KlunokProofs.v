(* C12 for the WHOLE program: start-up (Main.v) + the real load_handler +
   the loop over the real handler programs (Daemon.v).

   Klunok.v: [startup env], [klunok env cfg rev ns : M (list out)].

   main_startup              Main.main env = the items of start-up, then OLoad
                             and the scripted rest
   startup_shape             start-up ends in an exit, or with non-zero uid and
                             gid and no supplementary groups
   (a) klunok_refines_main   EVERY oracle and world: the out list of the whole
                             program IS Main.main on the environment whose
                             e_load_ok / e_slots are what the real programs
                             answer ([env_of_run])
   (b) C12_whole_no_root_work, C12_whole_fail_closed, C12_whole_fail_closed_root
   (c) C12_whole_events_after_drop (+ main_work_after_drop about Main.main)
       klunok_is_history     a whole run that does not exit = start-up, the real
                             load_handler, then ReloadHistory.run over steps_of
   (d) Module KlunokExample. *)
From K Require Import Str Dec Trace Fs World Progs Elf Sieve SieveSpec Handler Linq LinqSpec LinqProofs
     Hoare Confine Confine2 SyncProofs AbandonProofs JournalProofs QueueProofs StoreFs StoreLogic StoreProofs
     FdProofs PassProofs JournalHistoryProofs AcceptProofs ReloadProofs AttrProofs ReloadHistory MixedHistory
     Main MainProofs Daemon DaemonProofs Klunok.
From Coq Require Import Lia.
Arguments N.add : simpl never.
Arguments N.sub : simpl never.
Arguments N.mul : simpl never.
Arguments N.of_nat : simpl never.
Arguments N.to_nat : simpl never.
Arguments N.eqb : simpl never.
Arguments N.leb : simpl never.
Arguments N.ltb : simpl never.

Local Open Scope N_scope.

(* ====================================================================== *)
(* 0. start-up is the front part of Main.main                             *)
(* ====================================================================== *)

(* what Main.main emits after a successful start-up *)
Definition after_load (env : Main.env) (a : load_args) : list out :=
  let '(c, cpl, u, g, n) := a in
  OLoad c cpl u g n ::
  if negb (e_load_ok env) then [OExit 1 (Some T_load)]
  else loop (e_self env) (e_slots env) 0%Z.

Ltac destruct_marks is_exec ev ok mo nm c :=
  lazymatch goal with
  | |- context [mark_roots is_exec ?a ?b ?c0 ?d ?e ?f] =>
      destruct (mark_roots is_exec a b c0 d e f) as [[[[ev ok] mo] nm] c]
  end.

Theorem main_startup (env : Main.env) :
  main env =
  fst (startup env) ++
  match snd (startup env) with
  | None => []
  | Some a => after_load env a
  end.
Proof.
  unfold main, startup.
  destruct (parse_params (e_args env)) as [e|p]; [reflexivity|].
  destruct (p_version p); [reflexivity|]. destruct (p_help p); [reflexivity|].
  destruct (e_fan_init_ok env); cbn [negb]; [|reflexivity].
  destruct (e_mountinfo_ok env); cbn [negb]; [|reflexivity].
  destruct_marks false ev1 ok1 mounted1 n1 cpl.
  destruct ok1; cbn [negb]; [|cbn [fst snd]; rewrite app_nil_r; reflexivity].
  destruct_marks true ev2 ok2 mo2 n2 c2.
  destruct ok2; cbn [negb]; [|cbn [fst snd]; rewrite app_nil_r; reflexivity].
  cbv zeta.
  destruct (drop_privileges env) as [[[[ev3 ok3] uid] gid] groups].
  destruct (negb ok3 || (uid =? 0) || (gid =? 0) || negb (Nat.eqb groups 0)).
  - cbn [fst snd]. rewrite app_nil_r. reflexivity.
  - cbn [fst snd after_load]. reflexivity.
Qed.
Print Assumptions main_startup.

(* the way start-up exits: code 1, except for -h / -v *)
Definition exit_code_ok (env : Main.env) (pre : list out) (c : nat) (t : option topmsg) : Prop :=
  (c = 1%nat /\ t <> None) \/
  (c = 0%nat /\ t = None /\ pre = [] /\
   exists p, parse_params (e_args env) = inr p /\ (p_version p = true \/ p_help p = true)).

Lemma drop_privileges_no_work (env : Main.env) ev3 ok3 uid gid groups :
  drop_privileges env = (ev3, ok3, uid, gid, groups) -> no_work ev3.
Proof.
  unfold drop_privileges. intros E3.
  destruct (match e_stat env with Some (u, g) => negb (g =? 0) && negb (u =? 0) | None => false end).
  - destruct (e_stat env) as [[u g]|]; [|inversion E3; constructor].
    destruct (e_setgroups env); [| inversion E3; repeat constructor |];
      (destruct (e_setgid env); [| inversion E3; repeat constructor |];
       (destruct (e_setuid env); inversion E3; repeat constructor)).
  - inversion E3. constructor.
Qed.

(* THE SHAPE OF START-UP (the analogue of MainProofs.main_shape): no work item;
   either it ends with an exit item and there is nothing to load, or the
   process now has a non-zero uid, a non-zero gid and no supplementary group,
   and these are the credentials the three switches left *)
Theorem startup_shape (env : Main.env) :
  (exists pre c t, startup env = (pre ++ [OExit c t], None) /\ no_work pre /\ exit_code_ok env pre c t) \/
  (exists pre cfgp cpl u g ev3,
     startup env = (pre, Some (cfgp, cpl, u, g, 0%nat)) /\ no_work pre /\
     u <> 0 /\ g <> 0 /\ drop_privileges env = (ev3, true, u, g, 0%nat)).
Proof.
  unfold startup. destruct (parse_params (e_args env)) as [e|p] eqn:Ep.
  { left. exists [], 1%nat, (Some T_parse). split; [reflexivity|]. split; [constructor|].
    left. split; [reflexivity|discriminate]. }
  destruct (p_version p) eqn:Ev.
  { left. exists [], 0%nat, None. split; [reflexivity|]. split; [constructor|].
    right. repeat split. exists p. split; [exact Ep|]. left. exact Ev. }
  destruct (p_help p) eqn:Eh.
  { left. exists [], 0%nat, None. split; [reflexivity|]. split; [constructor|].
    right. repeat split. exists p. split; [exact Ep|]. right. exact Eh. }
  destruct (e_fan_init_ok env); cbn [negb].
  2:{ left. exists [OFanInit], 1%nat, (Some T_fan_init). split; [reflexivity|].
      split; [repeat constructor|]. left. split; [reflexivity|discriminate]. }
  destruct (e_mountinfo_ok env); cbn [negb].
  2:{ left. exists [OFanInit], 1%nat, (Some T_mount_list). split; [reflexivity|].
      split; [repeat constructor|]. left. split; [reflexivity|discriminate]. }
  pose proof (mark_roots_no_work false env (p_w p) (e_mounted env) 0 None 0) as H1.
  destruct_marks false ev1 ok1 mounted1 n1 cpl. cbn [fst] in H1.
  destruct ok1; cbn [negb].
  2:{ left. exists (OFanInit :: ev1), 1%nat, (Some T_watch). split; [reflexivity|].
      split; [constructor; [reflexivity|assumption]|]. left. split; [reflexivity|discriminate]. }
  pose proof (mark_roots_no_work true env (p_e p) mounted1 n1 None 0) as H2.
  destruct_marks true ev2 ok2 mo2 n2 c2. cbn [fst] in H2.
  destruct ok2; cbn [negb].
  2:{ left. exists (OFanInit :: ev1 ++ ev2), 1%nat, (Some T_watch).
      split; [cbn [app]; rewrite <- app_assoc; reflexivity|].
      split; [constructor; [reflexivity | apply Forall_app; auto]|]. left. split; [reflexivity|discriminate]. }
  cbv zeta. set (drop := match p_drop p with Some d => d | None => dot_str end).
  destruct (drop_privileges env) as [[[[ev3 ok3] uid] gid] groups] eqn:E3.
  pose proof (drop_privileges_no_work env _ _ _ _ _ E3) as H3.
  assert (Hpre : no_work (OFanInit :: ev1 ++ ev2 ++ OStat drop :: ev3)).
  { constructor; [reflexivity|]. apply Forall_app. split; [assumption|]. apply Forall_app. split; [assumption|].
    constructor; [reflexivity | assumption]. }
  destruct (negb ok3 || (uid =? 0) || (gid =? 0) || negb (Nat.eqb groups 0)) eqn:Ec.
  - left. exists (OFanInit :: ev1 ++ ev2 ++ OStat drop :: ev3), 1%nat, (Some T_drop).
    split; [reflexivity|]. split; [exact Hpre|]. left. split; [reflexivity|discriminate].
  - apply orb_false_iff in Ec. destruct Ec as [Ec Eg]. apply orb_false_iff in Ec. destruct Ec as [Ec Egid].
    apply orb_false_iff in Ec. destruct Ec as [H Euid].
    apply negb_false_iff, Nat.eqb_eq in Eg. subst groups.
    apply N.eqb_neq in Euid. apply N.eqb_neq in Egid.
    apply negb_false_iff in H. subst ok3.
    right. exists (OFanInit :: ev1 ++ ev2 ++ OStat drop :: ev3), (p_cfg p), cpl, uid, gid, ev3.
    split; [reflexivity|]. split; [exact Hpre|]. split; [exact Euid|]. split; [exact Egid|]. reflexivity.
Qed.
Print Assumptions startup_shape.

(* what start-up yields when it succeeds *)
Lemma startup_some (env : Main.env) pre cfgp cpl u g n :
  startup env = (pre, Some (cfgp, cpl, u, g, n)) ->
  no_work pre /\ u <> 0 /\ g <> 0 /\ n = 0%nat /\ exists ev3, drop_privileges env = (ev3, true, u, g, 0%nat).
Proof.
  intros E. destruct (startup_shape env) as [(pre' & c & t & E' & _)|(pre' & cfgp' & cpl' & u' & g' & ev3 & E' & Hp & Hu & Hg & Hd)];
    rewrite E in E'; [discriminate E'|].
  injection E' as -> -> -> -> -> ->. split; [exact Hp|]. split; [exact Hu|]. split; [exact Hg|].
  split; [reflexivity|]. exists ev3. exact Hd.
Qed.

Lemma startup_none (env : Main.env) outs :
  startup env = (outs, None) ->
  exists pre c t, outs = pre ++ [OExit c t] /\ no_work pre /\ exit_code_ok env pre c t.
Proof.
  intros E. destruct (startup_shape env) as [(pre' & c & t & E' & Hp & Hc)|(pre' & cfgp' & cpl' & u' & g' & ev3 & E' & _)];
    rewrite E in E'; [|discriminate E'].
  injection E' as ->. exists pre', c, t. auto.
Qed.

(* ====================================================================== *)
(* 1. start-up does not look at the scripted answers                      *)
(* ====================================================================== *)

(* [env] with other scripted answers for load_handler and the loop *)
Definition set_script (env : Main.env) (b : bool) (s : list slot) : Main.env :=
  mkEnv (e_args env) (e_realpath env) (e_mounted env) (e_fan_init_ok env) (e_mountinfo_ok env)
        (e_mount_ok env) (e_mark_ok env) (e_stat env) (e_uid env) (e_gid env) (e_groups env)
        (e_setgroups env) (e_setgid env) (e_setuid env) b (e_self env) s.

Lemma mark_roots_script is_exec (env : Main.env) b s roots : forall mounted n prev cpl,
  mark_roots is_exec (set_script env b s) roots mounted n prev cpl =
  mark_roots is_exec env roots mounted n prev cpl.
Proof.
  induction roots as [|r roots IH]; intros mounted n prev cpl; [reflexivity|].
  cbn [mark_roots]. unfold set_script at 1 2 3. cbn [e_realpath e_mount_ok e_mark_ok].
  destruct (assoc r (e_realpath env)) as [m|]; [|reflexivity].
  destruct (negb (memstr m mounted) && negb (e_mount_ok env)); [reflexivity|].
  destruct (e_mark_ok env n); [|reflexivity].
  rewrite IH. reflexivity.
Qed.

Lemma drop_privileges_script (env : Main.env) b s :
  drop_privileges (set_script env b s) = drop_privileges env.
Proof. reflexivity. Qed.

Lemma startup_script (env : Main.env) b s : startup (set_script env b s) = startup env.
Proof.
  unfold startup. rewrite drop_privileges_script.
  change (e_args (set_script env b s)) with (e_args env).
  destruct (parse_params (e_args env)) as [e|p]; [reflexivity|].
  change (e_fan_init_ok (set_script env b s)) with (e_fan_init_ok env).
  change (e_mountinfo_ok (set_script env b s)) with (e_mountinfo_ok env).
  change (e_mounted (set_script env b s)) with (e_mounted env).
  rewrite mark_roots_script.
  destruct_marks false ev1 ok1 mounted1 n1 cpl.
  rewrite mark_roots_script. reflexivity.
Qed.

(* ====================================================================== *)
(* 2. Running the whole program                                           *)
(* ====================================================================== *)

(* Handler.load_handler answers Some h only with an error-free trace: the two
   tests of run_loaded are one *)
Lemma run_loaded_run self cfg rev ns pre c cpl u g n o w :
  run_loaded self cfg rev ns pre (c, cpl, u, g, n) o w =
  match load_handler cfg c cpl o w with
  | (Some (Some h), w1) =>
      match daemon_loop self rev ns 0%Z h o w1 with
      | (Some t, w2) => (Some (pre ++ OLoad c cpl u g n :: fst t), w2)
      | (None, w2) => (None, w2)
      end
  | (Some None, w1) => (Some (pre ++ [OLoad c cpl u g n; OExit 1 (Some T_load)]), w1)
  | (None, w1) => (None, w1)
  end.
Proof.
  unfold run_loaded. unfold bind at 1.
  destruct (load_handler cfg c cpl o w) as [[[h|]|] w1] eqn:E; [| |reflexivity].
  - destruct (load_handler_coherent o w cfg c cpl h w1 E) as (_ & _ & _ & _ & _ & K).
    unfold bind at 1. rewrite is_ok_run. unfold okw in K. rewrite K.
    unfold bind. destruct (daemon_loop self rev ns 0%Z h o w1) as [[t|] w2]; reflexivity.
  - unfold bind. rewrite is_ok_run. destruct (tr_ok (w_tr w1)); reflexivity.
Qed.

(* the handler and the world load_handler leaves, when start-up and the load
   succeed *)
Definition loaded (env : Main.env) (cfg : config) (o : oracle) (w : world) : option (handler * world) :=
  match snd (startup env) with
  | Some (c, cpl, _, _, _) =>
      match load_handler cfg c cpl o w with
      | (Some (Some h), w1) => Some (h, w1)
      | _ => None
      end
  | None => None
  end.

(* the scripted environment of THIS run: e_load_ok = whether the real
   load_handler succeeded on this world under this oracle; e_slots = the slots
   computed by running the real handler programs from the state it left *)
Definition env_of_run (env : Main.env) (cfg : config) (rev : bool) (ns : list notif)
           (o : oracle) (w : world) : Main.env :=
  set_script env
    (match loaded env cfg o w with Some _ => true | None => false end)
    (match loaded env cfg o w with
     | Some (h, w1) => slots_of (e_self env) rev o w1 h ns
     | None => []
     end).

(* ====================================================================== *)
(* (a) the whole program refines Main.main                                *)
(* ====================================================================== *)

(* EVERY oracle, world, environment, configuration, notification list: when the
   process does not die, what the whole program emits is exactly Main.main on
   the environment whose scripted answers are those of the real programs.  So
   C12_no_root_work, C12_fail_closed and every C17 / C18 theorem about Main.main
   holds of the whole program. *)
Theorem klunok_refines_main (env : Main.env) (cfg : config) (rev : bool) (ns : list notif)
        (o : oracle) (w : world) outs w' :
  klunok env cfg rev ns o w = (Some outs, w') ->
  outs = main (env_of_run env cfg rev ns o w).
Proof.
  intros E. rewrite main_startup. unfold env_of_run at 1 2. rewrite startup_script.
  unfold env_of_run, loaded. unfold klunok in E.
  destruct (startup env) as [pre [a|]] eqn:Es; cbn [fst snd].
  2:{ unfold ret_ in E. injection E as <- _. rewrite app_nil_r. reflexivity. }
  destruct a as [[[[c cpl] u] g] n]. rewrite run_loaded_run in E.
  unfold after_load, set_script. cbn [e_load_ok e_self e_slots].
  destruct (load_handler cfg c cpl o w) as [[[h|]|] w1] eqn:El; [| |discriminate E].
  - destruct (daemon_loop (e_self env) rev ns 0%Z h o w1) as [[[outs2 h2]|] w2] eqn:Ed; [|discriminate E].
    injection E as <- _. cbn [fst negb].
    rewrite (daemon_refines_loop _ _ _ _ _ _ _ _ _ _ Ed). reflexivity.
  - injection E as <- _. reflexivity.
Qed.
Print Assumptions klunok_refines_main.

(* the credentials and everything else start-up looks at are those of [env] *)
Lemma env_of_run_startup env cfg rev ns o w :
  startup (env_of_run env cfg rev ns o w) = startup env /\
  drop_privileges (env_of_run env cfg rev ns o w) = drop_privileges env.
Proof. split; [apply startup_script|reflexivity]. Qed.

(* ====================================================================== *)
(* (b) nothing happens while the uid or the gid is zero                   *)
(* ====================================================================== *)

(* FAIL CLOSED, NOTHING TOUCHED.  Every oracle, world, configuration and
   notification list: when start-up fails (malformed command line, fanotify /
   mount table / mark failure, stat failure or root-owned path, a failing or
   ineffective switch, uid or gid still zero or groups left) the whole program
   returns with the world UNCHANGED -- no call was made, nothing was created,
   the trace, the log and the clock are what they were -- and its items are
   those of start-up, without any work item, ending with an exit (code 1,
   except for -h / -v). *)
Theorem C12_whole_fail_closed (env : Main.env) (cfg : config) (rev : bool) (ns : list notif)
        (o : oracle) (w : world) :
  snd (startup env) = None ->
  klunok env cfg rev ns o w = (Some (fst (startup env)), w) /\
  exists pre c t, fst (startup env) = pre ++ [OExit c t] /\ no_work pre /\ exit_code_ok env pre c t.
Proof.
  intros Hn. unfold klunok. destruct (startup env) as [outs [a|]] eqn:Es; cbn [fst snd] in *; [discriminate Hn|].
  split; [reflexivity|]. exact (startup_none env outs Es).
Qed.
Print Assumptions C12_whole_fail_closed.

(* NO ROOT WORK.  Every oracle, world, environment, configuration, notification
   list: if the process died in a call, or the final world differs from the
   initial one in any way, then start-up succeeded with credentials (u, g, 0):
   uid and gid non-zero, no supplementary groups, exactly what the three
   switches left; and the whole run is [run_loaded] from the INITIAL world:
   every call of load_handler (configuration loading) and of the handler
   happens after the drop took effect. *)
Theorem C12_whole_no_root_work_gen (env : Main.env) (cfg : config) (rev : bool) (ns : list notif)
        (o : oracle) (w : world) r w' :
  klunok env cfg rev ns o w = (r, w') ->
  (r = None \/ w' <> w) ->
  exists pre cfgp cpl u g ev3,
    startup env = (pre, Some (cfgp, cpl, u, g, 0%nat)) /\ no_work pre /\
    u <> 0 /\ g <> 0 /\ drop_privileges env = (ev3, true, u, g, 0%nat) /\
    run_loaded (e_self env) cfg rev ns pre (cfgp, cpl, u, g, 0%nat) o w = (r, w').
Proof.
  intros E Hch. destruct (startup env) as [pre [a|]] eqn:Es.
  - destruct a as [[[[c cpl] u] g] n].
    destruct (startup_some env _ _ _ _ _ _ Es) as (Hp & Hu & Hg & -> & ev3 & Hd).
    exists pre, c, cpl, u, g, ev3. split; [reflexivity|]. split; [exact Hp|]. split; [exact Hu|].
    split; [exact Hg|]. split; [exact Hd|].
    unfold klunok in E. rewrite Es in E. exact E.
  - exfalso. destruct (C12_whole_fail_closed env cfg rev ns o w) as [E' _]; [rewrite Es; reflexivity|].
    rewrite E in E'. injection E' as -> ->. destruct Hch as [H|H]; [discriminate H|apply H; reflexivity].
Qed.
Print Assumptions C12_whole_no_root_work_gen.

(* the statement of the task: a system call was made (the call counter moved)
   or something on disk changed *)
Theorem C12_whole_no_root_work (env : Main.env) (cfg : config) (rev : bool) (ns : list notif)
        (o : oracle) (w : world) r w' :
  klunok env cfg rev ns o w = (r, w') ->
  (w_n w' <> w_n w \/ w_fs w' <> w_fs w) ->
  exists pre cfgp cpl u g ev3,
    startup env = (pre, Some (cfgp, cpl, u, g, 0%nat)) /\ no_work pre /\
    u <> 0 /\ g <> 0 /\ drop_privileges env = (ev3, true, u, g, 0%nat) /\
    run_loaded (e_self env) cfg rev ns pre (cfgp, cpl, u, g, 0%nat) o w = (r, w').
Proof.
  intros E Hch. apply (C12_whole_no_root_work_gen env cfg rev ns o w r w' E).
  right. intros ->. destruct Hch as [H|H]; apply H; reflexivity.
Qed.
Print Assumptions C12_whole_no_root_work.

(* C12_fail_closed for the whole program.  Started as root (uid 0, gid 0, some
   supplementary group): if the designated path cannot be examined, is owned by
   user 0 or group 0, or any switch fails or does not take effect, then under
   every oracle the whole program returns in the UNCHANGED world, its items
   contain no OLoad and no other work item and end with an exit *)
Theorem C12_whole_fail_closed_root (env : Main.env) (cfg : config) (rev : bool) (ns : list notif)
        (o : oracle) (w : world) :
  e_uid env = 0 -> e_gid env = 0 -> (0 < e_groups env)%nat ->
  (e_stat env = None \/ (exists u g, e_stat env = Some (u, g) /\ (u = 0 \/ g = 0)) \/
   e_setgroups env <> SwOk \/ e_setgid env <> SwOk \/ e_setuid env <> SwOk) ->
  exists pre c t,
    klunok env cfg rev ns o w = (Some (pre ++ [OExit c t]), w) /\ no_work pre /\ exit_code_ok env pre c t.
Proof.
  intros Hu Hg Hn Hbad.
  assert (Hs : snd (startup env) = None).
  { destruct (snd (startup env)) as [a|] eqn:Es; [|reflexivity]. exfalso.
    destruct a as [[[[c cpl] u] g] n].
    apply (fail_closed env Hu Hg Hn Hbad c cpl u g n).
    rewrite main_startup, Es. apply in_or_app. right. left. reflexivity. }
  destruct (C12_whole_fail_closed env cfg rev ns o w Hs) as (E & pre & c & t & Ep & Hp & Hc).
  exists pre, c, t. rewrite <- Ep. auto.
Qed.
Print Assumptions C12_whole_fail_closed_root.

(* ====================================================================== *)
(* (c) every work item comes after an OLoad with non-zero credentials     *)
(* ====================================================================== *)

Definition is_event (x : out) : bool :=
  match x with OExec _ _ | OWrite _ _ | OTimeout => true | _ => false end.

Lemma is_event_work x : is_event x = true -> is_work x = true.
Proof. destruct x; try discriminate; reflexivity. Qed.

Lemma split_at_first_work (pre : list out) y rest : forall l1 x l2,
  l1 ++ x :: l2 = pre ++ y :: rest -> no_work pre -> is_work x = true ->
  (l1 = pre /\ x = y) \/ (exists l0, l1 = pre ++ y :: l0).
Proof.
  induction pre as [|p pre IH]; intros l1 x l2 E Hp Hx.
  - destruct l1 as [|a l1]; cbn [app] in E.
    + left. injection E as -> _. auto.
    + right. injection E as -> _. exists l1. reflexivity.
  - inversion Hp as [|p' pre' Hp1 Hp2]; subst. destruct l1 as [|a l1]; cbn [app] in E.
    + exfalso. injection E as -> _. rewrite Hx in Hp1. discriminate Hp1.
    + injection E as -> E. destruct (IH _ _ _ E Hp2 Hx) as [[-> ->]|[l0 ->]].
      * left. auto.
      * right. exists l0. reflexivity.
Qed.

(* about the pure Main.main: a work item is the OLoad with non-zero credentials
   and no supplementary groups, or comes after it *)
Theorem main_work_after_drop (env : Main.env) l1 x l2 :
  main env = l1 ++ x :: l2 -> is_work x = true ->
  exists pre cfgp cpl u g ev3,
    u <> 0 /\ g <> 0 /\ no_work pre /\ drop_privileges env = (ev3, true, u, g, 0%nat) /\
    ((l1 = pre /\ x = OLoad cfgp cpl u g 0) \/ (exists l0, l1 = pre ++ OLoad cfgp cpl u g 0 :: l0)).
Proof.
  intros E Hx. destruct (main_shape env) as [pre [tail [Em [Hpre Htail]]]].
  destruct Htail as [[c [t ->]]|[cfgp [cpl [u [g [rest [ev3 [-> [Hu [Hg Hd]]]]]]]]]].
  - exfalso. assert (Hin : In x (pre ++ [OExit c t])) by (rewrite <- Em, E; apply in_or_app; right; left; reflexivity).
    apply in_app_or in Hin. destruct Hin as [Hin|[<-|[]]]; [|discriminate Hx].
    unfold no_work in Hpre. rewrite Forall_forall in Hpre. rewrite (Hpre _ Hin) in Hx. discriminate Hx.
  - exists pre, cfgp, cpl, u, g, ev3. repeat (split; [assumption|]).
    rewrite Em in E. symmetry in E. exact (split_at_first_work pre _ rest l1 x l2 E Hpre Hx).
Qed.
Print Assumptions main_work_after_drop.

(* THE WHOLE PROGRAM: under every oracle, every item OExec / OWrite / OTimeout
   (an event handed to the real handle_open_exec / handle_close_write, a run of
   the real handle_timeout) of a run is preceded by an OLoad item whose
   credentials are non-zero with no supplementary groups -- the credentials the
   switches of [env] left -- and before that OLoad there is no work item *)
Theorem C12_whole_events_after_drop (env : Main.env) (cfg : config) (rev : bool) (ns : list notif)
        (o : oracle) (w : world) outs w' l1 x l2 :
  klunok env cfg rev ns o w = (Some outs, w') ->
  outs = l1 ++ x :: l2 -> is_event x = true ->
  exists pre cfgp cpl u g ev3 l0,
    l1 = pre ++ OLoad cfgp cpl u g 0 :: l0 /\ no_work pre /\
    u <> 0 /\ g <> 0 /\ drop_privileges env = (ev3, true, u, g, 0%nat).
Proof.
  intros E -> Hx. apply klunok_refines_main in E.
  destruct (main_work_after_drop _ _ _ _ (eq_sym E) (is_event_work _ Hx))
    as (pre & cfgp & cpl & u & g & ev3 & Hu & Hg & Hp & Hd & [[_ ->]|[l0 ->]]); [discriminate Hx|].
  exists pre, cfgp, cpl, u, g, ev3, l0. auto.
Qed.
Print Assumptions C12_whole_events_after_drop.

(* the same for every work item (poll, read, close of an event descriptor too):
   it is the OLoad itself or comes after it *)
Theorem C12_whole_work_after_drop (env : Main.env) (cfg : config) (rev : bool) (ns : list notif)
        (o : oracle) (w : world) outs w' l1 x l2 :
  klunok env cfg rev ns o w = (Some outs, w') ->
  outs = l1 ++ x :: l2 -> is_work x = true ->
  exists pre cfgp cpl u g ev3,
    u <> 0 /\ g <> 0 /\ no_work pre /\ drop_privileges env = (ev3, true, u, g, 0%nat) /\
    ((l1 = pre /\ x = OLoad cfgp cpl u g 0) \/ (exists l0, l1 = pre ++ OLoad cfgp cpl u g 0 :: l0)).
Proof.
  intros E -> Hx. apply klunok_refines_main in E.
  exact (main_work_after_drop _ _ _ _ (eq_sym E) Hx).
Qed.
Print Assumptions C12_whole_work_after_drop.

(* ====================================================================== *)
(* The whole run is a history                                             *)
(* ====================================================================== *)

(* A whole run that does not exit: start-up succeeded with non-zero
   credentials, the real load_handler built a coherent handler h in world w1,
   and the final world is that of ReloadHistory.run over the steps of the
   notifications from (h, w1): every history theorem applies to whole runs of
   the program, from the command line on. *)
Theorem klunok_is_history (env : Main.env) (cfg : config) (rev : bool) (ns : list notif)
        (o : oracle) (w : world) outs w' :
  envs_ok ns ->
  klunok env cfg rev ns o w = (Some outs, w') -> no_exit outs ->
  exists pre cfgp cpl u g h w1 h',
    startup env = (pre, Some (cfgp, cpl, u, g, 0%nat)) /\ u <> 0 /\ g <> 0 /\
    load_handler cfg cfgp cpl o w = (Some (Some h), w1) /\
    h_cfg h = cfg /\ h_cfg_path h = cfgp /\ h_cpl h = cpl /\ coherent h /\
    hrun o (steps_of (e_self env) rev ns) h w1 = (Some h', w') /\ okw w' = true.
Proof.
  intros He E Hne. unfold klunok in E. destruct (startup env) as [pre [a|]] eqn:Es.
  2:{ exfalso. unfold ret_ in E. injection E as <- _.
      destruct (startup_none env pre Es) as (p0 & c & t & -> & _).
      apply (Hne c t). apply in_or_app. right. left. reflexivity. }
  destruct a as [[[[c cpl] u] g] n].
  destruct (startup_some env _ _ _ _ _ _ Es) as (_ & Hu & Hg & -> & _).
  rewrite run_loaded_run in E.
  destruct (load_handler cfg c cpl o w) as [[[h|]|] w1] eqn:El; [| |discriminate E].
  2:{ exfalso. injection E as <- _. apply (Hne 1%nat (Some T_load)). apply in_or_app. right. right. left. reflexivity. }
  destruct (daemon_loop (e_self env) rev ns 0%Z h o w1) as [[[outs2 h2]|] w2] eqn:Ed; [|discriminate E].
  injection E as <- <-. cbn [fst] in Hne.
  destruct (load_handler_coherent o w cfg c cpl h w1 El) as (A1 & A2 & A3 & _ & A5 & K).
  assert (Hne2 : no_exit outs2).
  { intros c0 t0 Hin. apply (Hne c0 t0). apply in_or_app. right. right. exact Hin. }
  destruct (daemon_is_history _ _ _ _ _ _ _ _ _ _ K He Ed Hne2) as [Hh K'].
  exists pre, c, cpl, u, g, h, w1, h2.
  split; [reflexivity|]. split; [exact Hu|]. split; [exact Hg|]. split; [exact El|].
  split; [exact A1|]. split; [exact A2|]. split; [exact A3|]. split; [exact A5|].
  split; [exact Hh|exact K'].
Qed.
Print Assumptions klunok_is_history.

(* and when the process dies: start-up had succeeded (so the drop had taken
   effect), and it died in load_handler or in the history *)
Theorem klunok_crash (env : Main.env) (cfg : config) (rev : bool) (ns : list notif)
        (o : oracle) (w : world) w' :
  envs_ok ns ->
  klunok env cfg rev ns o w = (None, w') ->
  exists pre cfgp cpl u g,
    startup env = (pre, Some (cfgp, cpl, u, g, 0%nat)) /\ u <> 0 /\ g <> 0 /\
    (load_handler cfg cfgp cpl o w = (None, w') \/
     exists h w1, load_handler cfg cfgp cpl o w = (Some (Some h), w1) /\
                  hrun o (steps_of (e_self env) rev ns) h w1 = (None, w')).
Proof.
  intros He E.
  destruct (C12_whole_no_root_work_gen env cfg rev ns o w None w' E (or_introl eq_refl))
    as (pre & c & cpl & u & g & ev3 & Es & _ & Hu & Hg & _ & Er).
  exists pre, c, cpl, u, g. split; [exact Es|]. split; [exact Hu|]. split; [exact Hg|].
  rewrite run_loaded_run in Er.
  destruct (load_handler cfg c cpl o w) as [[[h|]|] w1] eqn:El; [|discriminate Er|].
  - right. exists h, w1. split; [reflexivity|].
    destruct (daemon_loop (e_self env) rev ns 0%Z h o w1) as [[t|] w2] eqn:Ed; [discriminate Er|].
    injection Er as <-.
    destruct (load_handler_coherent o w cfg c cpl h w1 El) as (_ & _ & _ & _ & _ & K).
    exact (daemon_crash_is_history _ _ _ _ _ _ _ _ K He Ed).
  - left. injection Er as <-. reflexivity.
Qed.
Print Assumptions klunok_crash.

(* ====================================================================== *)
(* The reason of a failed start-up once the designated path was examined  *)
(* ====================================================================== *)

Definition is_mark_item (x : out) : bool :=
  match x with OMount _ | OMark _ _ => true | _ => false end.

Lemma mark_roots_items is_exec (env : Main.env) roots : forall mounted n prev cpl,
  Forall (fun x => is_mark_item x = true) (fst (fst (fst (fst (mark_roots is_exec env roots mounted n prev cpl))))).
Proof.
  induction roots as [|r roots IH]; intros mounted n prev cpl; cbn [mark_roots]; [constructor|].
  destruct (assoc r (e_realpath env)) as [m|]; [|constructor].
  destruct (negb (memstr m mounted) && negb (e_mount_ok env)).
  - cbn [fst]. destruct (memstr m mounted); repeat constructor.
  - destruct (e_mark_ok env n).
    + specialize (IH (if memstr m mounted then mounted else m :: mounted) (S n) (Some m)
                     (match prev with None => common_len m m | Some pm => Nat.min cpl (common_len pm m) end)).
      destruct (mark_roots is_exec env roots _ _ _ _) as [[[[evs ok] mo] nm] c]. cbn [fst] in *.
      apply Forall_app. split; [destruct (memstr m mounted); repeat constructor|].
      constructor; [reflexivity | assumption].
    + cbn [fst]. apply Forall_app. split; [destruct (memstr m mounted); repeat constructor | repeat constructor].
Qed.

Lemma not_stat_in_marks l d : Forall (fun x => is_mark_item x = true) l -> ~ In (OStat d) l.
Proof. intros H Hin. rewrite Forall_forall in H. specialize (H _ Hin). discriminate H. Qed.

(* once stat has been called on the designated path (an OStat item), a failing
   start-up is the failure to drop privileges: exit 1 with that message *)
Theorem startup_stat_then_drop (env : Main.env) outs d :
  startup env = (outs, None) -> In (OStat d) outs ->
  exists pre, outs = pre ++ [OExit 1 (Some T_drop)] /\ no_work pre.
Proof.
  unfold startup. destruct (parse_params (e_args env)) as [e|p].
  { intros E Hin. injection E as <-. destruct Hin as [X|[]]; discriminate X. }
  destruct (p_version p). { intros E Hin. injection E as <-. destruct Hin as [X|[]]; discriminate X. }
  destruct (p_help p). { intros E Hin. injection E as <-. destruct Hin as [X|[]]; discriminate X. }
  destruct (e_fan_init_ok env); cbn [negb].
  2:{ intros E Hin. injection E as <-. destruct Hin as [X|[X|[]]]; discriminate X. }
  destruct (e_mountinfo_ok env); cbn [negb].
  2:{ intros E Hin. injection E as <-. destruct Hin as [X|[X|[]]]; discriminate X. }
  pose proof (mark_roots_items false env (p_w p) (e_mounted env) 0 None 0) as H1.
  pose proof (mark_roots_no_work false env (p_w p) (e_mounted env) 0 None 0) as W1.
  destruct_marks false ev1 ok1 mounted1 n1 cpl. cbn [fst] in H1, W1.
  destruct ok1; cbn [negb].
  2:{ intros E Hin. injection E as <-. exfalso. destruct Hin as [X|Hin]; [discriminate X|].
      apply in_app_or in Hin. destruct Hin as [Hin|[X|[]]]; [|discriminate X].
      exact (not_stat_in_marks _ _ H1 Hin). }
  pose proof (mark_roots_items true env (p_e p) mounted1 n1 None 0) as H2.
  pose proof (mark_roots_no_work true env (p_e p) mounted1 n1 None 0) as W2.
  destruct_marks true ev2 ok2 mo2 n2 c2. cbn [fst] in H2, W2.
  destruct ok2; cbn [negb].
  2:{ intros E Hin. injection E as <-. exfalso. destruct Hin as [X|Hin]; [discriminate X|].
      apply in_app_or in Hin. destruct Hin as [Hin|Hin]; [exact (not_stat_in_marks _ _ H1 Hin)|].
      apply in_app_or in Hin. destruct Hin as [Hin|[X|[]]]; [|discriminate X].
      exact (not_stat_in_marks _ _ H2 Hin). }
  cbv zeta. destruct (drop_privileges env) as [[[[ev3 ok3] uid] gid] groups] eqn:E3.
  pose proof (drop_privileges_no_work env _ _ _ _ _ E3) as H3.
  destruct (negb ok3 || (uid =? 0) || (gid =? 0) || negb (Nat.eqb groups 0)); intros E Hin; [|discriminate E].
  injection E as <-.
  exists (OFanInit :: ev1 ++ ev2 ++ OStat (match p_drop p with Some d0 => d0 | None => dot_str end) :: ev3).
  split; [reflexivity|].
  constructor; [reflexivity|]. apply Forall_app. split; [assumption|]. apply Forall_app. split; [assumption|].
  constructor; [reflexivity | assumption].
Qed.
Print Assumptions startup_stat_then_drop.

(* ====================================================================== *)
(* (d) Concrete whole runs                                                *)
(* ====================================================================== *)

Module KlunokExample.
  Import MixedExample.
  Local Open Scope char_scope.

  (* klunok -c /h/c -w /h -e / -d /h, started as root (uid 0, gid 0, 3
     supplementary groups); /h is a directory that is not a mount point ("/" is
     the only one listed: main bind-mounts /h on itself); every start-up call
     succeeds; the owner of /h is the parameter.  The scripted answers e_load_ok
     (false) and e_slots ([]) are NOT looked at by [klunok].
     The daemon's pid is 1.

     World: that of MixedHistory.MixedExample (editors "vim" and "ed", queue
     /q, store /st, journal /j, debounce 5 s, clock 100) but WITHOUT the queue
     directory /q: load_handler has to create it.  Oracle o2: every transfer is
     cut into pieces of at most 2 bytes. *)
  Definition sl : str := ["/"].
  Definition args : list str := [["-"; "c"]; p_c; ["-"; "w"]; p_h; ["-"; "e"]; sl; ["-"; "d"]; p_h].
  Definition envA (st : option (N * N)) : Main.env :=
    mkEnv args [(p_h, p_h); (sl, sl)] [sl] true true true (fun _ => true) st 0 0 3 SwOk SwOk SwOk false 1 [].
  Definition env_user : Main.env := envA (Some (1000, 100)).
  Definition env_root : Main.env := envA (Some (0, 0)).

  Definition fs0 : fs :=
    mkFs (filter (fun e => negb (str_eqb (fst e) p_q)) (fs_dents fsM)) (fs_files fsM) (fs_next fsM).
  Definition w0 : world := mkW fs0 0 [] 100%Z tr_empty.

  (* pid 7 executes /b/vim; pid 7 closes /h/a after writing; the clock moves to
     106 s; poll times out *)
  Definition ev_x (pid : N) : Main.event := mkEv true true false false pid 5.
  Definition ev_w (pid : N) : Main.event := mkEv true false true false pid 5.
  Definition ns1 : list notif := [NEvent (ev_x 7) p_vim None; NEvent (ev_w 7) p_a None].
  Definition clk (t : Z) (w : world) : world := mkW (w_fs w) (w_n w) (w_log w) t (w_tr w).
  Definition wE : world := clk 106 (snd (klunok env_user cfgM false ns1 o2 w0)).
  Definition ns : list notif := ns1 ++ [NEnv wE; NWake].
  Definition v106 : str := ["/"; "s"; "t"; "/"; "a"; "/"; "v"; "1"; "0"; "6"].

  Definition startup_expected : list out :=
    [ OFanInit; OMount p_h; OMark false p_h; OMark true sl; OStat p_h; OSetgroups; OSetgid 100; OSetuid 1000 ].

  Definition outs_expected : list out :=
    startup_expected ++
    [ OLoad (Some p_c) 3 1000 100 0;
      OPoll 0; ORead; OExec 7 5; OClose 5; OTimeout;          (* nothing queued: wait indefinitely *)
      OPoll (-1000); ORead; OWrite 7 5; OClose 5; OTimeout;   (* /h/a queued at 100 s: 5 s to wait *)
      OPoll 5000; OTimeout;                                   (* the wake-up at 106 s stores the version *)
      OPoll (-1000); OEnd ].

  Example startup_user : startup env_user = (startup_expected, Some (Some p_c, 3%nat, 1000, 100, 0%nat)).
  Proof. vm_compute. reflexivity. Qed.

  (* what load_handler does on w0: the calls it makes (oldest first), the queue
     directory it creates, and the handler it returns: MixedExample.hM *)
  Example load_user :
    match loaded env_user cfgM o2 w0 with
    | Some (h, w1) =>
        h = hM /\ lookup (w_fs w0) p_q = None /\ lookup (w_fs w1) p_q = Some NDir /\ okw w1 = true /\
        rev (w_log w1) = [ (CScandir p_q, RErr ENOENT); (CMkdir p_q, RInt 0); (CScandir p_q, RInt 0);
                           (COpenDir p_q, RFd); (COpenA p_j, RFd) ]
    | None => False
    end.
  Proof. vm_compute. repeat split; reflexivity. Qed.

  (* ----- the whole run, by evaluation ----- *)
  Example run_user :
    match klunok env_user cfgM false ns o2 w0 with
    | (Some outs, w') =>
        outs = outs_expected /\
        (* the same list from Main.main on the environment of this run *)
        main (env_of_run env_user cfgM false ns o2 w0) = outs_expected /\
        (* the queue directory now exists and is empty again; ONE version of /h/a *)
        lookup (w_fs w') p_q = Some NDir /\ children (w_fs w') p_q = [] /\
        lookup (w_fs w') v106 = Some (NFile 9) /\ f_bytes (get_file (w_fs w') 9) = ["a"] /\
        okw w' = true /\ w_clock w' = 106%Z /\ w_n w' = 37%nat
    | _ => False
    end.
  Proof. vm_compute. repeat split; reflexivity. Qed.

  Definition w_R : world := snd (klunok env_user cfgM false ns o2 w0).
  Lemma run_eq : klunok env_user cfgM false ns o2 w0 = (Some outs_expected, w_R).
  Proof. vm_compute. reflexivity. Qed.

  (* (a) through the theorem *)
  Example refines_by_theorem : outs_expected = main (env_of_run env_user cfgM false ns o2 w0).
  Proof. exact (klunok_refines_main env_user cfgM false ns o2 w0 _ _ run_eq). Qed.

  (* (b) through the theorem: calls were made, so the drop had taken effect *)
  Example no_root_work_by_theorem :
    exists pre cfgp cpl ev3,
      startup env_user = (pre, Some (cfgp, cpl, 1000, 100, 0%nat)) /\
      drop_privileges env_user = (ev3, true, 1000, 100, 0%nat).
  Proof.
    destruct (C12_whole_no_root_work env_user cfgM false ns o2 w0 _ _ run_eq)
      as (pre & cfgp & cpl & u & g & ev3 & Es & _ & _ & _ & Hd & _).
    - left. vm_compute. discriminate.
    - rewrite startup_user in Es. injection Es as <- <- <- <- <-.
      exists startup_expected, (Some p_c), 3%nat, ev3. split; [reflexivity|exact Hd].
  Qed.

  (* (c) through the theorem: the write event of pid 7 comes after the OLoad *)
  Example events_after_drop_by_theorem :
    exists pre cfgp cpl u g l0,
      startup_expected ++ [OLoad (Some p_c) 3 1000 100 0; OPoll 0; ORead; OExec 7 5; OClose 5; OTimeout; OPoll (-1000); ORead]
      = pre ++ OLoad cfgp cpl u g 0 :: l0 /\ no_work pre /\ u <> 0 /\ g <> 0.
  Proof.
    destruct (C12_whole_events_after_drop env_user cfgM false ns o2 w0 outs_expected w_R
                (startup_expected ++ [OLoad (Some p_c) 3 1000 100 0; OPoll 0; ORead; OExec 7 5; OClose 5; OTimeout; OPoll (-1000); ORead])
                (OWrite 7 5)
                [OClose 5; OTimeout; OPoll 5000; OTimeout; OPoll (-1000); OEnd]
                run_eq eq_refl eq_refl)
      as (pre & cfgp & cpl & u & g & ev3 & l0 & E & Hp & Hu & Hg & _).
    exists pre, cfgp, cpl, u, g, l0. auto.
  Qed.

  (* the whole run is a history from the handler load_handler built *)
  Lemma outs_no_exit : no_exit outs_expected.
  Proof.
    intros c t Hin. unfold outs_expected, startup_expected in Hin. cbn [In app] in Hin.
    repeat (destruct Hin as [Hin|Hin]; [discriminate Hin|]). exact Hin.
  Qed.

  Lemma ns_envs_ok : envs_ok ns.
  Proof. unfold ns, ns1. cbn [app envs_ok]. split; [vm_compute; reflexivity|exact I]. Qed.

  Definition w_L : world := snd (load_handler cfgM (Some p_c) 3 o2 w0).
  Lemma load_eq : load_handler cfgM (Some p_c) 3 o2 w0 = (Some (Some hM), w_L).
  Proof. vm_compute. reflexivity. Qed.

  Lemma steps_eq :
    steps_of 1 false ns = [HExec 7 p_vim; HPass false; HWrite 7 p_a None; HPass false; HEnv wE; HPass false].
  Proof. reflexivity. Qed.

  Example history_by_theorem :
    exists h',
      load_handler cfgM (Some p_c) 3 o2 w0 = (Some (Some hM), w_L) /\
      ReloadHistory.run o2 [HExec 7 p_vim; HPass false; HWrite 7 p_a None; HPass false; HEnv wE; HPass false] hM w_L
      = (Some h', w_R) /\ okw w_R = true.
  Proof.
    destruct (klunok_is_history env_user cfgM false ns o2 w0 _ _ ns_envs_ok run_eq outs_no_exit)
      as (pre & cfgp & cpl & u & g & h & w1 & h' & Es & _ & _ & El & _ & _ & _ & _ & Hh & K).
    rewrite startup_user in Es. injection Es as <- <- <- <- <-.
    rewrite load_eq in El. apply pair_equal_spec in El. destruct El as [E1 E2]. injection E1 as <-. subst w1.
    change (e_self env_user) with 1 in Hh. rewrite steps_eq in Hh.
    exists h'. split; [exact load_eq|]. split; [exact Hh|exact K].
  Qed.

  (* ----- the designated path is owned by 0:0 ----- *)
  Example run_root :
    klunok env_root cfgM false ns o2 w0 =
    (Some [OFanInit; OMount p_h; OMark false p_h; OMark true sl; OStat p_h; OExit 1 (Some T_drop)], w0).
  Proof. vm_compute. reflexivity. Qed.

  (* the same through the theorems, for EVERY oracle, configuration, world and
     notification list *)
  Example root_by_theorem cfg rev ns' o w :
    exists pre,
      klunok env_root cfg rev ns' o w = (Some (pre ++ [OExit 1 (Some T_drop)]), w) /\ no_work pre.
  Proof.
    destruct (C12_whole_fail_closed_root env_root cfg rev ns' o w eq_refl eq_refl) as (pre & c & t & E & Hp & _).
    - cbn. lia.
    - right. left. exists 0, 0. split; [reflexivity|left; reflexivity].
    - assert (Es : startup env_root = (pre ++ [OExit c t], None)).
      { destruct (C12_whole_fail_closed env_root cfg rev ns' o w) as [E' _]; [vm_compute; reflexivity|].
        rewrite E in E'. injection E' as E'. rewrite E'. vm_compute. reflexivity. }
      destruct (startup_stat_then_drop env_root _ p_h Es) as (pre' & E2 & Hp').
      + destruct (C12_whole_fail_closed env_root cfg rev ns' o w) as [E' _]; [vm_compute; reflexivity|].
        rewrite E in E'. injection E' as E'. rewrite E'. vm_compute. tauto.
      + exists pre'. rewrite <- E2. split; [exact E|exact Hp'].
  Qed.

  (* an ineffective setgid (it reports success, the gid stays 0) *)
  Definition env_noeffect : Main.env :=
    mkEnv args [(p_h, p_h); (sl, sl)] [sl] true true true (fun _ => true) (Some (1000, 100)) 0 0 3
          SwOk SwNoEffect SwOk true 1 [].
  Example run_noeffect :
    klunok env_noeffect cfgM false ns o2 w0 =
    (Some [OFanInit; OMount p_h; OMark false p_h; OMark true sl; OStat p_h; OSetgroups; OSetgid 100; OSetuid 1000;
           OExit 1 (Some T_drop)], w0).
  Proof. vm_compute. reflexivity. Qed.

  (* ----- load_handler fails: mkdir of the queue directory is refused ----- *)
  Definition o_mkdir : oracle := fun i => if Nat.eqb i 1 then FFail EACCES else FShort 2.
  Example run_load_fails :
    match klunok env_user cfgM false ns o_mkdir w0 with
    | (Some outs, w') =>
        outs = startup_expected ++ [OLoad (Some p_c) 3 1000 100 0; OExit 1 (Some T_load)] /\
        w_fs w' = w_fs w0 /\ okw w' = false /\
        main (env_of_run env_user cfgM false ns o_mkdir w0) = outs
    | _ => False
    end.
  Proof. vm_compute. repeat split; reflexivity. Qed.

  (* ----- the process dies in load_handler (call 1 is never made) ----- *)
  Definition o_die : oracle := fun i => if Nat.eqb i 1 then FCrash else FShort 2.
  Example run_dies :
    match klunok env_user cfgM false ns o_die w0 with
    | (None, w') => w_n w' = 1%nat /\ w_fs w' = w_fs w0
    | _ => False
    end.
  Proof. vm_compute. split; reflexivity. Qed.
End KlunokExample.

Print Assumptions KlunokExample.startup_user.
Print Assumptions KlunokExample.load_user.
Print Assumptions KlunokExample.run_user.
Print Assumptions KlunokExample.refines_by_theorem.
Print Assumptions KlunokExample.no_root_work_by_theorem.
Print Assumptions KlunokExample.events_after_drop_by_theorem.
Print Assumptions KlunokExample.history_by_theorem.
Print Assumptions KlunokExample.run_root.
Print Assumptions KlunokExample.root_by_theorem.
Print Assumptions KlunokExample.run_noeffect.
Print Assumptions KlunokExample.run_load_fails.
Print Assumptions KlunokExample.run_dies.
