(* C09 Store layout is predictable, keeps the extension, and is confined. *)
From K Require Import Str World Progs Elf Linq Sieve Handler Hoare Confine Confine2 ExtProofs.

(* the extension is everything from the first dot of the file name, not
   counting a leading dot: name = lead ++ stem ++ ext with lead "." exactly for
   hidden names, no dot in stem, and ext empty or starting with a dot *)
Theorem C09_extension : forall (path : str),
  let base := basename path in
  let ext := get_file_extension path in
  exists lead stem,
    base = lead ++ stem ++ ext /\
    no_dot stem /\
    (ext = [] \/ exists r, ext = ch_dot :: r) /\
    ((exists r, base = ch_dot :: r) -> lead = [ch_dot]) /\
    ((forall r, base <> ch_dot :: r) -> lead = []).
Proof. exact ext_decomp. Qed.
Print Assumptions C09_extension.

(* <store root>/<relative path>/<version><extension>, and after k collisions
   <version>-k<extension> *)
Theorem C09_layout : forall (root rel version : str),
  current_path (create_store_path root rel version) =
    root ++ ch_slash :: rel ++ ch_slash :: version ++ get_file_extension rel /\
  forall k, 0 < k ->
    current_path (Nat.iter k increment (create_store_path root rel version)) =
    root ++ ch_slash :: rel ++ ch_slash :: version ++ ch_dash :: dec (N.of_nat k) ++ get_file_extension rel.
Proof. intros. split; [apply layout0 | intros; apply layout_k; assumption]. Qed.
Print Assumptions C09_layout.

Theorem C09_store_dirs_distinct : forall (root rel1 rel2 : str),
  rel1 <> rel2 -> root ++ ch_slash :: rel1 <> root ++ ch_slash :: rel2.
Proof. exact store_dirs_distinct. Qed.
Print Assumptions C09_store_dirs_distinct.

(* Confinement.  L is any list of locations that contains the handler's
   configured store, project store, unstable project store, queue, offset store
   and journal paths (and those of a configuration being reloaded).  Under EVERY
   oracle -- any combination of failing calls, short transfers and a crash -- every
   call in the log that creates, removes, links or opens for writing names a path
   inside one of these locations (mkdir/rmdir: or an ancestor directory of one);
   every other call is read-only or a transfer on a descriptor so obtained. *)
Theorem C09_confined_timeout : forall (L : list str) (rev : bool) (h : handler) (o : oracle) (w : world),
  hinv2 L h -> log_all (conf L) w ->
  log_all (conf L) (snd (handle_timeout rev h o w)).
Proof.
  intros L rev h o w Hh Hw. pose proof (lokv_handle_timeout L rev h Hh o w I Hw) as H.
  destruct (handle_timeout rev h o w) as [[r|] w']; simpl; [destruct H; assumption | assumption].
Qed.
Print Assumptions C09_confined_timeout.

Theorem C09_confined_write : forall (L : list str) (pid : N) (path : str) (nc : option config) (h : handler) (o : oracle) (w : world),
  hinv L h ->
  (forall c, nc = Some c -> incl (cfg_locs c) L /\ c_queue_path c <> root_path) ->
  log_all (conf L) w ->
  log_all (conf L) (snd (handle_close_write pid path nc h o w)).
Proof.
  intros L pid path nc h o w Hh Hnc Hw.
  pose proof (lokv_handle_close_write L pid path nc h Hh Hnc o w I Hw) as H.
  destruct (handle_close_write pid path nc h o w) as [[r|] w']; simpl; [destruct H; assumption | assumption].
Qed.
Print Assumptions C09_confined_write.

Theorem C09_confined_exec : forall (L : list str) (pid : N) (path : str) (h : handler) (o : oracle) (w : world),
  hinv L h -> log_all (conf L) w ->
  log_all (conf L) (snd (handle_open_exec pid path h o w)).
Proof.
  intros L pid path h o w Hh Hw.
  pose proof (lokv_handle_open_exec L pid path h Hh o w I Hw) as H.
  destruct (handle_open_exec pid path h o w) as [[r|] w']; simpl; [destruct H; assumption | assumption].
Qed.
Print Assumptions C09_confined_exec.

Theorem C09_confined_start : forall (L : list str) (cfg : config) (cp : option str) (cpl : nat) (o : oracle) (w : world),
  incl (cfg_locs cfg) L -> c_queue_path cfg <> root_path -> log_all (conf L) w ->
  log_all (conf L) (snd (load_handler cfg cp cpl o w)) /\
  forall h, fst (load_handler cfg cp cpl o w) = Some (Some h) -> hinv L h.
Proof.
  intros L cfg cp cpl o w Hi Hne Hw.
  pose proof (lokv_load_handler L cfg cp cpl Hi Hne o w I Hw) as H.
  destruct (load_handler cfg cp cpl o w) as [[r|] w']; simpl.
  - destruct H as [H1 H2]. split; [assumption|]. intros h E. inversion E; subst. apply H2. reflexivity.
  - split; [assumption | discriminate].
Qed.
Print Assumptions C09_confined_start.

(* the handler invariant is kept by every operation, so the statements chain
   over whole histories *)
Theorem C09_invariant_kept : forall (L : list str) (rev : bool) (h : handler) (o : oracle) (w : world) r,
  hinv2 L h -> log_all (conf L) w -> fst (handle_timeout rev h o w) = Some r -> hinv2 L (snd r).
Proof.
  intros L rev h o w r Hh Hw E. pose proof (lokv_handle_timeout L rev h Hh o w I Hw) as H.
  destruct (handle_timeout rev h o w) as [[r'|] w']; simpl in *; [|discriminate].
  inversion E; subst. apply H.
Qed.
Print Assumptions C09_invariant_kept.

(* non-vacuity: names from the property text *)
Local Open Scope char_scope.
Example C09_example :
  get_file_extension ["a";".";"t";"x";"t"] = [".";"t";"x";"t"] /\
  get_file_extension ["/";"d";"/";".";"a";".";"t";"a";"r";".";"g";"z"] = [".";"t";"a";"r";".";"g";"z"] /\
  get_file_extension ["/";"d";".";"x";"/";".";"h"] = [] /\
  current_path (increment (create_store_path ["/";"s"] ["a";".";"c"] ["v";"1"])) =
    ["/";"s";"/";"a";".";"c";"/";"v";"1";"-";"1";".";"c"].
Proof. vm_compute. auto. Qed.
