(* Model of src/params.c, get_common_parent_path_length (parents.c), make_mount
   (mountinfo.c) and main.c: start-up, privilege drop and the event loop, over
   scripted outcomes of the calls main makes.  No proofs here. *)
From K Require Export Str.
Local Open Scope N_scope.

(* ---------- params.c ---------- *)

Inductive perr := PUnknown (ctx : str) | PRedefined (ctx : str) | PStray (ctx : str).

Record params := mkP {
  p_help : bool; p_version : bool;
  p_cfg : option str; p_drop : option str;
  p_w : list str; p_e : list str      (* in list order: the last given comes first *)
}.

Definition p_empty : params := mkP false false None None [] [].

Definition ch (c : ascii) (x : ascii) : bool := Ascii.eqb c x.

(* "-X": exactly a dash and one character *)
Definition option_letter (a : str) : option ascii :=
  match a with
  | d :: c :: [] => if ch d "-"%char then Some c else None
  | _ => None
  end.

Definition stops (opt : option ascii) : bool :=
  match opt with Some c => ch c "h"%char || ch c "v"%char | None => false end.

Fixpoint parse_loop (args : list str) (prev : str) (opt : option ascii) (p : params)
  : perr + (params * option ascii) :=
  match args with
  | [] => inr (p, opt)
  | a :: rest =>
      if stops opt then inr (p, opt)
      else
        match opt with
        | None =>
            match option_letter a with
            | Some c => parse_loop rest a (Some c) p
            | None => inl (PUnknown a)
            end
        | Some c =>
            if ch c "c"%char then
              match p_cfg p with
              | Some _ => inl (PRedefined prev)
              | None => parse_loop rest a None (mkP (p_help p) (p_version p) (Some a) (p_drop p) (p_w p) (p_e p))
              end
            else if ch c "d"%char then
              match p_drop p with
              | Some _ => inl (PRedefined prev)
              | None => parse_loop rest a None (mkP (p_help p) (p_version p) (p_cfg p) (Some a) (p_w p) (p_e p))
              end
            else if ch c "w"%char then
              parse_loop rest a None (mkP (p_help p) (p_version p) (p_cfg p) (p_drop p) (a :: p_w p) (p_e p))
            else if ch c "e"%char then
              parse_loop rest a None (mkP (p_help p) (p_version p) (p_cfg p) (p_drop p) (p_w p) (a :: p_e p))
            else inl (PUnknown prev)
        end
  end.

Definition root_str : str := [ch_slash].
Definition dot_str : str := [ch_dot].

(* argv without argv[0] *)
Definition parse_params (args : list str) : perr + params :=
  match parse_loop args [] None p_empty with
  | inl e => inl e
  | inr (p, opt) =>
      let lastarg := last args [] in
      let fin (p : params) : params :=
        mkP (p_help p) (p_version p) (p_cfg p)
            (match p_drop p with Some d => Some d | None => Some dot_str end)
            (match p_w p with [] => [dot_str] | l => l end)
            (match p_e p with [] => [root_str] | l => l end) in
      match opt with
      | None => inr (fin p)
      | Some c =>
          if ch c "h"%char then inr (fin (mkP true (p_version p) (p_cfg p) (p_drop p) (p_w p) (p_e p)))
          else if ch c "v"%char then inr (fin (mkP (p_help p) true (p_cfg p) (p_drop p) (p_w p) (p_e p)))
          else if ch c "c"%char || ch c "d"%char || ch c "w"%char || ch c "e"%char then inl (PStray lastarg)
          else inl (PUnknown lastarg)
      end
  end.

(* ---------- parents.c: get_common_parent_path_length ---------- *)

Definition is_sep (o : option ascii) : bool :=
  match o with None => true | Some c => is_slash c end.

Fixpoint common_loop (fuel : nat) (a b : str) (i result : nat) : nat :=
  match fuel with
  | O => result
  | S fuel' =>
      let x := nth_error a i in let y := nth_error b i in
      if is_sep x && is_sep y then
        match x, y with
        | Some _, Some _ => common_loop fuel' a b (S i) (S i)
        | _, _ => S i
        end
      else
        match x, y with
        | Some c, Some d => if Ascii.eqb c d then common_loop fuel' a b (S i) result else result
        | _, _ => result
        end
  end.

Definition common_len (a b : str) : nat :=
  match a, b with
  | [_], [_] => 1%nat                      (* both are "/" *)
  | _, _ => common_loop (S (Nat.max (length a) (length b))) a b 1 1
  end.

(* ---------- main.c ---------- *)

Inductive sw := SwOk | SwFail | SwNoEffect.
Inductive pollr := PollEvent | PollTimeout | PollErr | PollHup.
Inductive readr := ReadFull | ReadShort | ReadFail.

Record event := mkEv {
  ev_vers_ok : bool; ev_exec : bool; ev_write : bool; ev_overflow : bool; ev_pid : N; ev_fd : N
}.

Record slot := mkSlot {
  s_poll : pollr; s_read : readr; s_ev : event;
  s_exec_ok : bool; s_write_ok : bool;
  s_timeout : option Z           (* what handle_timeout returns; None = it reports an error *)
}.

Record env := mkEnv {
  e_args : list str;
  e_realpath : list (str * str);  (* resolvable directory arguments *)
  e_mounted : list str;           (* mount points listed in /proc/self/mounts *)
  e_fan_init_ok : bool;
  e_mountinfo_ok : bool;
  e_mount_ok : bool;
  e_mark_ok : nat -> bool;        (* outcome of the n-th fanotify_mark *)
  e_stat : option (N * N);        (* owner uid, gid of the privilege dropping path *)
  e_uid : N; e_gid : N; e_groups : nat;
  e_setgroups : sw; e_setgid : sw; e_setuid : sw;
  e_load_ok : bool;
  e_self : N;
  e_slots : list slot
}.

Inductive topmsg :=
| T_parse | T_fan_init | T_mount_list | T_watch | T_drop | T_load
| T_poll | T_read | T_version | T_overflow | T_exec | T_write | T_timeout.

Inductive out :=
| OFanInit
| OMount (p : str)
| OMark (is_exec : bool) (p : str)
| OStat (p : str)
| OSetgroups | OSetgid (g : N) | OSetuid (u : N)
| OLoad (cfg : option str) (cpl : nat) (uid gid : N) (groups : nat)
| OPoll (ms : Z)
| ORead
| OExec (pid fd : N)
| OWrite (pid fd : N)
| OClose (fd : N)
| OTimeout
| OExit (code : nat) (top : option topmsg)
| OEnd.                           (* the script ran out of slots *)

Fixpoint assoc (k : str) (l : list (str * str)) : option str :=
  match l with
  | [] => None
  | (a, b) :: r => if str_eqb k a then Some b else assoc k r
  end.

Definition memstr (k : str) (l : list str) : bool := existsb (str_eqb k) l.

(* marking the roots of one kind; returns the events, whether it failed, the
   updated mount set, mark counter, and for write roots the common parent fold *)
Fixpoint mark_roots (is_exec : bool) (env : env) (roots : list str) (mounted : list str) (nmark : nat)
         (prev : option str) (cpl : nat) : list out * bool * list str * nat * nat :=
  match roots with
  | [] => ([], true, mounted, nmark, cpl)
  | r :: rest =>
      match assoc r (e_realpath env) with
      | None => ([], false, mounted, nmark, cpl)                  (* realpath fails *)
      | Some m =>
          let already := memstr m mounted in
          let ev_mount := if already then [] else [OMount m] in
          if negb already && negb (e_mount_ok env) then (ev_mount, false, mounted, nmark, cpl)
          else
            let mounted' := if already then mounted else m :: mounted in
            if e_mark_ok env nmark then
              let cpl' := match prev with
                          | None => common_len m m
                          | Some pm => Nat.min cpl (common_len pm m)
                          end in
              let '(evs, ok, mo, nm, c) := mark_roots is_exec env rest mounted' (S nmark) (Some m) cpl' in
              (ev_mount ++ OMark is_exec m :: evs, ok, mo, nm, c)
            else (ev_mount ++ [OMark is_exec m], false, mounted', S nmark, cpl)
      end
  end.

Definition poll_ms (pause : Z) : Z :=
  if (2147483 <? pause)%Z then 2147483647%Z else (pause * 1000)%Z.

Fixpoint loop (self : N) (slots : list slot) (pause : Z) : list out :=
  match slots with
  | [] => [OPoll (poll_ms pause); OEnd]
  | s :: rest =>
      OPoll (poll_ms pause) ::
      match s_poll s with
      | PollErr | PollHup => [OExit 1 (Some T_poll)]
      | PollTimeout =>
          OTimeout :: match s_timeout s with
                      | Some z => loop self rest z
                      | None => [OExit 1 (Some T_timeout)]
                      end
      | PollEvent =>
          ORead ::
          match s_read s with
          | ReadShort | ReadFail => [OExit 1 (Some T_read)]
          | ReadFull =>
              let e := s_ev s in
              if negb (ev_vers_ok e) then [OExit 1 (Some T_version)]
              else if ev_overflow e then [OExit 1 (Some T_overflow)]
              else
                let '(disp, ok, top) :=
                  if ev_exec e then ([OExec (ev_pid e) (ev_fd e)], s_exec_ok s, T_exec)
                  else if ev_write e && negb (ev_pid e =? self) then ([OWrite (ev_pid e) (ev_fd e)], s_write_ok s, T_write)
                  else ([], true, T_exec) in
                disp ++ OClose (ev_fd e) ::
                (if ok then
                   OTimeout :: match s_timeout s with
                               | Some z => loop self rest z
                               | None => [OExit 1 (Some T_timeout)]
                               end
                 else [OExit 1 (Some top)])
          end
      end
  end.


Definition apply_sw {A} (s : sw) (new cur : A) : A := match s with SwOk => new | _ => cur end.

(* the privilege switch: events, success, and the credentials afterwards *)
Definition drop_privileges (env : env) : list out * bool * N * N * nat :=
  let switch :=
    match e_stat env with
    | Some (u, g) => negb (g =? 0) && negb (u =? 0)
    | None => false
    end in
  if switch then
    match e_stat env with
    | Some (u, g) =>
        match e_setgroups env with
        | SwFail => ([OSetgroups], false, e_uid env, e_gid env, e_groups env)
        | sg =>
            let groups := apply_sw sg 0%nat (e_groups env) in
            match e_setgid env with
            | SwFail => ([OSetgroups; OSetgid g], false, e_uid env, e_gid env, groups)
            | sgid =>
                let gid := apply_sw sgid g (e_gid env) in
                match e_setuid env with
                | SwFail => ([OSetgroups; OSetgid g; OSetuid u], false, e_uid env, gid, groups)
                | suid => ([OSetgroups; OSetgid g; OSetuid u], true, apply_sw suid u (e_uid env), gid, groups)
                end
            end
        end
    | None => ([], true, e_uid env, e_gid env, e_groups env)
    end
  else ([], true, e_uid env, e_gid env, e_groups env).

Definition main (env : env) : list out :=
  match parse_params (e_args env) with
  | inl _ => [OExit 1 (Some T_parse)]
  | inr p =>
      if p_version p then [OExit 0 None]
      else if p_help p then [OExit 0 None]
      else
        OFanInit ::
        if negb (e_fan_init_ok env) then [OExit 1 (Some T_fan_init)]
        else if negb (e_mountinfo_ok env) then [OExit 1 (Some T_mount_list)]
        else
          let '(ev1, ok1, mounted1, n1, cpl) := mark_roots false env (p_w p) (e_mounted env) 0 None 0 in
          if negb ok1 then ev1 ++ [OExit 1 (Some T_watch)]
          else
            let '(ev2, ok2, _, _, _) := mark_roots true env (p_e p) mounted1 n1 None 0 in
            if negb ok2 then ev1 ++ ev2 ++ [OExit 1 (Some T_watch)]
            else
              let drop := match p_drop p with Some d => d | None => dot_str end in
              let '(ev3, ok3, uid, gid, groups) := drop_privileges env in
              let pre := ev1 ++ ev2 ++ OStat drop :: ev3 in
              if negb ok3 || (uid =? 0) || (gid =? 0) || negb (Nat.eqb groups 0) then pre ++ [OExit 1 (Some T_drop)]
              else
                pre ++ OLoad (p_cfg p) cpl uid gid groups ::
                if negb (e_load_ok env) then [OExit 1 (Some T_load)]
                else loop (e_self env) (e_slots env) 0%Z
  end.
