(* C19 at the level of the HANDLER, for whole HISTORIES of events.
   JournalHistoryProofs.v.  jevent = exec pid path | write pid path new_cfg |
   timeout | clock now;  jrun runs a history through the handler programs under
   one oracle.  quiet = the event is not an effective reload (a reload opens a
   new journal: treated separately, write_event_append_only).  jsep = the
   journal inode is allocated and no name below the offset root leads to it
   (offset files are the only files klunok truncates); without it the statement
   is refuted (journal_append_only_without_jsep_refuted: a journal_path equal to
   an offset file's path is truncated by the position update - a configuration
   hazard).  hist_spec gives the lines event by event: an exec event the line
   with the editor / not-editor label, a write event the by-editor /
   not-by-editor label, each stamped with expand_pattern of the journal pattern
   at the clock of the event, nothing for an unconfigured label; a timeout pass
   lines with the stored / deleted / forbidden labels and pid 0. *)
From K Require Import Str Dec Trace Fs World Progs Elf Linq Sieve Handler Hoare Confine Confine2 SyncProofs
     StoreFs StoreLogic DecProofs JournalProofs JournalHistoryProofs.

(* append-only, EVERY oracle (failing calls, short writes, a crash anywhere) *)
Theorem C19_world_append_only : forall evs o w h jn,
  h_journal h = Some jn -> joff_ok (h_cfg h) -> jsep (h_cfg h) (j_ino jn) (w_fs w) ->
  Forall (quiet (h_cfg_path h)) evs ->
  let w' := snd (jrun evs h o w) in
  exists s, f_bytes (get_file (w_fs w') (j_ino jn)) = f_bytes (get_file (w_fs w) (j_ino jn)) ++ s.
Proof. exact journal_append_only. Qed.
Print Assumptions C19_world_append_only.

(* whole lines, one per labelled event, every benign oracle (writes may be cut
   into arbitrary positive pieces) *)
Theorem C19_world_whole_lines : forall evs o w h jn,
  JournalProofs.benign o -> h_journal h = Some jn -> joff_ok (h_cfg h) ->
  jsep (h_cfg h) (j_ino jn) (w_fs w) -> Forall (quiet (h_cfg_path h)) evs ->
  exists h' w' lines,
    jrun evs h o w = (Some h', w') /\
    hist_spec o (h_cfg h) jn evs h w h' w' lines /\
    f_bytes (get_file (w_fs w') (j_ino jn)) = f_bytes (get_file (w_fs w) (j_ino jn)) ++ concat lines /\
    h_cfg h' = h_cfg h /\ h_journal h' = Some jn /\ h_cfg_path h' = h_cfg_path h /\
    jsep (h_cfg h) (j_ino jn) (w_fs w').
Proof. exact journal_whole_lines. Qed.
Print Assumptions C19_world_whole_lines.

(* non-vacuity: a 9-event history with every kind of label, one unconfigured,
   one empty, under an oracle that cuts every write to one byte *)
Example C19_world_hyps_hold := JournalHistoryExample.hyps_hold.
Example C19_world_run := JournalHistoryExample.run_computed.
