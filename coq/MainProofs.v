(* Facts about the model of main.c: privilege drop (C12) and the event loop (C17). *)
From K Require Import Str Main.
From Coq Require Import Lia.
Local Open Scope N_scope.

(* ---------- the event loop ---------- *)

Definition is_work (o : out) : bool :=
  match o with
  | OLoad _ _ _ _ _ | OPoll _ | ORead | OExec _ _ | OWrite _ _ | OClose _ | OTimeout => true
  | _ => false
  end.

Definition dispatch (self : N) (s : slot) : list out :=
  let e := s_ev s in
  if ev_exec e then [OExec (ev_pid e) (ev_fd e)]
  else if ev_write e && negb (ev_pid e =? self) then [OWrite (ev_pid e) (ev_fd e)]
  else [].

Definition handler_ok (self : N) (s : slot) : bool :=
  let e := s_ev s in
  if ev_exec e then s_exec_ok s
  else if ev_write e && negb (ev_pid e =? self) then s_write_ok s
  else true.

Definition good_event (s : slot) : Prop :=
  s_poll s = PollEvent /\ s_read s = ReadFull /\ ev_vers_ok (s_ev s) = true /\ ev_overflow (s_ev s) = false.

Lemma loop_good self s rest pause z :
  good_event s -> handler_ok self s = true -> s_timeout s = Some z ->
  loop self (s :: rest) pause =
  OPoll (poll_ms pause) :: ORead :: dispatch self s ++ OClose (ev_fd (s_ev s)) :: OTimeout :: loop self rest z.
Proof.
  intros [Hp [Hr [Hv Ho]]] Hok Ht. unfold handler_ok, dispatch in *. cbn [loop].
  rewrite Hp, Hr, Hv, Ho. cbn [negb].
  destruct (ev_exec (s_ev s)).
  - rewrite Hok, Ht. reflexivity.
  - destruct (ev_write (s_ev s) && negb (ev_pid (s_ev s) =? self)).
    + rewrite Hok, Ht. reflexivity.
    + rewrite Ht. reflexivity.
Qed.

Lemma loop_handler_error self s rest pause :
  good_event s -> handler_ok self s = false ->
  loop self (s :: rest) pause =
  OPoll (poll_ms pause) :: ORead :: dispatch self s ++ OClose (ev_fd (s_ev s)) ::
  [OExit 1 (Some (if ev_exec (s_ev s) then T_exec else T_write))].
Proof.
  intros [Hp [Hr [Hv Ho]]] Hok. unfold handler_ok, dispatch in *. cbn [loop].
  rewrite Hp, Hr, Hv, Ho. cbn [negb].
  destruct (ev_exec (s_ev s)).
  - rewrite Hok. reflexivity.
  - destruct (ev_write (s_ev s) && negb (ev_pid (s_ev s) =? self)); [|discriminate].
    rewrite Hok. reflexivity.
Qed.

Lemma loop_timeout_error self s rest pause :
  good_event s -> handler_ok self s = true -> s_timeout s = None ->
  loop self (s :: rest) pause =
  OPoll (poll_ms pause) :: ORead :: dispatch self s ++ OClose (ev_fd (s_ev s)) :: OTimeout :: [OExit 1 (Some T_timeout)].
Proof.
  intros [Hp [Hr [Hv Ho]]] Hok Ht. unfold handler_ok, dispatch in *. cbn [loop].
  rewrite Hp, Hr, Hv, Ho. cbn [negb].
  destruct (ev_exec (s_ev s)).
  - rewrite Hok, Ht. reflexivity.
  - destruct (ev_write (s_ev s) && negb (ev_pid (s_ev s) =? self)).
    + rewrite Hok, Ht. reflexivity.
    + rewrite Ht. reflexivity.
Qed.

(* every way a slot can go wrong before dispatch stops the daemon without dispatching *)
Definition bad_top (s : slot) : option (list out * topmsg) :=
  match s_poll s with
  | PollErr | PollHup => Some ([], T_poll)
  | PollTimeout => None
  | PollEvent =>
      match s_read s with
      | ReadShort | ReadFail => Some ([ORead], T_read)
      | ReadFull =>
          if negb (ev_vers_ok (s_ev s)) then Some ([ORead], T_version)
          else if ev_overflow (s_ev s) then Some ([ORead], T_overflow)
          else None
      end
  end.

Lemma loop_stops self s rest pause pre t :
  bad_top s = Some (pre, t) ->
  loop self (s :: rest) pause = OPoll (poll_ms pause) :: pre ++ [OExit 1 (Some t)].
Proof.
  unfold bad_top. cbn [loop]. intros H.
  destruct (s_poll s); try (inversion H; subst; reflexivity); try discriminate.
  destruct (s_read s); try (inversion H; subst; reflexivity).
  destruct (ev_vers_ok (s_ev s)); cbn [negb] in *; [|inversion H; subst; reflexivity].
  destruct (ev_overflow (s_ev s)); [inversion H; subst; reflexivity | discriminate].
Qed.

Lemma loop_wakeup self s rest pause z :
  s_poll s = PollTimeout -> s_timeout s = Some z ->
  loop self (s :: rest) pause = OPoll (poll_ms pause) :: OTimeout :: loop self rest z.
Proof. intros Hp Ht. cbn [loop]. rewrite Hp, Ht. reflexivity. Qed.

Lemma poll_ms_spec pause :
  ((pause <= 2147483)%Z -> poll_ms pause = (1000 * pause)%Z) /\
  ((pause < 0)%Z -> (poll_ms pause < 0)%Z) /\
  ((0 <= pause)%Z -> (0 <= poll_ms pause <= 2147483647)%Z).
Proof.
  unfold poll_ms. destruct (Z.ltb_spec 2147483 pause); repeat split; intros; lia.
Qed.

(* a self write never reaches the write handler *)
Lemma self_write_ignored self s : ev_exec (s_ev s) = false -> ev_pid (s_ev s) = self -> dispatch self s = [].
Proof.
  intros He Hp. unfold dispatch. rewrite He, Hp, N.eqb_refl. rewrite andb_false_r. reflexivity.
Qed.

(* ---------- privilege drop ---------- *)

Definition no_work (l : list out) : Prop := Forall (fun o => is_work o = false) l.

Lemma mark_roots_no_work is_exec env roots : forall mounted n prev cpl,
  no_work (fst (fst (fst (fst (mark_roots is_exec env roots mounted n prev cpl))))).
Proof.
  induction roots as [|r roots IH]; intros mounted n prev cpl; cbn [mark_roots]; [constructor|].
  destruct (assoc r (e_realpath env)) as [m|]; [|constructor].
  destruct (negb (memstr m mounted) && negb (e_mount_ok env)).
  - cbn [fst]. destruct (memstr m mounted); repeat constructor.
  - destruct (e_mark_ok env n).
    + specialize (IH (if memstr m mounted then mounted else m :: mounted) (S n) (Some m)
                     (match prev with None => common_len m m | Some pm => Nat.min cpl (common_len pm m) end)).
      destruct (mark_roots is_exec env roots _ _ _ _) as [[[[evs ok] mo] nm] c]. cbn [fst] in *.
      apply Forall_app. split; [destruct (memstr m mounted); repeat constructor|].
      constructor; [reflexivity | assumption].
    + cbn [fst]. apply Forall_app. split; [destruct (memstr m mounted); repeat constructor | repeat constructor].
Qed.

(* main's output is a start-up phase without any work, followed either by an
   exit or by the loading of the handler with non-root credentials and no
   supplementary groups *)
Lemma main_shape env :
  exists pre tail, main env = pre ++ tail /\ no_work pre /\
    ((exists c t, tail = [OExit c t]) \/
     (exists cfg cpl u g rest ev3, tail = OLoad cfg cpl u g 0 :: rest /\ u <> 0 /\ g <> 0 /\
                                   drop_privileges env = (ev3, true, u, g, 0%nat))).
Proof.
  unfold main. destruct (parse_params (e_args env)) as [e|p].
  { exists [], [OExit 1 (Some T_parse)]. split; [reflexivity|]. split; [constructor|]. left; eauto. }
  destruct (p_version p). { exists [], [OExit 0 None]. repeat split; [constructor | left; eauto]. }
  destruct (p_help p). { exists [], [OExit 0 None]. repeat split; [constructor | left; eauto]. }
  destruct (e_fan_init_ok env); cbn [negb].
  2:{ exists [OFanInit], [OExit 1 (Some T_fan_init)]. repeat split; [repeat constructor | left; eauto]. }
  destruct (e_mountinfo_ok env); cbn [negb].
  2:{ exists [OFanInit], [OExit 1 (Some T_mount_list)]. repeat split; [repeat constructor | left; eauto]. }
  pose proof (mark_roots_no_work false env (p_w p) (e_mounted env) 0 None 0) as H1.
  destruct (mark_roots false env (p_w p) (e_mounted env) 0 None 0) as [[[[ev1 ok1] mounted1] n1] cpl]. cbn [fst] in H1.
  destruct ok1; cbn [negb].
  2:{ exists (OFanInit :: ev1), [OExit 1 (Some T_watch)]. split; [reflexivity|]. split; [constructor; [reflexivity|assumption] | left; eauto]. }
  pose proof (mark_roots_no_work true env (p_e p) mounted1 n1 None 0) as H2.
  destruct (mark_roots true env (p_e p) mounted1 n1 None 0) as [[[[ev2 ok2] mo2] n2] c2]. cbn [fst] in H2.
  destruct ok2; cbn [negb].
  2:{ exists (OFanInit :: ev1 ++ ev2), [OExit 1 (Some T_watch)]. split; [cbn [app]; rewrite <- app_assoc; reflexivity|].
      split; [constructor; [reflexivity | apply Forall_app; auto] | left; eauto]. }
  set (drop := match p_drop p with Some d => d | None => dot_str end).
  destruct (drop_privileges env) as [[[[ev3 ok3] uid] gid] groups] eqn:E3. unfold drop_privileges in E3.
  assert (H3 : no_work ev3).
  { destruct (match e_stat env with Some (u, g) => negb (g =? 0) && negb (u =? 0) | None => false end).
    - destruct (e_stat env) as [[u g]|]; [|inversion E3; constructor].
      destruct (e_setgroups env); [| inversion E3; repeat constructor |];
        (destruct (e_setgid env); [| inversion E3; repeat constructor |];
         (destruct (e_setuid env); inversion E3; repeat constructor)).
    - inversion E3. constructor. }
  destruct (negb ok3 || (uid =? 0) || (gid =? 0) || negb (Nat.eqb groups 0)) eqn:Ec.
  - exists (OFanInit :: ev1 ++ ev2 ++ OStat drop :: ev3), [OExit 1 (Some T_drop)].
    split; [cbn [app]; rewrite <- !app_assoc; reflexivity|].
    split; [|left; eauto].
    constructor; [reflexivity|]. apply Forall_app. split; [assumption|]. apply Forall_app. split; [assumption|].
    constructor; [reflexivity | assumption].
  - apply orb_false_iff in Ec. destruct Ec as [Ec Eg]. apply orb_false_iff in Ec. destruct Ec as [Ec Egid].
    apply orb_false_iff in Ec. destruct Ec as [H Euid].
    apply negb_false_iff, Nat.eqb_eq in Eg. subst groups.
    apply N.eqb_neq in Euid. apply N.eqb_neq in Egid.
    exists (OFanInit :: ev1 ++ ev2 ++ OStat drop :: ev3).
    eexists. split; [cbn [app]; rewrite <- !app_assoc; cbn [app]; reflexivity|].
    split.
    + constructor; [reflexivity|]. apply Forall_app. split; [assumption|]. apply Forall_app. split; [assumption|].
      constructor; [reflexivity | assumption].
    + right. apply negb_false_iff in H. subst ok3.
      do 6 eexists. split; [reflexivity|]. split; [assumption|]. split; [assumption|]. reflexivity.
Qed.

(* started as root (uid 0, gid 0, some supplementary group): if the designated
   path cannot be examined, is owned by user 0 or group 0, or any switch fails
   or does not take effect, the handler is never loaded *)
Lemma fail_closed env :
  e_uid env = 0 -> e_gid env = 0 -> (0 < e_groups env)%nat ->
  (e_stat env = None \/ (exists u g, e_stat env = Some (u, g) /\ (u = 0 \/ g = 0)) \/
   e_setgroups env <> SwOk \/ e_setgid env <> SwOk \/ e_setuid env <> SwOk) ->
  forall cfg cpl u g n, ~ In (OLoad cfg cpl u g n) (main env).
Proof.
  intros Hu Hg Hn Hbad cfg cpl u g n Hin.
  destruct (main_shape env) as [pre [tail [E [Hpre Htail]]]]. rewrite E in Hin.
  apply in_app_or in Hin. destruct Hin as [Hin|Hin].
  - unfold no_work in Hpre. rewrite Forall_forall in Hpre. specialize (Hpre _ Hin). discriminate.
  - destruct Htail as [[c [t ->]]|[cfg' [cpl' [u' [g' [rest [ev3 [-> [Hu' [Hg' Hd]]]]]]]]]].
    + destruct Hin as [Hin|[]]. discriminate.
    + clear Hin. unfold drop_privileges in Hd. rewrite Hu, Hg in Hd.
      destruct (e_stat env) as [[su sg]|] eqn:Es.
      * destruct (negb (sg =? 0) && negb (su =? 0)) eqn:Esw.
        -- apply andb_true_iff in Esw. destruct Esw as [E1 E2].
           apply negb_true_iff, N.eqb_neq in E1. apply negb_true_iff, N.eqb_neq in E2.
           destruct (e_setgroups env) eqn:Esg; [| inversion Hd |];
             (destruct (e_setgid env) eqn:Esgid; [| inversion Hd |];
              (destruct (e_setuid env) eqn:Esuid; inversion Hd; subst; cbn [apply_sw] in *; try congruence; try lia)).
           destruct Hbad as [Hb|[[u0 [g0 [Hb1 Hb2]]]|[Hb|[Hb|Hb]]]]; try congruence.
           inversion Hb1; subst. destruct Hb2; congruence.
        -- inversion Hd; subst. congruence.
      * inversion Hd; subst. congruence.
Qed.
