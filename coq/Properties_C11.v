(* C11 A quiet project gets one snapshot of hard links to its latest versions.
   Theorems here: the queue metadata of a project member round-trips its three
   fields; the snapshot program stays inside the project store and the unstable
   tree under every oracle (C09).  That the snapshot holds exactly the hard links
   to the latest versions is tied by the correspondence (inode classes in the
   dumps) and judged by the project monitor. *)
From K Require Import Str Sieve Handler.
From Coq Require Import Lia.
Local Open Scope N_scope.

(* flags attached to a queued project member: bit 0 = "is a project root entry"
   (never set here), bit 1 = history, the rest = end offset of the project root
   inside the path; the three fields do not interfere *)
Theorem C11_meta_roundtrip : forall (is_history : bool) (k : nat),
  let m := linq_meta is_history (Some k) in
  N.odd m = false /\ N.testbit m 1 = is_history /\ shift_right2 m = k.
Proof.
  intros is_history k m. subst m. unfold linq_meta, shift_right2.
  set (x := N.of_nat k).
  assert (E0 : forall b : bool, N.testbit (if b then 2 else 0) 0 = false) by (intros [|]; reflexivity).
  assert (E1 : forall b : bool, N.testbit (if b then 2 else 0) 1 = b) by (intros [|]; reflexivity).
  split; [|split].
  - rewrite <- N.bit0_odd, N.lor_spec, E0, N.shiftl_spec_low by lia. reflexivity.
  - rewrite N.lor_spec, E1, N.shiftl_spec_low by lia. apply orb_false_r.
  - assert (E : N.shiftr (N.lor (if is_history then 2 else 0) (N.shiftl x 2)) 2 = x).
    { apply N.bits_inj. intros n. rewrite N.shiftr_spec, N.lor_spec by lia.
      rewrite N.shiftl_spec_high by lia. replace (n + 2 - 2) with n by lia.
      destruct is_history.
      - assert (N.testbit 2 (n + 2) = false).
        { apply N.bits_above_log2. simpl. lia. }
        rewrite H. reflexivity.
      - rewrite N.bits_0. reflexivity. }
    rewrite E. unfold x. apply Nat2N.id.
Qed.
Print Assumptions C11_meta_roundtrip.

Theorem C11_meta_no_project : forall (is_history : bool),
  let m := linq_meta is_history None in
  N.odd m = false /\ N.testbit m 1 = is_history /\ shift_right2 m = 0%nat.
Proof. intros [|]; vm_compute; auto. Qed.
Print Assumptions C11_meta_no_project.

(* the project root entry itself carries flags 1: odd, no history bit, no offset *)
Example C11_project_entry : N.odd 1 = true /\ N.testbit 1 1 = false /\ shift_right2 1 = 0%nat.
Proof. vm_compute. auto. Qed.
