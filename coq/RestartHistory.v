(* C14 ("its on-disk form is at all times a gap-free run of numbered links that
   reloads to the same queue") and C03 at the level of the HANDLER, over
   histories WITH RESTARTS.  For every benign oracle.

   A history (rstep) interleaves accepted plain writes (handle_close_write,
   decision (true,false,None)), timeout passes (handle_timeout), steps of the
   environment (files rewritten, clock advanced; the queue directory is left
   alone) and RESTARTS: the in-memory handler is thrown away and a new one is
   built by the real start-up code, Handler.load_handler, run on the same
   configuration in a fresh process (empty error trace): it scans the queue
   directory (load_linq), opens the journal again, and starts with EMPTY editor
   pid and interpreter tables.

     ref_run / ref_queue       the reference queue, computed from the event list
                               alone: a write appends (path, 0, clock), a pass
                               keeps BurstProofs.rest_part, restart and
                               environment change nothing
     load_handler_restart      one restart: load_handler succeeds, changes nothing
                               on disk, and returns a handler whose queue refines
                               the SAME entries, with the same head number, size,
                               directory, debounce, buffer guess and journal
     dup_pass_qsub             a pass creates no name in the queue directory
     rrun_prefix               the invariant along a history, at every prefix
     restart_history_queue     (1) QRel (h_q h) (w_fs w) (ref_queue hist)
     restart_reloads_same_queue    a restart at the end of any history: same
                               reference queue, same disk, same head and size
     qrel_gap_free             QRel + qclean: the directory holds exactly the links
                               head .. head + n - 1, link i = entry i with its time
     gap_free_at_all_times     (2) at every prefix of the history
     restart_then_pass_same_as_no_restart
                               (3) s1 ++ [RRestart; RPass] stores what s1 ++ [RPass] stores
     Module RestartExample     write a, write b, restart, write a, clock +, restart, pass *)
From K Require Import Str Dec Trace Fs World Progs Sieve Handler Linq LinqSpec LinqProofs
     DecProofs SyncProofs AbandonProofs JournalProofs QueueProofs Confine Confine2 DebounceProofs
     PassProofs PassProofs2 JournalHistoryProofs AcceptProofs MemberProofs MemberBurst BurstProofs
     CrashFrame CrashLoad RecoverFrame RecoverProofs.
From K Require CrashProofs.
From Coq Require Import Lia.
Arguments N.add : simpl never.
Arguments N.sub : simpl never.
Arguments N.mul : simpl never.
Arguments N.of_nat : simpl never.
Arguments N.eqb : simpl never.
Arguments N.leb : simpl never.
Arguments Nat.pow : simpl never.
Arguments Nat.mul : simpl never.

(* ====================================================================== *)
(* 1. the queue directory: nothing but the window                          *)
(* ====================================================================== *)

(* f' has no name directly inside d that f has not *)
Definition qsub (d : str) (f f' : fs) : Prop :=
  forall x, dirname x = d -> x <> root_path -> lookup f' x <> None -> lookup f x <> None.

Lemma qsub_refl d f : qsub d f f.
Proof. intros x _ _ H. exact H. Qed.

Lemma qsub_trans d f1 f2 f3 : qsub d f1 f2 -> qsub d f2 f3 -> qsub d f1 f3.
Proof. intros A B x Hd Hr H. exact (A x Hd Hr (B x Hd Hr H)). Qed.

Lemma qclean_sub d f f' : qclean d f -> qsub d f f' -> qclean d f'.
Proof.
  intros [Hne Hc] Hs. split; [exact Hne|]. intros p Hd Hr Hp. exact (Hc p Hd Hr (Hs p Hd Hr Hp)).
Qed.

(* the contents of the queue directory, spelled out: link number hd + i is the
   encoding of the i-th entry and carries its time; there is nothing else *)
Record gap_free (d : str) (f : fs) (hd : N) (ents : list qent) : Prop := {
  GF_link : forall i p m t, nth_error ents i = Some (p, m, t) ->
      lookup f (join d (dec (hd + N.of_nat i))) = Some (NLink (encode m p) t);
  GF_only : forall x, dirname x = d -> x <> root_path -> lookup f x <> None ->
      exists i, i < length ents /\ x = join d (dec (hd + N.of_nat i));
  GF_before : forall k, (k < hd)%N -> lookup f (join d (dec k)) = None;
  GF_after : forall k, (hd + N.of_nat (length ents) <= k)%N -> lookup f (join d (dec k)) = None
}.

(* "QRel -> the directory is a gap-free run" *)
Lemma qrel_gap_free q f ents :
  QRel q f ents -> qclean (q_dir q) f -> gap_free (q_dir q) f (q_head q) ents.
Proof.
  intros HR [Hne Hc]. constructor.
  - exact (QR_ent _ _ _ HR).
  - intros x Hd Hr Hx. destruct (Hc x Hd Hr Hx) as [k ->].
    destruct (N.lt_ge_cases k (q_head q)) as [Hlt|Hge].
    { exfalso. apply Hx. apply (QR_free _ _ _ HR). left. exact Hlt. }
    destruct (N.lt_ge_cases k (q_head q + N.of_nat (length ents))) as [Hin|Hout].
    2:{ exfalso. apply Hx. apply (QR_free _ _ _ HR). right. exact Hout. }
    exists (N.to_nat (k - q_head q)). split; [lia|]. f_equal. f_equal. lia.
  - intros k Hk. apply (QR_free _ _ _ HR). left. exact Hk.
  - intros k Hk. apply (QR_free _ _ _ HR). right. exact Hk.
Qed.

(* two in-memory queues that refine the same entries on the same disk agree on
   the head number (and on the size): "link names continue where they were" *)
Lemma QRel_head_unique q q' f ents :
  QRel q f ents -> QRel q' f ents -> q_dir q' = q_dir q ->
  q_head q' = q_head q /\ q_size q' = q_size q.
Proof.
  intros HR HR' Hd. split; [|rewrite (QR_size _ _ _ HR), (QR_size _ _ _ HR'); reflexivity].
  destruct ents as [|[[p m] t] rest].
  - rewrite (QR_head0 _ _ _ HR eq_refl), (QR_head0 _ _ _ HR' eq_refl). reflexivity.
  - pose proof (QRel_head _ _ _ _ _ _ HR) as H1. pose proof (QRel_head _ _ _ _ _ _ HR') as H2.
    rewrite Hd in H2.
    assert (A : ~ (q_head q' < q_head q \/ q_head q + N.of_nat (length ((p, m, t) :: rest)) <= q_head q')%N).
    { intros Hk. rewrite (QR_free _ _ _ HR _ Hk) in H2. discriminate. }
    assert (B : ~ (q_head q < q_head q' \/ q_head q' + N.of_nat (length ((p, m, t) :: rest)) <= q_head q)%N).
    { intros Hk. pose proof (QR_free _ _ _ HR' _ Hk) as E. rewrite Hd, H1 in E. discriminate. }
    lia.
Qed.

(* ====================================================================== *)
(* 2. the restart: load_handler on the disk a handler left                 *)
(* ====================================================================== *)

(* a new process: same disk, same clock, empty error trace *)
Definition fresh (w : world) : world := mkW (w_fs w) (w_n w) (w_log w) (w_clock w) tr_empty.

(* the handler agrees with its configuration (it was built from it and nothing
   has been reloaded since), and the journal file is where it was opened *)
Record restart_ok (h : handler) (f : fs) : Prop := {
  RO_dir : q_dir (h_q h) = c_queue_path (h_cfg h);
  RO_deb : q_deb (h_q h) = c_debounce (h_cfg h);
  RO_guess : q_len_guess (h_q h) = c_path_length_guess (h_cfg h);
  RO_journal :
    match c_journal_path (h_cfg h) with
    | None => h_journal h = None
    | Some jp =>
        exists r i, jp = ch_slash :: r /\
          (forall d, In d (parents_of jp) -> lookup f d = Some NDir) /\
          lookup f jp = Some (NFile i) /\
          h_journal h = Some (mkJ i (c_journal_pattern (h_cfg h)))
    end
}.

Lemma tr_ok_rethrow_context s t : tr_ok t = true -> tr_rethrow_context s t = t.
Proof. intros H. unfold tr_rethrow_context. rewrite H. cbn [negb]. rewrite andb_false_r. reflexivity. Qed.

Lemma tr_ok_finally_rethrow m t : tr_ok t = true -> tr_ok (tr_finally_rethrow_static m t) = true.
Proof.
  destruct t as [fr pre post]. unfold tr_ok. cbn [t_frames]. destruct fr as [|x fr]; [intros _|discriminate].
  unfold tr_finally_rethrow_static, tr_decrement. cbn [t_post t_pre t_frames].
  destruct post as [|post]; cbn [andb negb tr_ok t_frames]; reflexivity.
Qed.

(* mkdir -p of directories that all exist: EEXIST each, nothing changes *)
Lemma mkdir_all_existing o : benign o -> forall ds w,
  (forall d, In d ds -> lookup (w_fs w) d <> None) ->
  exists w', mkdir_all ds o w = (Some tt, w') /\
             w_fs w' = w_fs w /\ w_tr w' = w_tr w /\ w_clock w' = w_clock w.
Proof.
  intros H. induction ds as [|d ds IH]; intros w Hex; cbn [mkdir_all].
  - exists w. unfold ret_. auto.
  - assert (Hd : lookup (w_fs w) d <> None) by (apply Hex; left; reflexivity).
    assert (Em : fs_mkdir d (w_fs w) = (Some EEXIST, w_fs w)).
    { unfold fs_mkdir. destruct (lookup (w_fs w) d); [reflexivity | congruence]. }
    unfold k_mkdir. rewrite (bind_some _ _ _ _ _ _ (sys_unit_benign o w _ _ H)).
    rewrite Em. cbn [fst snd].
    match goal with |- context [mkdir_all ds o ?ww] => set (w1 := ww) end.
    destruct (IH w1) as (w' & E & A1 & A2 & A3).
    { intros d' Hd'. apply Hex. right. exact Hd'. }
    exists w'. split; [exact E|]. auto.
Qed.

(* opening the journal of a running daemon again: the same handle, nothing changes *)
Lemma open_journal_again o w jp r i pat :
  benign o -> tr_ok (w_tr w) = true -> jp = ch_slash :: r ->
  (forall d, In d (parents_of jp) -> lookup (w_fs w) d = Some NDir) ->
  lookup (w_fs w) jp = Some (NFile i) ->
  exists w', open_journal (Some jp) pat o w = (Some (Some (mkJ i pat)), w') /\
             w_fs w' = w_fs w /\ w_tr w' = w_tr w /\ w_clock w' = w_clock w.
Proof.
  intros H Hok Hr Hp Hl. unfold open_journal, create_parents.
  destruct (mkdir_all_existing o H (parents_of jp) w) as (w1 & E1 & F1 & T1 & C1).
  { intros d Hd. rewrite (Hp d Hd). discriminate. }
  assert (Ec : when_ok tt (mkdir_all (parents_of jp)) o w = (Some tt, w1)).
  { rewrite when_ok_true by exact Hok. exact E1. }
  rewrite (bind_some _ _ _ _ _ _ Ec).
  rewrite (bind_some _ _ _ _ _ _ (is_ok_eq o w1)). rewrite T1, Hok. cbn [negb].
  unfold k_open_a, k_open_gen. rewrite (bind_some _ _ _ _ _ _ (sys_benign _ _ _ o w1 H)).
  unfold fs_open_create. rewrite F1, Hl. cbn [fst snd]. unfold ret_.
  eexists. split; [reflexivity|]. cbn [w_fs w_tr w_clock]. auto.
Qed.

(* THE RESTART.  On a disk whose queue directory refines [ents] and holds
   nothing else, load_handler (run in a fresh process on the configuration of
   the old handler) succeeds; the disk and the clock are as before; the new
   handler has the same configuration, journal handle and queue parameters,
   empty pid / interpreter tables, and its queue refines the SAME entries with
   the SAME head number and size: the next link name is the one the old handler
   would have used. *)
Theorem load_handler_restart o h w ents :
  benign o -> keys_nodup (w_fs w) -> qclean (q_dir (h_q h)) (w_fs w) ->
  QRel (h_q h) (w_fs w) ents -> restart_ok h (w_fs w) ->
  exists q' w',
    load_handler (h_cfg h) (h_cfg_path h) (h_cpl h) o (fresh w) =
      (Some (Some (mkH (h_cfg h) (h_cfg_path h) (h_cpl h) q' (h_journal h) [] [])), w') /\
    QRel q' (w_fs w') ents /\
    q_dir q' = q_dir (h_q h) /\ q_deb q' = q_deb (h_q h) /\ q_len_guess q' = q_len_guess (h_q h) /\
    q_head q' = q_head (h_q h) /\ q_size q' = q_size (h_q h) /\
    w_fs w' = w_fs w /\ w_clock w' = w_clock w /\ tr_ok (w_tr w') = true.
Proof.
  intros H Hnd Hcl HR [Rd Rdeb Rg Rj].
  set (cfg := h_cfg h) in *.
  assert (Hg : Forall (fits (q_len_guess (h_q h))) ents).
  { pose proof (QR_wf _ _ _ HR) as Hw. rewrite Forall_forall in *. intros e He. apply (Hw e He). }
  set (wa := upd_tr tr_try (fresh w)).
  assert (Hoka : tr_ok (w_tr wa) = true) by reflexivity.
  destruct (restart_loads o (h_q h) ents (q_deb (h_q h)) (q_len_guess (h_q h)) wa H Hoka eq_refl Hnd Hcl HR Hg)
    as (q' & wb & Eb & HRb & D1 & D2 & D3 & Fb & Tb & _ & Cb).
  change (w_fs wa) with (w_fs w) in Fb. change (w_clock wa) with (w_clock w) in Cb.
  rewrite Rd, Rdeb, Rg in Eb.
  unfold load_handler. fold cfg.
  rewrite (bind_some _ _ _ _ _ _ (try_eq o (fresh w))). fold wa.
  rewrite (bind_some _ _ _ _ _ _ Eb).
  rewrite (bind_some _ _ _ _ _ _ (rethrow_context_eq _ o wb)).
  rewrite (bind_some _ _ _ _ _ _ (finally_rethrow_eq _ o _)).
  set (wc := upd_tr (tr_finally_rethrow_static M_linq_cannot_load)
                    (upd_tr (tr_rethrow_context (c_queue_path cfg)) wb)).
  assert (Tc : tr_ok (w_tr wc) = true).
  { unfold wc. cbn [upd_tr w_tr]. rewrite (tr_ok_rethrow_context _ _ Tb). apply tr_ok_finally_rethrow. exact Tb. }
  assert (Fc : w_fs wc = w_fs w) by exact Fb.
  assert (Cc : w_clock wc = w_clock w) by exact Cb.
  clearbody wc.
  rewrite (bind_some _ _ _ _ _ _ (try_eq o wc)).
  set (wd := upd_tr tr_try wc).
  assert (Td : tr_ok (w_tr wd) = true) by (apply tr_try_ok; exact Tc).
  (* the journal *)
  assert (Hj : exists we,
    open_journal (c_journal_path cfg) (c_journal_pattern cfg) o wd = (Some (h_journal h), we) /\
    w_fs we = w_fs w /\ tr_ok (w_tr we) = true /\ w_clock we = w_clock w).
  { destruct (c_journal_path cfg) as [jp|] eqn:Ejp.
    - destruct Rj as (r & i & Er & Hp & Hl & Ej).
      destruct (open_journal_again o wd jp r i (c_journal_pattern cfg) H Td Er) as (we & E & A1 & A2 & A3).
      { intros d Hd. change (w_fs wd) with (w_fs wc). rewrite Fc. exact (Hp d Hd). }
      { change (w_fs wd) with (w_fs wc). rewrite Fc. exact Hl. }
      exists we. rewrite Ej. split; [exact E|]. change (w_fs wd) with (w_fs wc) in A1.
      change (w_clock wd) with (w_clock wc) in A3.
      split; [congruence|]. split; [rewrite A2; exact Td | congruence].
    - exists wd. rewrite Rj. split; [reflexivity|]. auto. }
  destruct Hj as (we & Ee & Fe & Te & Ce).
  rewrite (bind_some _ _ _ _ _ _ Ee).
  assert (Hctx : exists wf,
    (match c_journal_path cfg with Some p => rethrow_context p | None => ret_ tt end) o we = (Some tt, wf) /\
    w_fs wf = w_fs w /\ tr_ok (w_tr wf) = true /\ w_clock wf = w_clock w).
  { destruct (c_journal_path cfg) as [jp|].
    - eexists. split; [apply rethrow_context_eq|]. cbn [upd_tr w_fs w_tr w_clock].
      rewrite (tr_ok_rethrow_context _ _ Te). auto.
    - exists we. split; [reflexivity|]. auto. }
  destruct Hctx as (wf & Ef & Ff & Tf & Cf).
  rewrite (bind_some _ _ _ _ _ _ Ef).
  rewrite (bind_some _ _ _ _ _ _ (finally_rethrow_eq _ o wf)).
  set (wg := upd_tr (tr_finally_rethrow_static M_journal_cannot_open) wf).
  assert (Tg : tr_ok (w_tr wg) = true) by (apply tr_ok_finally_rethrow; exact Tf).
  rewrite (bind_some _ _ _ _ _ _ (is_ok_eq o wg)). rewrite Tg. unfold ret_.
  destruct (QRel_head_unique (h_q h) q' (w_fs wb) ents) as [Hh Hs]; [rewrite Fb; exact HR | exact HRb | exact D1 |].
  exists q', wg. split; [reflexivity|].
  split; [change (w_fs wg) with (w_fs wf); rewrite Ff, <- Fb; exact HRb|].
  split; [exact D1|]. split; [exact D2|]. split; [exact D3|]. split; [exact Hh|]. split; [exact Hs|].
  split; [exact Ff|]. split; [exact Cf | exact Tg].
Qed.
Print Assumptions load_handler_restart.

(* ====================================================================== *)
(* 3. a pass creates no name in the queue directory                        *)
(* ====================================================================== *)

Lemma step_post_qsub cfg cpl oj d hname f f' now p b :
  d <> root_path -> d <> [] ->
  Str.under d (store_name cfg cpl now p) = false ->
  step_post cfg cpl oj hname f f' now p b -> qsub d f f'.
Proof.
  intros Hnr Hne Hu SP x Hd Hr Hx.
  destruct (str_eqb_spec x hname) as [->|Hxh]; [rewrite (SP_head _ _ _ _ _ _ _ _ _ SP) in Hx; congruence|].
  destruct (dirname_inside x d Hd Hnr Hne) as [r Er].
  assert (Hux : Str.under d x = true).
  { unfold Str.under. apply prefixb_spec. exists r. rewrite Er, <- app_assoc. reflexivity. }
  rewrite <- (SP_other _ _ _ _ _ _ _ _ _ SP x); [exact Hx | | | exact Hxh].
  - intros ->. congruence.
  - intros Hin. pose proof (under_ancestor _ _ _ Hux (parents_of_prefix _ _ Hin)) as E. congruence.
Qed.

Lemma skip_rel_qsub d f f0 : skip_rel d f f0 -> qsub d f f0.
Proof.
  intros SR x _ _ Hx Hn. apply Hx. exact (SR_none _ _ _ SR x Hn).
Qed.

(* the loop of BurstProofs.dup_pass_loop, looking at the queue directory only *)
Lemma dup_pass_loop_qsub o rev : benign o -> forall es due rest fuel h w,
  tr_ok (w_tr w) = true -> keys_nodup (w_fs w) ->
  QRel (h_q h) (w_fs w) (due ++ rest) ->
  Forall (due_at (w_clock w) (q_deb (h_q h))) due ->
  not_due (w_clock w) (q_deb (h_q h)) rest ->
  map qent_of es = winners due rest ->
  all_ok (h_cfg h) (h_cpl h) (h_journal h) (q_dir (h_q h)) (w_fs w) (w_clock w) es ->
  length es < fuel -> q_dir (h_q h) <> [] ->
  qsub (q_dir (h_q h)) (w_fs w) (w_fs (snd (handle_timeout_loop fuel rev h o w))).
Proof.
  intros H. induction es as [|e es IH]; intros due rest fuel h w Hok Hnd HR Hdue Hstop Hwin Hall Hfuel Hne.
  - destruct fuel as [|fuel]; [cbn [length] in Hfuel; lia|].
    cbn [map] in Hwin. symmetry in Hwin. apply winners_nil_inv in Hwin.
    destruct (pass_stops_skip o w h rev fuel due rest H Hok Hnd HR Hdue Hwin Hstop)
      as (q' & w' & E & _ & _ & _ & F' & _).
    rewrite E. cbn [snd]. rewrite F'. apply skip_rel_qsub. apply del_heads_skip_rel. exact (QR_nroot _ _ _ HR).
  - destruct fuel as [|fuel]; [cbn [length] in Hfuel; lia|].
    cbn [map] in Hwin. symmetry in Hwin.
    destruct (winners_cons_inv rest _ _ due Hwin) as (sk & d' & -> & Hsup & Hocc & Hwin').
    change (qent_of e) with (e_path e, 0%N, e_time e) in Hsup, Hocc, HR, Hdue.
    change (qpath (e_path e, 0%N, e_time e)) with (e_path e) in Hocc.
    rewrite <- app_assoc in HR. cbn [app] in HR.
    apply Forall_app in Hdue. destruct Hdue as [Hdsk Hdue]. inversion Hdue as [|? ? Hde Hdue']; subst.
    unfold due_at in Hde. cbn [snd] in Hde.
    pose proof (QR_nroot _ _ _ HR) as Hnr.
    set (f0 := del_heads (q_dir (h_q h)) (q_head (h_q h)) (length sk) (w_fs w)).
    assert (Hall0 : all_ok (h_cfg h) (h_cpl h) (h_journal h) (q_dir (h_q h)) f0 (w_clock w) (e :: es)).
    { apply all_ok_del_heads; [exact Hnd | | exact Hall].
      apply (QRel_links _ _ _ _ HR). rewrite app_length. lia. }
    pose proof Hall0 as [Hp0 [Hind0 _]].
    destruct (plain_iteration_skip o w h rev fuel sk (e_path e) (e_time e) (d' ++ rest) (e_ino e) (e_bytes e)
                H Hok Hnd HR Hdsk Hsup Hde Hocc Hp0)
      as (q' & w1 & E1 & D1 & D2 & D3 & S1 & Hh1 & HR1 & Hnd1 & K1 & C1).
    fold f0 in S1, Hh1.
    set (h1 := set_q (popped (e_path e) q') h) in *.
    assert (Eq1 : q_dir (h_q h1) = q_dir (h_q h)) by exact D1.
    assert (Ed1 : q_deb (h_q h1) = q_deb (h_q h)) by exact D2.
    assert (Hall1 : all_ok (h_cfg h1) (h_cpl h1) (h_journal h1) (q_dir (h_q h1)) (w_fs w1) (w_clock w1) es).
    { rewrite C1, Eq1. exact (all_ok_step _ _ _ _ _ _ _ _ _ _ _ _ S1 Hh1 Hall0). }
    assert (Hdue1 : Forall (due_at (w_clock w1) (q_deb (h_q h1))) d') by (rewrite C1, Ed1; exact Hdue').
    assert (Hstop1 : not_due (w_clock w1) (q_deb (h_q h1)) rest) by (rewrite C1, Ed1; exact Hstop).
    assert (Hfuel1 : length es < fuel) by (cbn [length] in Hfuel; lia).
    assert (Hne1 : q_dir (h_q h1) <> []) by (rewrite Eq1; exact Hne).
    pose proof (IH d' rest fuel h1 w1 (tr_keep_ok _ _ K1) Hnd1 HR1 Hdue1 Hstop1 (eq_sym Hwin') Hall1 Hfuel1 Hne1) as HI.
    rewrite Eq1 in HI. rewrite E1.
    apply (qsub_trans _ _ f0); [apply skip_rel_qsub; apply del_heads_skip_rel; exact Hnr|].
    apply (qsub_trans _ _ (w_fs w1)); [|exact HI].
    exact (step_post_qsub _ _ _ _ _ _ _ _ _ _ Hnr Hne (PO_dst_q _ _ _ _ _ _ _ _ _ Hp0) S1).
Qed.

(* BurstProofs.handle_timeout_dup_pass, with the queue directory kept clean *)
Theorem dup_pass_clean o rev es due rest h w :
  benign o ->
  tr_ok (w_tr w) = true -> keys_nodup (w_fs w) -> qclean (q_dir (h_q h)) (w_fs w) ->
  QRel (h_q h) (w_fs w) (due ++ rest) ->
  Forall (due_at (w_clock w) (q_deb (h_q h))) due ->
  not_due (w_clock w) (q_deb (h_q h)) rest ->
  map qent_of es = winners due rest ->
  all_ok (h_cfg h) (h_cpl h) (h_journal h) (q_dir (h_q h)) (w_fs w) (w_clock w) es ->
  exists qf w',
    handle_timeout rev h o w =
      (Some (TPause (pause_of (w_clock w) (q_deb (h_q h)) rest), set_q qf h), w') /\
    q_dir qf = q_dir (h_q h) /\ q_deb qf = q_deb (h_q h) /\ q_len_guess qf = q_len_guess (h_q h) /\
    pass_facts (h_cfg h) (h_cpl h) (h_journal h) (q_dir (h_q h)) (w_clock w) (w_fs w) es (w_fs w') /\
    QRel qf (w_fs w') rest /\ keys_nodup (w_fs w') /\ qclean (q_dir (h_q h)) (w_fs w') /\
    tr_ok (w_tr w') = true /\ w_clock w' = w_clock w.
Proof.
  intros H Hok Hnd Hcl HR Hdue Hstop Hwin Hall.
  destruct (handle_timeout_dup_pass o rev es due rest h w H Hok Hnd HR Hdue Hstop Hwin Hall)
    as (qf & w' & E & D1 & D2 & D3 & PF & HR' & Hnd' & T' & _ & C').
  exists qf, w'. split; [exact E|]. split; [exact D1|]. split; [exact D2|]. split; [exact D3|].
  split; [exact PF|]. split; [exact HR'|]. split; [exact Hnd'|]. split; [|auto].
  apply (qclean_sub _ (w_fs w)); [exact Hcl|].
  assert (Hlen : length (winners due rest) <= length due).
  { clear. induction due as [|e due IH]; cbn [winners length]; [lia|].
    destruct (occurs _ _); cbn [length]; lia. }
  assert (Hfuel : length es < S (S (N.to_nat (q_size (h_q h))))).
  { rewrite (QR_size _ _ _ HR), Nat2N.id, app_length.
    rewrite <- (map_length qent_of es), Hwin. lia. }
  pose proof (dup_pass_loop_qsub o rev H es due rest _ h w Hok Hnd HR Hdue Hstop Hwin Hall Hfuel (proj1 Hcl)) as HQ.
  unfold handle_timeout in E.
  destruct (handle_timeout_loop (S (S (N.to_nat (q_size (h_q h))))) rev h o w) as [[r|] w1] eqn:EL.
  - rewrite (bind_some _ _ _ _ _ _ EL) in E. rewrite (bind_some _ _ _ _ _ _ (is_ok_eq o w1)) in E.
    unfold ret_ in E. cbn [snd] in HQ. assert (Ew : w1 = w') by (exact (f_equal snd E)). subst w1. exact HQ.
  - unfold bind in E. rewrite EL in E. discriminate E.
Qed.
Print Assumptions dup_pass_clean.

(* ====================================================================== *)
(* 4. histories with restarts                                              *)
(* ====================================================================== *)

Inductive rstep :=
| RWrite (pid : N) (path : str)      (* klunok handles the close-after-write event of [path] *)
| RPass (rev : bool)                 (* the timeout pass *)
| REnv (w2 : world)                  (* the environment replaces the world (files, clock) *)
| RRestart.                          (* the daemon is stopped and started again *)

(* the restart: the handler is dropped; load_handler builds a new one from the
   same configuration, in a fresh process *)
Definition restart (h : handler) (o : oracle) (w : world) : option (option handler) * world :=
  load_handler (h_cfg h) (h_cfg_path h) (h_cpl h) o (fresh w).

Fixpoint rrun (o : oracle) (s : list rstep) (h : handler) (w : world) : option handler * world :=
  match s with
  | [] => (Some h, w)
  | RWrite pid path :: s' =>
      match handle_close_write pid path None h o w with
      | (Some h1, w1) => rrun o s' h1 w1
      | (None, w1) => (None, w1)
      end
  | RPass rev :: s' =>
      match handle_timeout rev h o w with
      | (Some (_, h1), w1) => rrun o s' h1 w1
      | (None, w1) => (None, w1)
      end
  | REnv w2 :: s' => rrun o s' h w2
  | RRestart :: s' =>
      match restart h o w with
      | (Some (Some h1), w1) => rrun o s' h1 w1
      | (_, w1) => (None, w1)
      end
  end.

(* ----- the reference, on the event list alone ----- *)

(* [now]: the clock, [q]: the queue so far *)
Fixpoint ref_run (deb : Z) (s : list rstep) (now : Z) (q : list qent) : list qent :=
  match s with
  | [] => q
  | RWrite _ path :: s' => ref_run deb s' now (q ++ [(path, 0%N, now)])
  | RPass _ :: s' => ref_run deb s' now (rest_part now deb q)
  | REnv w2 :: s' => ref_run deb s' (w_clock w2) q
  | RRestart :: s' => ref_run deb s' now q
  end.

Fixpoint ref_clock (s : list rstep) (now : Z) : Z :=
  match s with
  | [] => now
  | REnv w2 :: s' => ref_clock s' (w_clock w2)
  | _ :: s' => ref_clock s' now
  end.

(* from an empty queue at clock [now0], with debounce [deb] *)
Definition ref_queue (deb now0 : Z) (s : list rstep) : list qent := ref_run deb s now0 [].

Lemma ref_run_app deb s1 : forall s2 now q,
  ref_run deb (s1 ++ s2) now q = ref_run deb s2 (ref_clock s1 now) (ref_run deb s1 now q).
Proof.
  induction s1 as [|[pid p|rev|w2|] s1 IH]; intros s2 now q; cbn [app ref_run ref_clock];
    [reflexivity | | | |]; apply IH.
Qed.

Lemma ref_clock_app s1 : forall s2 now, ref_clock (s1 ++ s2) now = ref_clock s2 (ref_clock s1 now).
Proof.
  induction s1 as [|[pid p|rev|w2|] s1 IH]; intros s2 now; cbn [app ref_clock];
    [reflexivity | | | |]; apply IH.
Qed.

Lemma rrun_app o s1 : forall s2 h w,
  rrun o (s1 ++ s2) h w =
    match rrun o s1 h w with
    | (Some h1, w1) => rrun o s2 h1 w1
    | (None, w1) => (None, w1)
    end.
Proof.
  induction s1 as [|[pid p|rev|w2|] s1 IH]; intros s2 h w; cbn [app rrun].
  - reflexivity.
  - destruct (handle_close_write pid p None h o w) as [[h1|] w1]; [apply IH | reflexivity].
  - destruct (handle_timeout rev h o w) as [[[r h1]|] w1]; [apply IH | reflexivity].
  - apply IH.
  - destruct (restart h o w) as [[[h1|]|] w1]; [apply IH | reflexivity | reflexivity].
Qed.

(* ----- the invariant and the side conditions ----- *)

(* what holds between two steps: no error is pending, the dentry keys are
   unique, the queue directory holds nothing but numbered names, and it refines
   the reference queue together with the in-memory queue *)
Record rinv (h : handler) (w : world) (q : list qent) : Prop := {
  RI_tr : tr_ok (w_tr w) = true;
  RI_nodup : keys_nodup (w_fs w);
  RI_clean : qclean (q_dir (h_q h)) (w_fs w);
  RI_rel : QRel (h_q h) (w_fs w) q
}.

(* what no step changes *)
Record rsame (h h' : handler) : Prop := {
  RS_cfg : h_cfg h' = h_cfg h;
  RS_cfg_path : h_cfg_path h' = h_cfg_path h;
  RS_cpl : h_cpl h' = h_cpl h;
  RS_journal : h_journal h' = h_journal h;
  RS_dir : q_dir (h_q h') = q_dir (h_q h);
  RS_deb : q_deb (h_q h') = q_deb (h_q h);
  RS_guess : q_len_guess (h_q h') = q_len_guess (h_q h)
}.

Lemma rsame_refl h : rsame h h.
Proof. constructor; reflexivity. Qed.
Lemma rsame_trans a b c : rsame a b -> rsame b c -> rsame a c.
Proof. intros [A1 A2 A3 A4 A5 A6 A7] [B1 B2 B3 B4 B5 B6 B7]. constructor; congruence. Qed.

(* side conditions of a pass over the reference queue [q] at the world of the
   pass: for the winners of the due part (path, time, inode and content AT THE
   PASS) the conditions of PassProofs hold on the file system of the pass *)
Definition pass_ok (h : handler) (w : world) (q : list qent) (es : list entry) : Prop :=
  let now := w_clock w in
  let deb := q_deb (h_q h) in
  map qent_of es = winners (due_part now deb q) (rest_part now deb q) /\
  all_ok (h_cfg h) (h_cpl h) (h_journal h) (q_dir (h_q h)) (w_fs w) now es.

(* side conditions of an environment step: BurstProofs.env_ok, the dentry keys
   stay unique and nothing is created in the queue directory *)
Record renv_ok (q : qmem) (w w2 : world) : Prop := {
  RE_env : env_ok q w w2;
  RE_nodup : keys_nodup (w_fs w2);
  RE_sub : qsub (q_dir q) (w_fs w) (w_fs w2)
}.

(* the side conditions hold at every step along the run; [q] is the reference
   queue at this point *)
Fixpoint rhist_ok (o : oracle) (s : list rstep) (h : handler) (w : world) (q : list qent) : Prop :=
  match s with
  | [] => True
  | RWrite pid path :: s' =>
      write_ok h (w_clock w) pid path /\
      forall h1 w1, handle_close_write pid path None h o w = (Some h1, w1) ->
                    rhist_ok o s' h1 w1 (q ++ [(path, 0%N, w_clock w)])
  | RPass rev :: s' =>
      (exists es, pass_ok h w q es) /\
      forall r h1 w1, handle_timeout rev h o w = (Some (r, h1), w1) ->
                      rhist_ok o s' h1 w1 (rest_part (w_clock w) (q_deb (h_q h)) q)
  | REnv w2 :: s' => renv_ok (h_q h) w w2 /\ rhist_ok o s' h w2 q
  | RRestart :: s' =>
      restart_ok h (w_fs w) /\
      forall h1 w1, restart h o w = (Some (Some h1), w1) -> rhist_ok o s' h1 w1 q
  end.

(* a prefix of a history whose side conditions hold *)
Lemma rhist_ok_prefix o s1 : forall s2 h w q, rhist_ok o (s1 ++ s2) h w q -> rhist_ok o s1 h w q.
Proof.
  induction s1 as [|[pid p|rev|w2|] s1 IH]; intros s2 h w q Hs; cbn [app rhist_ok] in Hs |- *.
  - exact I.
  - destruct Hs as [A B]. split; [exact A|]. intros h1 w1 E. exact (IH _ _ _ _ (B h1 w1 E)).
  - destruct Hs as [A B]. split; [exact A|]. intros r h1 w1 E. exact (IH _ _ _ _ (B r h1 w1 E)).
  - destruct Hs as [A B]. split; [exact A|]. exact (IH _ _ _ _ B).
  - destruct Hs as [A B]. split; [exact A|]. intros h1 w1 E. exact (IH _ _ _ _ (B h1 w1 E)).
Qed.

(* ----- the single steps ----- *)

Lemma write_step o h w q pid path :
  benign o -> rinv h w q -> write_ok h (w_clock w) pid path ->
  exists w1,
    handle_close_write pid path None h o w = (Some (set_q (pushed path (h_q h)) h), w1) /\
    rinv (set_q (pushed path (h_q h)) h) w1 (q ++ [(path, 0%N, w_clock w)]) /\
    w_clock w1 = w_clock w.
Proof.
  intros H [Hok Hnd Hcl HR] [Wd Wc Wj Wn Wf].
  change 0%N with (linq_meta false None) in Wf.
  destruct (accept_write_plain o w h pid path None q false H Hok HR Wd Wc Wj Wn Wf)
    as (w1 & E1 & HR1 & _ & [OJ _] & T1 & _ & C1 & ND1).
  cbv zeta in *. change (linq_meta false None) with 0%N in HR1.
  exists w1. split; [exact E1|]. split; [|exact C1].
  constructor; cbn [set_q h_q]; [exact T1 | exact (ND1 Hnd) | | exact HR1].
  change (q_dir (pushed path (h_q h))) with (q_dir (h_q h)).
  destruct Hcl as [Hne Hc]. split; [exact Hne|]. intros p Hd Hr Hp.
  destruct (str_eqb_spec p (next_name (h_q h))) as [->|Hpn].
  - eexists. reflexivity.
  - apply (Hc p Hd Hr). rewrite <- (OJ p); [exact Hp|]. intros [E|[]]. congruence.
Qed.

Lemma pass_step o rev h w q es :
  benign o -> rinv h w q -> pass_ok h w q es ->
  let now := w_clock w in
  let deb := q_deb (h_q h) in
  exists qf w1,
    handle_timeout rev h o w = (Some (TPause (pause_of now deb (rest_part now deb q)), set_q qf h), w1) /\
    rsame h (set_q qf h) /\
    rinv (set_q qf h) w1 (rest_part now deb q) /\
    pass_facts (h_cfg h) (h_cpl h) (h_journal h) (q_dir (h_q h)) now (w_fs w) es (w_fs w1) /\
    w_clock w1 = now.
Proof.
  intros H [Hok Hnd Hcl HR] [Hwin Hall]. cbv zeta.
  set (now := w_clock w) in *. set (deb := q_deb (h_q h)) in *.
  destruct (dup_pass_clean o rev es (due_part now deb q) (rest_part now deb q) h w H Hok Hnd Hcl)
    as (qf & w1 & E & D1 & D2 & D3 & PF & HR' & Hnd' & Hcl' & T' & C').
  { rewrite <- (due_rest_split now deb q). exact HR. }
  { apply due_part_due. }
  { apply rest_part_not_due. }
  { exact Hwin. }
  { exact Hall. }
  exists qf, w1. split; [exact E|].
  split; [constructor; cbn [set_q h_cfg h_cfg_path h_cpl h_journal h_q]; auto|].
  split; [|split; [exact PF | exact C']].
  constructor; cbn [set_q h_q]; [exact T' | exact Hnd' | rewrite D1; exact Hcl' | exact HR'].
Qed.

(* the same, stated for given values of what the handler and the world hold *)
Lemma pass_step_at o rev h w q es cfg cpl oj d deb now f :
  benign o -> rinv h w q ->
  h_cfg h = cfg -> h_cpl h = cpl -> h_journal h = oj -> q_dir (h_q h) = d -> q_deb (h_q h) = deb ->
  w_clock w = now -> w_fs w = f ->
  map qent_of es = winners (due_part now deb q) (rest_part now deb q) ->
  all_ok cfg cpl oj d f now es ->
  exists qf w1,
    handle_timeout rev h o w = (Some (TPause (pause_of now deb (rest_part now deb q)), set_q qf h), w1) /\
    rsame h (set_q qf h) /\
    rinv (set_q qf h) w1 (rest_part now deb q) /\
    pass_facts cfg cpl oj d now f es (w_fs w1) /\
    w_clock w1 = now.
Proof.
  intros H HI <- <- <- <- <- <- <- Hwin Hall. exact (pass_step o rev h w q es H HI (conj Hwin Hall)).
Qed.

Lemma restart_step o h w q :
  benign o -> rinv h w q -> restart_ok h (w_fs w) ->
  exists h1 w1,
    restart h o w = (Some (Some h1), w1) /\ rsame h h1 /\ rinv h1 w1 q /\
    q_head (h_q h1) = q_head (h_q h) /\ q_size (h_q h1) = q_size (h_q h) /\
    h_pids h1 = [] /\ h_interps h1 = [] /\
    w_fs w1 = w_fs w /\ w_clock w1 = w_clock w.
Proof.
  intros H [Hok Hnd Hcl HR] Hro.
  destruct (load_handler_restart o h w q H Hnd Hcl HR Hro)
    as (q' & w1 & E & HR' & D1 & D2 & D3 & D4 & D5 & F1 & C1 & T1).
  eexists. exists w1. split; [exact E|].
  split; [constructor; cbn [h_cfg h_cfg_path h_cpl h_journal h_q]; auto|].
  split; [|cbn [h_q h_pids h_interps]; auto 10].
  constructor; cbn [h_q]; [exact T1 | rewrite F1; exact Hnd | rewrite F1, D1; exact Hcl | exact HR'].
Qed.

(* ----- the invariant at every prefix ----- *)

Theorem rrun_prefix o : benign o -> forall s1 s2 h w q,
  rinv h w q -> rhist_ok o (s1 ++ s2) h w q ->
  exists h1 w1,
    rrun o s1 h w = (Some h1, w1) /\
    rinv h1 w1 (ref_run (q_deb (h_q h)) s1 (w_clock w) q) /\
    w_clock w1 = ref_clock s1 (w_clock w) /\
    rsame h h1 /\
    rhist_ok o s2 h1 w1 (ref_run (q_deb (h_q h)) s1 (w_clock w) q).
Proof.
  intros H. induction s1 as [|[pid path|rev|w2|] s1 IH]; intros s2 h w q HI Hs; cbn [app] in Hs.
  - exists h, w. cbn [rrun ref_run ref_clock]. split; [reflexivity|]. split; [exact HI|].
    split; [reflexivity|]. split; [apply rsame_refl | exact Hs].
  - destruct Hs as [Hw Hs].
    destruct (write_step o h w q pid path H HI Hw) as (w1 & E1 & HI1 & C1).
    specialize (Hs _ _ E1).
    destruct (IH s2 _ w1 _ HI1 Hs) as (h' & w' & E & HI' & C' & S' & Hs').
    cbn [set_q h_q pushed q_deb] in HI', Hs'. rewrite C1 in HI', C', Hs'.
    exists h', w'. cbn [rrun ref_run ref_clock]. rewrite E1.
    split; [exact E|]. split; [exact HI'|]. split; [exact C'|]. split; [|exact Hs'].
    refine (rsame_trans _ _ _ _ S'). constructor; reflexivity.
  - destruct Hs as [[es Hp] Hs].
    destruct (pass_step o rev h w q es H HI Hp) as (qf & w1 & E1 & S1 & HI1 & _ & C1).
    cbv zeta in *. specialize (Hs _ _ _ E1).
    destruct (IH s2 _ w1 _ HI1 Hs) as (h' & w' & E & HI' & C' & S' & Hs').
    rewrite (RS_deb _ _ S1), C1 in HI', Hs'. rewrite C1 in C'.
    exists h', w'. cbn [rrun ref_run ref_clock]. rewrite E1.
    split; [exact E|]. split; [exact HI'|]. split; [exact C'|]. split; [|exact Hs'].
    exact (rsame_trans _ _ _ S1 S').
  - destruct Hs as [[[Eq Et Ec] End Esub] Hs].
    assert (HI2 : rinv h w2 q).
    { destruct HI as [Hok Hnd Hcl HR]. constructor; [exact Et | exact End | | exact (QRel_env _ _ _ _ HR Eq)].
      exact (qclean_sub _ _ _ Hcl Esub). }
    destruct (IH s2 h w2 q HI2 Hs) as (h' & w' & E & HI' & C' & S' & Hs').
    exists h', w'. cbn [rrun ref_run ref_clock]. auto 10.
  - destruct Hs as [Hro Hs].
    destruct (restart_step o h w q H HI Hro) as (h1 & w1 & E1 & S1 & HI1 & _ & _ & _ & _ & _ & C1).
    specialize (Hs _ _ E1).
    destruct (IH s2 h1 w1 q HI1 Hs) as (h' & w' & E & HI' & C' & S' & Hs').
    rewrite (RS_deb _ _ S1), C1 in HI', Hs'. rewrite C1 in C'.
    exists h', w'. cbn [rrun ref_run ref_clock]. rewrite E1.
    split; [exact E|]. split; [exact HI'|]. split; [exact C'|]. split; [|exact Hs'].
    exact (rsame_trans _ _ _ S1 S').
Qed.
Print Assumptions rrun_prefix.

(* ====================================================================== *)
(* 5. the theorems                                                         *)
(* ====================================================================== *)

(* (1) After ANY history of accepted plain writes, passes, environment steps
   and restarts -- each under its side conditions -- the run has not failed and
   the handler it ends with (the original one, or the one the last restart
   built) refines, together with the disk, the reference queue computed from
   the event list alone.  The directory holds exactly that queue (gap_free:
   link head + i is the encoding of entry i and carries its time, i.e. the clock
   of the write that queued it -- a restart does not touch the links, so the
   times survive it); the clock is the one of the events; configuration,
   journal handle, queue directory, debounce and buffer guess are the initial
   ones. *)
Theorem restart_history_queue o s h w q0 :
  benign o -> rinv h w q0 -> rhist_ok o s h w q0 ->
  let R := ref_run (q_deb (h_q h)) s (w_clock w) q0 in
  exists h' w',
    rrun o s h w = (Some h', w') /\
    QRel (h_q h') (w_fs w') R /\
    gap_free (q_dir (h_q h)) (w_fs w') (q_head (h_q h')) R /\
    q_size (h_q h') = N.of_nat (length R) /\
    next_name (h_q h') = join (q_dir (h_q h)) (dec (q_head (h_q h') + N.of_nat (length R))) /\
    lookup (w_fs w') (next_name (h_q h')) = None /\
    rinv h' w' R /\ w_clock w' = ref_clock s (w_clock w) /\ rsame h h'.
Proof.
  intros H HI Hs. cbv zeta.
  rewrite <- (app_nil_r s) in Hs.
  destruct (rrun_prefix o H s [] h w q0 HI Hs) as (h' & w' & E & HI' & C' & S' & _).
  exists h', w'. split; [exact E|]. destruct HI' as [T' Nd' Cl' HR'].
  split; [exact HR'|].
  split; [rewrite <- (RS_dir _ _ S'); exact (qrel_gap_free _ _ _ HR' Cl')|].
  split; [exact (QR_size _ _ _ HR')|].
  split; [unfold next_name; rewrite (QR_size _ _ _ HR'), (RS_dir _ _ S'); reflexivity|].
  split; [unfold next_name; rewrite (QR_size _ _ _ HR'); exact (QRel_next_free _ _ _ HR')|].
  split; [constructor; assumption|]. auto.
Qed.
Print Assumptions restart_history_queue.

(* from an empty queue *)
Corollary restart_history_ref_queue o s h w :
  benign o -> rinv h w [] -> rhist_ok o s h w [] ->
  exists h' w',
    rrun o s h w = (Some h', w') /\
    QRel (h_q h') (w_fs w') (ref_queue (q_deb (h_q h)) (w_clock w) s) /\
    gap_free (q_dir (h_q h)) (w_fs w') (q_head (h_q h')) (ref_queue (q_deb (h_q h)) (w_clock w) s).
Proof.
  intros H HI Hs. destruct (restart_history_queue o s h w [] H HI Hs) as (h' & w' & E & HR & GF & _).
  exists h', w'. auto.
Qed.

(* "reloads to the same queue": a restart after any history.  The handler
   built by the restart refines the same reference queue as the handler it
   replaces, on the same disk; same head number and size, hence the same next
   link name; the editor pid table starts empty *)
Theorem restart_reloads_same_queue o s h w q0 :
  benign o -> rinv h w q0 -> rhist_ok o (s ++ [RRestart]) h w q0 ->
  let R := ref_run (q_deb (h_q h)) s (w_clock w) q0 in
  exists h1 w1 h2 w2,
    rrun o s h w = (Some h1, w1) /\
    rrun o (s ++ [RRestart]) h w = (Some h2, w2) /\
    ref_run (q_deb (h_q h)) (s ++ [RRestart]) (w_clock w) q0 = R /\
    QRel (h_q h1) (w_fs w1) R /\ QRel (h_q h2) (w_fs w2) R /\
    w_fs w2 = w_fs w1 /\ w_clock w2 = w_clock w1 /\
    q_head (h_q h2) = q_head (h_q h1) /\ q_size (h_q h2) = q_size (h_q h1) /\
    next_name (h_q h2) = next_name (h_q h1) /\
    rsame h1 h2 /\ h_pids h2 = [] /\ h_interps h2 = [].
Proof.
  intros H HI Hs. cbv zeta.
  destruct (rrun_prefix o H s [RRestart] h w q0 HI Hs) as (h1 & w1 & E & HI1 & C1 & S1 & Hs1).
  cbn [rhist_ok] in Hs1. destruct Hs1 as [Hro _].
  destruct (restart_step o h1 w1 _ H HI1 Hro) as (h2 & w2 & E2 & S2 & HI2 & Hh & Hz & Hp & Hi & F2 & C2).
  exists h1, w1, h2, w2. split; [exact E|].
  split; [rewrite rrun_app, E; cbn [rrun]; rewrite E2; reflexivity|].
  split; [rewrite ref_run_app; reflexivity|].
  split; [exact (RI_rel _ _ _ HI1)|]. split; [exact (RI_rel _ _ _ HI2)|].
  split; [exact F2|]. split; [exact C2|]. split; [exact Hh|]. split; [exact Hz|].
  split; [unfold next_name; rewrite Hh, Hz, (RS_dir _ _ S2); reflexivity|]. auto.
Qed.
Print Assumptions restart_reloads_same_queue.

(* (2) At EVERY prefix of the history (between any two steps) the queue
   directory holds exactly the links named head .. head + n - 1 of the reference
   queue of that prefix (n its length), link i being entry i with its time, and
   nothing else; every other numeric name is free. *)
Theorem gap_free_at_all_times o s h w q0 :
  benign o -> rinv h w q0 -> rhist_ok o s h w q0 ->
  forall s1 s2, s = s1 ++ s2 ->
  let R := ref_run (q_deb (h_q h)) s1 (w_clock w) q0 in
  exists h1 w1,
    rrun o s1 h w = (Some h1, w1) /\
    gap_free (q_dir (h_q h)) (w_fs w1) (q_head (h_q h1)) R /\
    q_size (h_q h1) = N.of_nat (length R) /\ QRel (h_q h1) (w_fs w1) R.
Proof.
  intros H HI Hs s1 s2 ->. cbv zeta.
  destruct (rrun_prefix o H s1 s2 h w q0 HI Hs) as (h1 & w1 & E & [T1 N1 Cl1 HR1] & _ & S1 & _).
  exists h1, w1. split; [exact E|].
  split; [rewrite <- (RS_dir _ _ S1); exact (qrel_gap_free _ _ _ HR1 Cl1)|].
  split; [exact (QR_size _ _ _ HR1) | exact HR1].
Qed.
Print Assumptions gap_free_at_all_times.

(* what two runs of a pass with the same pass_facts agree on: everything the
   user can see *)
Lemma pass_facts_agree cfg cpl oj qdir now f es fA fB :
  pass_facts cfg cpl oj qdir now f es fA -> pass_facts cfg cpl oj qdir now f es fB ->
  fs_next fA = fs_next fB /\
  (forall k e, nth_error es k = Some e ->
     lookup fA (store_name cfg cpl now (e_path e)) = Some (NFile (fs_next f + k)) /\
     lookup fB (store_name cfg cpl now (e_path e)) = Some (NFile (fs_next f + k)) /\
     f_bytes (get_file fA (fs_next f + k)) = e_bytes e /\
     f_bytes (get_file fB (fs_next f + k)) = e_bytes e) /\
  (forall x, lookup f x <> None -> Str.under qdir x = false -> lookup fA x = lookup fB x) /\
  (forall k, k < fs_next f -> (forall jn, oj = Some jn -> k <> j_ino jn) -> get_file fA k = get_file fB k) /\
  (forall x i, lookup f x = None ->
     (lookup fA x = Some (NFile i) \/ lookup fB x = Some (NFile i)) ->
     exists e, In e es /\ x = store_name cfg cpl now (e_path e)) /\
  (forall jn, oj = Some jn -> f_bytes (get_file fA (j_ino jn)) = f_bytes (get_file fB (j_ino jn))).
Proof.
  intros [NA XA GA VA WA JA] [NB XB GB VB WB JB].
  split; [congruence|].
  split; [intros k e Hk; destruct (VA k e Hk), (VB k e Hk); auto|].
  split; [intros x A B; rewrite (XA x A B), (XB x A B); reflexivity|].
  split; [intros k A B; rewrite (GA k A B), (GB k A B); reflexivity|].
  split; [intros x i Hx [A|B]; [exact (WA x i A Hx) | exact (WB x i B Hx)]|].
  intros jn E. rewrite (JA jn E), (JB jn E). reflexivity.
Qed.

(* (3) A restart between the acceptance of the writes and the pass changes
   nothing the user can see: after any history s1, the pass of
   s1 ++ [RRestart; RPass rev] and the pass of s1 ++ [RPass rev] both succeed,
   return the same wait, leave the same reference queue, and store the same
   versions -- pass_facts holds of both with the SAME file system before, the
   SAME winners [es] (path, time, inode, content: all_ok pins them to the file
   system [w_fs wb] the history s1 ends in) and the same clock.  Only the side
   conditions of the history WITH the restart are assumed. *)
Theorem restart_then_pass_same_as_no_restart o s1 rev h w q0 :
  benign o -> rinv h w q0 -> rhist_ok o (s1 ++ [RRestart; RPass rev]) h w q0 ->
  let deb := q_deb (h_q h) in
  let now := ref_clock s1 (w_clock w) in
  let R := ref_run deb s1 (w_clock w) q0 in
  exists hb wb es hA wA hB wB,
    rrun o s1 h w = (Some hb, wb) /\ w_clock wb = now /\
    rrun o (s1 ++ [RRestart; RPass rev]) h w = (Some hA, wA) /\
    rrun o (s1 ++ [RPass rev]) h w = (Some hB, wB) /\
    map qent_of es = winners (due_part now deb R) (rest_part now deb R) /\
    all_ok (h_cfg h) (h_cpl h) (h_journal h) (q_dir (h_q h)) (w_fs wb) now es /\
    pass_facts (h_cfg h) (h_cpl h) (h_journal h) (q_dir (h_q h)) now (w_fs wb) es (w_fs wA) /\
    pass_facts (h_cfg h) (h_cpl h) (h_journal h) (q_dir (h_q h)) now (w_fs wb) es (w_fs wB) /\
    ref_run deb (s1 ++ [RRestart; RPass rev]) (w_clock w) q0 = rest_part now deb R /\
    ref_run deb (s1 ++ [RPass rev]) (w_clock w) q0 = rest_part now deb R /\
    rinv hA wA (rest_part now deb R) /\ rinv hB wB (rest_part now deb R) /\
    rsame h hA /\ rsame h hB /\ w_clock wA = now /\ w_clock wB = now.
Proof.
  intros H HI Hs. cbv zeta.
  destruct (rrun_prefix o H s1 [RRestart; RPass rev] h w q0 HI Hs) as (hb & wb & E & HIb & Cb & Sb & Hsb).
  set (deb := q_deb (h_q h)) in *. set (R := ref_run deb s1 (w_clock w) q0) in *.
  cbn [rhist_ok] in Hsb. destruct Hsb as [Hro Hsb].
  destruct (restart_step o hb wb R H HIb Hro) as (h1 & w1 & E1 & S1 & HI1 & _ & _ & _ & _ & F1 & C1).
  destruct (Hsb _ _ E1) as [[es Hp] _].
  pose proof (rsame_trans _ _ _ Sb S1) as S1'.
  destruct Hp as [Hwin Hall]. cbv zeta in Hwin, Hall.
  rewrite (RS_deb _ _ S1'), C1, Cb in Hwin. fold deb in Hwin.
  rewrite (RS_cfg _ _ S1'), (RS_cpl _ _ S1'), (RS_journal _ _ S1'), (RS_dir _ _ S1'), C1, Cb, F1 in Hall.
  destruct (pass_step_at o rev h1 w1 R es _ _ _ _ _ _ _ H HI1 (RS_cfg _ _ S1') (RS_cpl _ _ S1')
              (RS_journal _ _ S1') (RS_dir _ _ S1') (RS_deb _ _ S1') (eq_trans C1 Cb) F1 Hwin Hall)
    as (qA & wA & EA & SA & HIA & PFA & CA).
  destruct (pass_step_at o rev hb wb R es _ _ _ _ _ _ _ H HIb (RS_cfg _ _ Sb) (RS_cpl _ _ Sb)
              (RS_journal _ _ Sb) (RS_dir _ _ Sb) (RS_deb _ _ Sb) Cb eq_refl Hwin Hall)
    as (qB & wB & EB & SB & HIB & PFB & CB).
  fold deb in EA, HIA, EB, HIB.
  exists hb, wb, es, (set_q qA h1), wA, (set_q qB hb), wB.
  split; [exact E|]. split; [exact Cb|].
  split; [rewrite rrun_app, E; cbn [rrun]; rewrite E1, EA; reflexivity|].
  split; [rewrite rrun_app, E; cbn [rrun]; rewrite EB; reflexivity|].
  split; [exact Hwin|]. split; [exact Hall|]. split; [exact PFA|]. split; [exact PFB|].
  split; [rewrite ref_run_app; reflexivity|]. split; [rewrite ref_run_app; reflexivity|].
  split; [exact HIA|]. split; [exact HIB|].
  split; [exact (rsame_trans _ _ _ S1' SA)|].
  split; [exact (rsame_trans _ _ _ Sb SB)|]. auto.
Qed.
Print Assumptions restart_then_pass_same_as_no_restart.

(* ====================================================================== *)
(* 6. a concrete history with two restarts                                 *)
(* ====================================================================== *)

(* The configuration, handler and world of AcceptProofs.AcceptExample (queue
   /q, journal /j, debounce 5 s, clock 100 s; pid 7 is an editor).  Two files:
   a = /h/x/i (inode 2, "one") and b = /h/a (inode 4, "a").  History:
       100 s  write a (pid 9)                 queue  a@100               links 0
       100 s  write b (pid 7, the editor)            a@100 b@100               0 1
              RESTART                                a@100 b@100               0 1
       101 s  the environment rewrites a: "two!!"
       101 s  write a (pid 9)                        a@100 b@100 a@101         0 1 2
       110 s  the clock moves past every debounce
              RESTART                                a@100 b@100 a@101         0 1 2
       110 s  pass                                   (empty)
   The pass removes a@100 without storing anything, stores b ("a", inode 6)
   and then a (its final content "two!!", inode 7).  Every transfer is cut into
   pieces of at most 2 bytes. *)
Module RestartExample.
  Import AcceptExample. Import BurstPassExample.
  Local Open Scope char_scope.

  (* the handler a restart builds from H2: same queue, EMPTY pid table *)
  Definition Hr1 : handler := mkH cfgA (Some p_c) 3 (pushed pb (pushed pa q0)) (Some jA) [] [].
  Definition Wr1 : world := snd (restart H2 o2 W2).
  Definition Ev1 : world := env 101 Wr1.
  Definition Hw3 : handler := set_q (pushed pa (h_q Hr1)) Hr1.
  Definition Ww3 : world := snd (handle_close_write 9 pa None Hr1 o2 Ev1).
  Definition Ev2 : world := tick 110 Ww3.
  Definition Wr2 : world := snd (restart Hw3 o2 Ev2).
  Definition Hend : handler := set_q q0 Hr1.

  Definition rhist : list rstep :=
    [RWrite 9 pa; RWrite 7 pb; RRestart; REnv Ev1; RWrite 9 pa; REnv Ev2; RRestart; RPass false].

  Definition qa100 : qent := (pa, 0%N, 100%Z).
  Definition qb100 : qent := (pb, 0%N, 100%Z).
  Definition qa101 : qent := (pa, 0%N, 101%Z).

  (* ----- the reference queue after each step, from the event list alone ----- *)
  Example ref_after_each_step :
    map (fun k => ref_queue 5 100 (firstn k rhist)) [0; 1; 2; 3; 4; 5; 6; 7; 8] =
      [ []; [qa100]; [qa100; qb100]; [qa100; qb100]; [qa100; qb100];
        [qa100; qb100; qa101]; [qa100; qb100; qa101]; [qa100; qb100; qa101]; [] ].
  Proof. vm_compute. reflexivity. Qed.

  (* ----- direct evaluation: handler and queue directory after each step ----- *)
  Definition after (k : nat) : option handler * world := rrun o2 (firstn k rhist) h0 w0.
  Definition links (w : world) : list (option node) := map (lookup (w_fs w)) [n0; n1; n2; ["/"; "q"; "/"; "3"]].

  Example run_each_step :
    fst (after 1) = Some H1 /\ links (snd (after 1)) = [Some (NLink pa 100%Z); None; None; None] /\
    fst (after 2) = Some H2 /\
      links (snd (after 2)) = [Some (NLink pa 100%Z); Some (NLink pb 100%Z); None; None] /\
    (* the restart: the same queue, the same links with their times, no editor pid *)
    fst (after 3) = Some Hr1 /\ h_q Hr1 = h_q H2 /\ h_pids Hr1 = [] /\
      w_fs (snd (after 3)) = w_fs (snd (after 2)) /\
    fst (after 5) = Some Hw3 /\ q_head (h_q Hw3) = 0%N /\ q_size (h_q Hw3) = 3%N /\
      links (snd (after 5)) = [Some (NLink pa 100%Z); Some (NLink pb 100%Z); Some (NLink pa 101%Z); None] /\
    (* the second restart, 9 s later: the times of the links are the times of the writes *)
    fst (after 7) = Some Hw3 /\ w_clock (snd (after 7)) = 110%Z /\
      links (snd (after 7)) = [Some (NLink pa 100%Z); Some (NLink pb 100%Z); Some (NLink pa 101%Z); None] /\
    (* the pass *)
    fst (after 8) = Some Hend /\ links (snd (after 8)) = [None; None; None; None].
  Proof. vm_compute. repeat split; reflexivity. Qed.

  Example run_versions :
    match rrun o2 rhist h0 w0 with
    | (Some h', w') =>
        h' = Hend /\
        lookup (w_fs w') vb = Some (NFile 6) /\ get_file (w_fs w') 6 = mkFile ["a"] true /\
        lookup (w_fs w') va = Some (NFile 7) /\ get_file (w_fs w') 7 = mkFile two true /\
        fs_next (w_fs w') = 8 /\
        f_bytes (get_file (w_fs w') 1) =
          old ++ journal_line ["1"; "0"; "0"] ["W"] 9 pa
              ++ journal_line ["1"; "0"; "0"] ["W"] 7 pb
              ++ journal_line ["1"; "0"; "1"] ["W"] 9 pa
              ++ journal_line ["1"; "1"; "0"] stored 0 ["a"]
              ++ journal_line ["1"; "1"; "0"] stored 0 ["x"; "/"; "i"] /\
        tr_ok (w_tr w') = true
    | _ => False
    end.
  Proof. vm_compute. repeat split; reflexivity. Qed.

  (* the same history WITHOUT the restarts stores the same two versions *)
  Definition nhist : list rstep :=
    [RWrite 9 pa; RWrite 7 pb; REnv (env 101 W2); RWrite 9 pa;
     REnv (tick 110 (snd (handle_close_write 9 pa None H2 o2 (env 101 W2)))); RPass false].

  Example run_without_restart :
    match rrun o2 nhist h0 w0, rrun o2 rhist h0 w0 with
    | (Some h', w'), (Some h'', w'') =>
        h' = h0 /\ h'' = Hend /\
        fs_dents (w_fs w') = fs_dents (w_fs w'') /\ fs_files (w_fs w') = fs_files (w_fs w'') /\
        fs_next (w_fs w') = fs_next (w_fs w'')
    | _, _ => False
    end.
  Proof. vm_compute. repeat split; reflexivity. Qed.

  (* OBSERVATION: the editor pid table lives in memory only (handler.c creates an
     empty bitmap in load_handler).  Before the restart a write of b by pid 7
     qualifies (no rule matches b, pid 7 is an editor); after it the same write
     by the same, still running, process does not: nothing is queued, until the
     editor is exec'd again.  This is why the writes after a restart carry
     their own write_ok at the handler of that step. *)
  Example editor_forgotten_by_restart :
    push_decision rulesA 3 (pid_mem 7 (h_pids H2)) pb = (true, false, None) /\
    push_decision rulesA 3 (pid_mem 7 (h_pids Hr1)) pb = (false, false, None) /\
    match handle_close_write 7 pb None Hr1 o2 Wr1 with
    | (Some h', w') => h' = Hr1 /\ lookup (w_fs w') n2 = None /\ tr_ok (w_tr w') = true
    | _ => False
    end.
  Proof. vm_compute. repeat split; reflexivity. Qed.

  (* ----- the same by the theorems ----- *)

  Lemma write_ok_check (h : handler) now pid p :
    h_cfg h = cfgA -> h_cpl h = 3 -> h_cfg_path h = Some p_c ->
    h_journal h = Some jA -> q_len_guess (h_q h) = 16 ->
    push_decision rulesA 3 (pid_mem pid (h_pids h)) p = (true, false, None) ->
    p <> p_c -> Nat.leb (length (ts_of jA now)) 255 = true -> normalb p = true ->
    Nat.leb (length (encode 0 p)) 16 = true ->
    write_ok h now pid p.
  Proof.
    intros Ec El Ecp Ej Eg Hd Hne Hts Hn Hf. constructor.
    - rewrite Ec, El. exact Hd.
    - rewrite Ecp. intros X. injection X as X. congruence.
    - apply jfits_at; assumption.
    - apply normalb_spec. exact Hn.
    - rewrite Eg. apply fits16. exact Hf.
  Qed.

  Ltac rwok := apply write_ok_check;
    [reflexivity | reflexivity | reflexivity | reflexivity | reflexivity
    | vm_compute; reflexivity
    | (let E := fresh in intros E; vm_compute in E; discriminate E)
    | vm_compute; reflexivity | vm_compute; reflexivity | vm_compute; reflexivity].

  Lemma pair_some2_inv (a b : handler) (u v : world) :
    (Some (Some a), u) = (Some (Some b), v) -> b = a /\ v = u.
  Proof.
    intros E. split; [|exact (eq_sym (f_equal snd E))].
    exact (eq_sym (f_equal (fun x => match fst x with Some (Some y) => y | _ => a end) E)).
  Qed.

  Lemma restart_ok_check (h : handler) f :
    h_cfg h = cfgA ->
    q_dir (h_q h) = p_q -> q_deb (h_q h) = 5%Z -> q_len_guess (h_q h) = 16 ->
    lookup f p_j = Some (NFile 1) -> h_journal h = Some jA -> restart_ok h f.
  Proof.
    intros Ec Ed Eb Eg Hl Ej. constructor; rewrite Ec.
    - exact Ed.
    - exact Eb.
    - exact Eg.
    - change (c_journal_path cfgA) with (Some p_j). exists ["j"], 1.
      split; [reflexivity|]. split; [|split; [exact Hl | exact Ej]].
      intros d Hd. vm_compute in Hd. destruct Hd.
  Qed.

  Ltac rok := apply restart_ok_check;
    [reflexivity | reflexivity | reflexivity | reflexivity
    | vm_compute; reflexivity | reflexivity].

  Ltac nodup_by_compute := unfold keys_nodup; apply CrashProofs.nodupb_ok; vm_compute; reflexivity.

  Lemma qsub_same_lookup d f f' : (forall x, lookup f' x = lookup f x) -> qsub d f f'.
  Proof. intros E x _ _ H. rewrite <- E. exact H. Qed.

  Lemma tick_fs t w : w_fs (tick t w) = w_fs w.
  Proof. reflexivity. Qed.

  Lemma fs0_clean : qclean p_q fs0.
  Proof.
    split; [discriminate|]. intros p Hd Hr Hl. exfalso.
    assert (Hin : In p (map fst (fs_dents fs0))).
    { destruct (str_in_dec p (map fst (fs_dents fs0))) as [H|H]; [exact H|].
      exfalso. apply Hl. rewrite (lookup_nonroot _ _ Hr). apply notin_alookup_none. exact H. }
    cbn in Hin.
    repeat (destruct Hin as [Hin|Hin]; [subst p; vm_compute in Hd; discriminate Hd|]). exact Hin.
  Qed.

  Lemma inv0 : rinv h0 w0 [].
  Proof. constructor; [reflexivity | exact w0_nodup | exact fs0_clean | exact q0_rel]. Qed.

  (* the winners of the pass, with what the file system OF THE PASS holds *)
  Definition res : list entry := [mkE pb 100 4 ["a"]; mkE pa 101 2 two].

  Lemma rhist_is_ok : rhist_ok o2 rhist h0 w0 [].
  Proof.
    unfold rhist. cbn [rhist_ok app].
    split; [rwok|]. intros h1 w1 X1.
    assert (Y1 : handle_close_write 9 pa None h0 o2 w0 = (Some H1, W1)) by (vm_compute; reflexivity).
    rewrite Y1 in X1. apply pair_some_inv in X1. destruct X1 as [-> ->].
    split; [rwok|]. intros h2 w2 X2.
    assert (Y2 : handle_close_write 7 pb None H1 o2 W1 = (Some H2, W2)) by (vm_compute; reflexivity).
    rewrite Y2 in X2. apply pair_some_inv in X2. destruct X2 as [-> ->].
    split; [rok|]. intros h3 w3 X3.
    assert (Y3 : restart H2 o2 W2 = (Some (Some Hr1), Wr1)) by (vm_compute; reflexivity).
    rewrite Y3 in X3. apply pair_some2_inv in X3. destruct X3 as [-> ->].
    split.
    { constructor.
      - constructor; [split; intros; apply lookup_set_file | vm_compute; reflexivity | vm_compute; discriminate].
      - nodup_by_compute.
      - apply qsub_same_lookup. intros x. apply lookup_set_file. }
    split; [rwok|]. intros h4 w4 X4.
    assert (Y4 : handle_close_write 9 pa None Hr1 o2 Ev1 = (Some Hw3, Ww3)) by (vm_compute; reflexivity).
    rewrite Y4 in X4. apply pair_some_inv in X4. destruct X4 as [-> ->].
    split.
    { constructor.
      - constructor; [split; reflexivity | vm_compute; reflexivity | vm_compute; discriminate].
      - nodup_by_compute.
      - unfold Ev2. rewrite tick_fs. apply qsub_refl. }
    split; [rok|]. intros h5 w5 X5.
    assert (Y5 : restart Hw3 o2 Ev2 = (Some (Some Hw3), Wr2)) by (vm_compute; reflexivity).
    rewrite Y5 in X5. apply pair_some2_inv in X5. destruct X5 as [-> ->].
    split; [|intros; exact I].
    exists res. unfold pass_ok. cbv zeta.
    assert (Ec : w_clock Wr2 = 110%Z) by (vm_compute; reflexivity). rewrite Ec.
    split; [vm_compute; reflexivity|].
    change (h_cfg Hw3) with cfgA. change (h_cpl Hw3) with 3. change (h_journal Hw3) with (Some jA).
    change (q_dir (h_q Hw3)) with p_q.
    unfold res. cbn [all_ok e_path e_ino e_bytes].
    split; [apply plain_okb_sound; vm_compute; reflexivity|].
    split; [constructor; [exact indep_ba | constructor]|].
    split; [apply plain_okb_sound; vm_compute; reflexivity|].
    split; [constructor | exact I].
  Qed.

  (* every hypothesis of the theorems holds of this history *)
  Example hyps_hold : benign o2 /\ rinv h0 w0 [] /\ rhist_ok o2 rhist h0 w0 [].
  Proof. split; [exact o2_benign|]. split; [exact inv0 | exact rhist_is_ok]. Qed.

  Lemma ref6 : ref_run (q_deb (h_q h0)) (firstn 6 rhist) (w_clock w0) [] = [qa100; qb100; qa101].
  Proof. vm_compute. reflexivity. Qed.
  Lemma ref7 : ref_run (q_deb (h_q h0)) (firstn 7 rhist) (w_clock w0) [] = [qa100; qb100; qa101].
  Proof. vm_compute. reflexivity. Qed.

  (* (1)+(2) just after the second restart (the first 7 steps): the queue is
     a@100 b@100 a@101, the directory holds exactly the links 0 1 2, with the
     times of the writes although the clock shows 110 s *)
  Example queue_by_theorem :
    exists h7 w7,
      rrun o2 (firstn 7 rhist) h0 w0 = (Some h7, w7) /\
      QRel (h_q h7) (w_fs w7) [qa100; qb100; qa101] /\
      q_head (h_q h7) = 0%N /\ q_size (h_q h7) = 3%N /\
      lookup (w_fs w7) n0 = Some (NLink pa 100%Z) /\
      lookup (w_fs w7) n1 = Some (NLink pb 100%Z) /\
      lookup (w_fs w7) n2 = Some (NLink pa 101%Z) /\
      (forall x, dirname x = p_q -> x <> root_path -> lookup (w_fs w7) x <> None ->
                 x = n0 \/ x = n1 \/ x = n2) /\
      w_clock w7 = 110%Z.
  Proof.
    destruct hyps_hold as (A1 & A2 & A3).
    destruct (gap_free_at_all_times o2 rhist h0 w0 [] A1 A2 A3 (firstn 7 rhist) (skipn 7 rhist) eq_refl)
      as (h7 & w7 & E & GF & Hz & HR).
    cbv zeta in *. rewrite ref7 in GF, Hz, HR.
    assert (Y : rrun o2 (firstn 7 rhist) h0 w0 = (Some Hw3, Wr2)) by (vm_compute; reflexivity).
    rewrite Y in E. apply pair_some_inv in E. destruct E as [-> ->].
    exists Hw3, Wr2. split; [exact Y|]. split; [exact HR|]. split; [reflexivity|]. split; [reflexivity|].
    destruct GF as [GL GO _ _]. change (q_dir (h_q h0)) with p_q in GL, GO.
    change (q_head (h_q Hw3)) with 0%N in GL, GO.
    split; [exact (GL 0 _ _ _ eq_refl)|]. split; [exact (GL 1 _ _ _ eq_refl)|].
    split; [exact (GL 2 _ _ _ eq_refl)|].
    split; [|vm_compute; reflexivity].
    intros x Hd Hr Hx. destruct (GO x Hd Hr Hx) as (i & Hi & ->). cbn [length] in Hi.
    destruct i as [|[|[|i]]]; [left | right; left | right; right | lia]; reflexivity.
  Qed.

  (* "reloads to the same queue": the second restart *)
  Example reload_by_theorem :
    exists h1 w1 h2 w2,
      rrun o2 (firstn 6 rhist) h0 w0 = (Some h1, w1) /\
      rrun o2 (firstn 7 rhist) h0 w0 = (Some h2, w2) /\
      QRel (h_q h1) (w_fs w1) [qa100; qb100; qa101] /\ QRel (h_q h2) (w_fs w2) [qa100; qb100; qa101] /\
      w_fs w2 = w_fs w1 /\ q_head (h_q h2) = q_head (h_q h1) /\ next_name (h_q h2) = next_name (h_q h1).
  Proof.
    destruct hyps_hold as (A1 & A2 & A3).
    assert (A3' : rhist_ok o2 (firstn 6 rhist ++ [RRestart]) h0 w0 []).
    { apply (rhist_ok_prefix o2 (firstn 6 rhist ++ [RRestart]) (skipn 7 rhist)). exact A3. }
    destruct (restart_reloads_same_queue o2 (firstn 6 rhist) h0 w0 [] A1 A2 A3')
      as (h1 & w1 & h2 & w2 & E1 & E2 & _ & R1 & R2 & F & _ & Hh & _ & Hn & _).
    cbv zeta in *. rewrite ref6 in R1, R2.
    exists h1, w1, h2, w2. auto 10.
  Qed.

  (* (3) the pass after the second restart stores what the pass without that
     restart stores: b ("a", inode 6), then a ("two!!", inode 7) *)
  Example same_as_no_restart_by_theorem :
    exists wb hA wA hB wB,
      rrun o2 rhist h0 w0 = (Some hA, wA) /\
      rrun o2 (firstn 6 rhist ++ [RPass false]) h0 w0 = (Some hB, wB) /\
      pass_facts cfgA 3 (Some jA) p_q 110 (w_fs wb) res (w_fs wA) /\
      pass_facts cfgA 3 (Some jA) p_q 110 (w_fs wb) res (w_fs wB) /\
      lookup (w_fs wA) vb = Some (NFile 6) /\ lookup (w_fs wB) vb = Some (NFile 6) /\
      f_bytes (get_file (w_fs wA) 6) = ["a"] /\ f_bytes (get_file (w_fs wB) 6) = ["a"] /\
      lookup (w_fs wA) va = Some (NFile 7) /\ lookup (w_fs wB) va = Some (NFile 7) /\
      f_bytes (get_file (w_fs wA) 7) = two /\ f_bytes (get_file (w_fs wB) 7) = two /\
      QRel (h_q hA) (w_fs wA) [] /\ QRel (h_q hB) (w_fs wB) [].
  Proof.
    destruct hyps_hold as (A1 & A2 & A3).
    change rhist with (firstn 6 rhist ++ [RRestart; RPass false]) in A3.
    destruct (restart_then_pass_same_as_no_restart o2 (firstn 6 rhist) false h0 w0 [] A1 A2 A3)
      as (hb & wb & es & hA & wA & hB & wB & Eb & Cb & EA & EB & Hwin & Hall & PFA & PFB & _ & _ & IA & IB & _).
    cbv zeta in *.
    assert (Ek : ref_clock (firstn 6 rhist) (w_clock w0) = 110%Z) by (vm_compute; reflexivity).
    rewrite ref6, Ek in *. change (q_deb (h_q h0)) with 5%Z in *.
    change (h_cfg h0) with cfgA in *. change (h_cpl h0) with 3 in *. change (h_journal h0) with (Some jA) in *.
    change (q_dir (h_q h0)) with p_q in *.
    assert (Yb : rrun o2 (firstn 6 rhist) h0 w0 = (Some Hw3, Ev2)) by (vm_compute; reflexivity).
    rewrite Yb in Eb. apply pair_some_inv in Eb. destruct Eb as [-> ->].
    assert (Ees : es = res).
    { (* the winners are determined by the queue and by the file system of the pass *)
      assert (Ew : winners (due_part 110 5 [qa100; qb100; qa101]) (rest_part 110 5 [qa100; qb100; qa101])
                   = [qb100; qa101]) by (vm_compute; reflexivity).
      rewrite Ew in Hwin.
      destruct es as [|[p1 t1 i1 b1] [|[p2 t2 i2 b2] [|e3 es]]]; try discriminate Hwin.
      cbn [map] in Hwin. unfold qent_of in Hwin. cbn [e_path e_time] in Hwin.
      injection Hwin as -> -> -> ->.
      cbn [all_ok e_path e_ino e_bytes] in Hall. destruct Hall as (P1 & _ & P2 & _).
      pose proof (PO_src _ _ _ _ _ _ _ _ _ P1) as S1. pose proof (PO_file _ _ _ _ _ _ _ _ _ P1) as F1.
      pose proof (PO_src _ _ _ _ _ _ _ _ _ P2) as S2. pose proof (PO_file _ _ _ _ _ _ _ _ _ P2) as F2.
      assert (L1 : lookup (w_fs Ev2) pb = Some (NFile 4)) by (vm_compute; reflexivity).
      assert (L2 : lookup (w_fs Ev2) pa = Some (NFile 2)) by (vm_compute; reflexivity).
      rewrite L1 in S1. rewrite L2 in S2. injection S1 as <-. injection S2 as <-.
      assert (G1 : get_file (w_fs Ev2) 4 = mkFile ["a"] true) by (vm_compute; reflexivity).
      assert (G2 : get_file (w_fs Ev2) 2 = mkFile two true) by (vm_compute; reflexivity).
      rewrite G1 in F1. rewrite G2 in F2. injection F1 as <-. injection F2 as <-. reflexivity. }
    subst es.
    exists Ev2, hA, wA, hB, wB. split; [exact EA|]. split; [exact EB|]. split; [exact PFA|]. split; [exact PFB|].
    destruct (pass_facts_agree _ _ _ _ _ _ _ _ _ PFA PFB) as (_ & V & _).
    assert (Nx : fs_next (w_fs Ev2) = 6) by (vm_compute; reflexivity).
    assert (Nb : store_name cfgA 3 110 pb = vb) by (vm_compute; reflexivity).
    assert (Na : store_name cfgA 3 110 pa = va) by (vm_compute; reflexivity).
    destruct (V 0 _ eq_refl) as (V1 & V2 & V3 & V4). destruct (V 1 _ eq_refl) as (V5 & V6 & V7 & V8).
    rewrite Nx in *. cbn [e_path e_bytes] in *. rewrite Nb in V1, V2. rewrite Na in V5, V6.
    repeat (split; [assumption|]). split; [exact (RI_rel _ _ _ IA) | exact (RI_rel _ _ _ IB)].
  Qed.
End RestartExample.
Print Assumptions RestartExample.ref_after_each_step.
Print Assumptions RestartExample.run_each_step.
Print Assumptions RestartExample.run_versions.
Print Assumptions RestartExample.run_without_restart.
Print Assumptions RestartExample.hyps_hold.
Print Assumptions RestartExample.queue_by_theorem.
Print Assumptions RestartExample.reload_by_theorem.
Print Assumptions RestartExample.same_as_no_restart_by_theorem.
Print Assumptions qrel_gap_free.
Print Assumptions QRel_head_unique.
Print Assumptions pass_facts_agree.
Print Assumptions restart_history_ref_queue.

