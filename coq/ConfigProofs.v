(* Generic facts about the configuration interpreter, and the facts about the
   generated table that are re-checked on every run. *)
From K Require Import Config ConfigInst.
From K.generated Require Import ConfigTable.
From Coq Require Import Lia.

Lemma glookup_gset_eq n v e : glookup n (gset n v e) = v.
Proof.
  induction e as [|[k x] e IH]; simpl.
  - rewrite str_eqb_refl. reflexivity.
  - destruct (str_eqb n k) eqn:E; simpl; rewrite ?E, ?str_eqb_refl; auto.
Qed.

Lemma glookup_gset_neq n m v e : n <> m -> glookup n (gset m v e) = glookup n e.
Proof.
  intros H. induction e as [|[k x] e IH]; simpl.
  - destruct (str_eqb_spec n m); [contradiction | reflexivity].
  - destruct (str_eqb_spec m k) as [->|Hm]; simpl.
    + destruct (str_eqb_spec n k); [contradiction | reflexivity].
    + destruct (str_eqb n k); [reflexivity | assumption].
Qed.

(* one declaration: an unset setting takes its default, a set one is used
   verbatim when well-typed, and an ill-typed one makes loading fail *)
Lemma declare_unset e d dv : glookup (d_name d) e = VNil -> eval e (d_default d) = Some dv -> dv <> VNil ->
  declare e d = Some (gset (d_name d) dv e).
Proof. intros H1 H2 H3. unfold declare. rewrite H2, H1. destruct dv; congruence. Qed.

Lemma declare_set_ok e d v dv : glookup (d_name d) e = v -> v <> VNil -> eval e (d_default d) = Some dv ->
  check (d_type d) v = true -> declare e d = Some e.
Proof. intros H1 H2 H3 H4. unfold declare. rewrite H3, H1. destruct v; try congruence; rewrite H4; destruct dv; reflexivity. Qed.

Lemma declare_set_bad e d v dv : glookup (d_name d) e = v -> v <> VNil -> eval e (d_default d) = Some dv ->
  check (d_type d) v = false -> declare e d = None.
Proof. intros H1 H2 H3 H4. unfold declare. rewrite H3, H1. destruct v; try congruence; rewrite H4; destruct dv; reflexivity. Qed.

Lemma declare_keeps_others e d e' n : declare e d = Some e' -> n <> d_name d -> glookup n e' = glookup n e.
Proof.
  unfold declare. intros H Hn. destruct (eval e (d_default d)) as [dv|]; [|discriminate].
  destruct (glookup (d_name d) e) eqn:E; destruct dv;
    try (destruct (check (d_type d) _); inversion H; subst; reflexivity);
    inversion H; subst; try reflexivity; apply glookup_gset_neq; assumption.
Qed.

(* after a successful load every declared setting is well-typed *)
Lemma declare_types e d e' : declare e d = Some e' -> check (d_type d) (glookup (d_name d) e') = true \/
  (exists dv, eval e (d_default d) = Some dv /\ dv <> VNil /\ glookup (d_name d) e = VNil /\ glookup (d_name d) e' = dv).
Proof.
  unfold declare. intros H. destruct (eval e (d_default d)) as [dv|] eqn:Ev; [|discriminate].
  destruct (glookup (d_name d) e) eqn:E.
  - destruct dv.
    + destruct (check (d_type d) VNil) eqn:Ec; inversion H; subst. left. rewrite E. assumption.
    + right. inversion H; subst. eexists. repeat split; try reflexivity; [discriminate | apply glookup_gset_eq].
    + right. inversion H; subst. eexists. repeat split; try reflexivity; [discriminate | apply glookup_gset_eq].
    + right. inversion H; subst. eexists. repeat split; try reflexivity; [discriminate | apply glookup_gset_eq].
    + right. inversion H; subst. eexists. repeat split; try reflexivity; [discriminate | apply glookup_gset_eq].
    + right. inversion H; subst. eexists. repeat split; try reflexivity; [discriminate | apply glookup_gset_eq].
  - destruct (check (d_type d) (VStr v)) eqn:Ec; [|destruct dv; discriminate]. left. assert (e' = e) by (destruct dv; congruence). subst. rewrite E. assumption.
  - destruct (check (d_type d) (VInt z)) eqn:Ec; [|destruct dv; discriminate]. left. assert (e' = e) by (destruct dv; congruence). subst. rewrite E. assumption.
  - destruct (check (d_type d) VFloat) eqn:Ec; [|destruct dv; discriminate]. left. assert (e' = e) by (destruct dv; congruence). subst. rewrite E. assumption.
  - destruct (check (d_type d) (VBool b)) eqn:Ec; [|destruct dv; discriminate]. left. assert (e' = e) by (destruct dv; congruence). subst. rewrite E. assumption.
  - destruct (check (d_type d) (VTab ents)) eqn:Ec; [|destruct dv; discriminate]. left. assert (e' = e) by (destruct dv; congruence). subst. rewrite E. assumption.
Qed.

(* ---------- facts about the generated table (re-checked against the source on every run) ---------- *)

(* each default only mentions settings declared earlier *)
Fixpoint dvars (d : dexpr) : list str :=
  match d with
  | DVar n => [n]
  | DConcat a b | DMul a b => dvars a ++ dvars b
  | _ => []
  end.

Fixpoint well_scoped (seen : list str) (ds : list decl) : bool :=
  match ds with
  | [] => true
  | d :: r => forallb (fun n => existsb (str_eqb n) seen) (dvars (d_default d)) && well_scoped (d_name d :: seen) r
  end.

Lemma table_well_scoped : well_scoped [] decls = true.
Proof. vm_compute. reflexivity. Qed.

Definition documented_defaults : full_config :=
  mkFC (map s ["atom"; "code"; "codium"; "gedit"; "howl"; "hx"; "inkscape"; "kak"; "kate"; "kwrite"; "micro"; "nano"; "nvim";
               "pluma"; "rsession"; "sublime_text"; "vi"; "vim"; "xed"; "gnome-text-editor"; "notepadqq-bin"; "soffice.bin";
               "vim.basic"; "vim.tiny"; ".gedit-wrapped"; ".gnome-text-editor-wrapped"; ".howl-wrapped"; ".hx-wrapped";
               ".inkscape-wrapped"; ".kate-wrapped"; ".kwrite-wrapped"; ".pluma-wrapped"; ".xed-wrapped"]%string)
       [] [] [] [] [] []
       (Some (s "klunok/store")) (Some (s "klunok/projects")) (Some (s "klunok/var/projects"))
       (Some (s "klunok/var/queue")) (Some (s "klunok/var/journal")) (Some (s "%Y-%m-%d-%H-%M"))
       (Some (s "v%Y-%m-%d-%H-%M")) (Some (s "klunok/var/offsets"))
       60 1024 32768 1 120
       [None; None; None; None; None; None; Some []].

Lemma defaults_documented : klunok_load [] = Some documented_defaults.
Proof. vm_compute. reflexivity. Qed.

(* derived defaults follow the settings they are derived from *)
Lemma derived_prefix p : klunok_load [SGlobal (s "prefix") (VStr p)] =
  Some (mkFC (fc_editors documented_defaults) [] [] [] [] [] []
             (Some (p ++ s "/store")) (Some (p ++ s "/projects")) (Some ((p ++ s "/var") ++ s "/projects"))
             (Some ((p ++ s "/var") ++ s "/queue")) (Some ((p ++ s "/var") ++ s "/journal")) (Some (s "%Y-%m-%d-%H-%M"))
             (Some (s "v%Y-%m-%d-%H-%M")) (Some ((p ++ s "/var") ++ s "/offsets"))
             60 1024 32768 1 120 [None; None; None; None; None; None; Some []]).
Proof. reflexivity. Qed.

Lemma derived_debounce z : (0 <= z)%Z -> klunok_load [SGlobal (s "debounce_seconds") (VInt z)] =
  Some (mkFC (fc_editors documented_defaults) [] [] [] [] [] []
             (Some (s "klunok/store")) (Some (s "klunok/projects")) (Some (s "klunok/var/projects"))
             (Some (s "klunok/var/queue")) (Some (s "klunok/var/journal")) (Some (s "%Y-%m-%d-%H-%M"))
             (Some (s "v%Y-%m-%d-%H-%M")) (Some (s "klunok/var/offsets"))
             z 1024 32768 1 (z * 2) [None; None; None; None; None; None; Some []]).
Proof.
  intros Hz. assert (E : (0 <=? z)%Z = true) by (apply Z.leb_le; assumption).
  cbv -[Z.leb Z.mul]. rewrite E. cbv -[Z.leb Z.mul].
  assert (E2 : (0 <=? z * 2)%Z = true) by (apply Z.leb_le; lia).
  rewrite ?E2. cbv -[Z.leb Z.mul]. reflexivity.
Qed.

(* an ill-typed value that is still in place when its declaration is reached
   makes loading fail (generic in the table) *)
Lemma declare_all_bad name v : forall ds e,
  glookup name e = v -> v <> VNil -> In name (map d_name ds) ->
  (forall d, In d ds -> d_name d = name -> check (d_type d) v = false) ->
  declare_all e ds = None.
Proof.
  induction ds as [|d ds IH]; intros e Hl Hv Hin Hbad; [simpl in Hin; tauto|].
  cbn [declare_all]. destruct (str_eqb_spec (d_name d) name) as [En|En].
  - assert (Hc : check (d_type d) v = false) by (apply Hbad; [left; reflexivity | assumption]).
    destruct (eval e (d_default d)) as [dv|] eqn:Ev.
    + rewrite (declare_set_bad e d v dv); [reflexivity | rewrite En; assumption | assumption | assumption | assumption].
    + unfold declare. rewrite Ev. reflexivity.
  - destruct (declare e d) as [e'|] eqn:Ed; [|reflexivity].
    apply IH.
    + rewrite (declare_keeps_others e d e' name Ed); [assumption | congruence].
    + assumption.
    + simpl in Hin. destruct Hin as [Hin|Hin]; [congruence | assumption].
    + intros d' Hd'. apply Hbad. right; assumption.
Qed.

Lemma ill_typed_fails (user : list stmt) (e : genv) name v :
  exec_stmts pre_config user = Some e -> glookup name e = v -> v <> VNil ->
  In name (map d_name decls) ->
  (forall d, In d decls -> d_name d = name -> check (d_type d) v = false) ->
  klunok_load user = None.
Proof.
  intros He Hl Hv Hin Hbad. unfold klunok_load, load_config, load_globals. rewrite He.
  rewrite (declare_all_bad name v decls e Hl Hv Hin Hbad). reflexivity.
Qed.

(* assigned values are used verbatim: whatever the user's statements left in a
   global (non-nil) is what the loaded configuration holds (generic in the table) *)
Lemma declare_keeps_set e d e' n : declare e d = Some e' -> glookup n e <> VNil -> glookup n e' = glookup n e.
Proof.
  intros H Hn. destruct (str_eqb_spec n (d_name d)) as [->|Hne]; [|eapply declare_keeps_others; eauto].
  unfold declare in H. destruct (eval e (d_default d)) as [dv|]; [|discriminate].
  destruct (glookup (d_name d) e) eqn:E; try congruence;
    destruct (check (d_type d) _); destruct dv; inversion H; subst; assumption || (rewrite E; reflexivity).
Qed.

Lemma declare_all_keeps_set n : forall ds e e', declare_all e ds = Some e' -> glookup n e <> VNil -> glookup n e' = glookup n e.
Proof.
  induction ds as [|d ds IH]; intros e e' H Hn; cbn [declare_all] in H; [inversion H; reflexivity|].
  destruct (declare e d) as [e1|] eqn:Ed; [|discriminate].
  rewrite (IH e1 e' H); [eapply declare_keeps_set; eauto|].
  rewrite (declare_keeps_set e d e1 n Ed Hn). assumption.
Qed.

Lemma set_verbatim (user : list stmt) (e e' : genv) name :
  exec_stmts pre_config user = Some e -> klunok_globals user = Some e' ->
  glookup name e <> VNil -> glookup name e' = glookup name e.
Proof.
  intros He Hl Hn. unfold klunok_globals, load_globals in Hl. rewrite He in Hl.
  eapply declare_all_keeps_set; eauto.
Qed.
