(* C04, naming half, at the level of the WORLD (PassProofs2.v): taken_ok = the first k
   candidate names exist, the k-th is free; taken_post = the new version sits at the
   k-th candidate, the k taken entries are untouched, everything else as for a plain head. *)
From K Require Import Str Dec Trace Fs World Progs Sieve Handler Linq LinqSpec LinqProofs
     DecProofs SyncProofs AbandonProofs JournalProofs QueueProofs Confine HistoryProofs PassProofs PassProofs2.


(* C04, naming: the first k candidate names (base, base-1, ..., before the
   extension) exist as files, directories or links; the new version is created at
   the k-th candidate and none of the k existing entries is touched.  No fuel
   hypothesis: the loop's fuel always suffices (taken_fuel).  The trace records k
   open tries (klunok's retry does not call finally(): harmless, see DESIGN 8). *)
Theorem C04_world_taken_names : forall o w h rev fuel p t rest i b k,
  benign o -> tr_ok (w_tr w) = true ->
  t_post (w_tr w) = 0 ->
  keys_nodup (w_fs w) ->
  QRel (h_q h) (w_fs w) ((p, 0%N, t) :: rest) ->
  (q_deb (h_q h) <= w_clock w - t)%Z ->
  occurs p rest = false ->
  taken_ok (h_cfg h) (h_cpl h) (h_journal h) (q_dir (h_q h)) (w_fs w) (w_clock w) p i b k ->
  exists w',
    handle_timeout_loop (S fuel) rev h o w =
      handle_timeout_loop fuel rev (set_q (popped p (h_q h)) h) o w' /\
    taken_post (h_cfg h) (h_cpl h) (h_journal h) (head_name (h_q h))
               (w_fs w) (w_fs w') (w_clock w) p b k /\
    QRel (popped p (h_q h)) (w_fs w') rest /\
    keys_nodup (w_fs w') /\
    w_tr w' = mkTr [] (k + t_pre (w_tr w)) 0 /\
    w_clock w' = w_clock w.
Proof. exact taken_names_iteration. Qed.
Print Assumptions C04_world_taken_names.

Example C04_world_taken_hyps := Pass2Example.taken_hyps.
