(* C12 for the WHOLE program: Klunok.klunok = the start-up of main.c, the REAL
   Handler.load_handler and the event loop over the REAL handler programs
   (Daemon.daemon_loop), in the world monad.  Statements only; the proofs are in
   KlunokProofs.v. *)
From K Require Import Str Dec Trace Fs World Progs Handler ReloadProofs ReloadHistory
     Main MainProofs Daemon DaemonProofs Klunok KlunokProofs.
Local Open Scope N_scope.

(* every oracle and world: what the whole program emits IS Main.main on the
   environment whose scripted answers (e_load_ok, e_slots) are those of the real
   programs: C12_no_root_work, C12_fail_closed and every theorem about Main.main
   holds of the whole program *)
Theorem C12_klunok_refines_main :
  forall (env : Main.env) (cfg : config) (rev : bool) (ns : list notif) (o : oracle) (w : world)
         (outs : list out) (w' : world),
    klunok env cfg rev ns o w = (Some outs, w') ->
    outs = main (env_of_run env cfg rev ns o w).
Proof. exact klunok_refines_main. Qed.
Print Assumptions C12_klunok_refines_main.

(* if any system call was made or anything on disk changed, start-up had
   succeeded with a non-zero uid, a non-zero gid and no supplementary groups,
   and the run is load_handler + the loop from the INITIAL world *)
Theorem C12_klunok_no_root_work :
  forall (env : Main.env) (cfg : config) (rev : bool) (ns : list notif) (o : oracle) (w : world)
         (r : option (list out)) (w' : world),
    klunok env cfg rev ns o w = (r, w') ->
    (w_n w' <> w_n w \/ w_fs w' <> w_fs w) ->
    exists pre cfgp cpl u g ev3,
      startup env = (pre, Some (cfgp, cpl, u, g, 0%nat)) /\ no_work pre /\
      u <> 0 /\ g <> 0 /\ drop_privileges env = (ev3, true, u, g, 0%nat) /\
      run_loaded (e_self env) cfg rev ns pre (cfgp, cpl, u, g, 0%nat) o w = (r, w').
Proof. exact C12_whole_no_root_work. Qed.
Print Assumptions C12_klunok_no_root_work.

(* a failing start-up leaves the world untouched and ends with an exit *)
Theorem C12_klunok_fail_closed :
  forall (env : Main.env) (cfg : config) (rev : bool) (ns : list notif) (o : oracle) (w : world),
    snd (startup env) = None ->
    klunok env cfg rev ns o w = (Some (fst (startup env)), w) /\
    exists pre c t, fst (startup env) = pre ++ [OExit c t] /\ no_work pre /\ exit_code_ok env pre c t.
Proof. exact C12_whole_fail_closed. Qed.
Print Assumptions C12_klunok_fail_closed.

(* started as root with a path that cannot be examined / is owned by 0 / a
   failing or ineffective switch: nothing is touched, nothing is loaded *)
Theorem C12_klunok_fail_closed_root :
  forall (env : Main.env) (cfg : config) (rev : bool) (ns : list notif) (o : oracle) (w : world),
    e_uid env = 0 -> e_gid env = 0 -> (0 < e_groups env)%nat ->
    (e_stat env = None \/ (exists u g, e_stat env = Some (u, g) /\ (u = 0 \/ g = 0)) \/
     e_setgroups env <> SwOk \/ e_setgid env <> SwOk \/ e_setuid env <> SwOk) ->
    exists pre c t,
      klunok env cfg rev ns o w = (Some (pre ++ [OExit c t]), w) /\ no_work pre /\ exit_code_ok env pre c t.
Proof. exact C12_whole_fail_closed_root. Qed.
Print Assumptions C12_klunok_fail_closed_root.

(* every handled event and every timeout pass comes after an OLoad with
   non-zero credentials *)
Theorem C12_klunok_events_after_drop :
  forall (env : Main.env) (cfg : config) (rev : bool) (ns : list notif) (o : oracle) (w : world)
         (outs : list out) (w' : world) (l1 : list out) (x : out) (l2 : list out),
    klunok env cfg rev ns o w = (Some outs, w') ->
    outs = l1 ++ x :: l2 -> is_event x = true ->
    exists pre cfgp cpl u g ev3 l0,
      l1 = pre ++ OLoad cfgp cpl u g 0 :: l0 /\ no_work pre /\
      u <> 0 /\ g <> 0 /\ drop_privileges env = (ev3, true, u, g, 0%nat).
Proof. exact C12_whole_events_after_drop. Qed.
Print Assumptions C12_klunok_events_after_drop.
